"""fragcheck: fragment contracts of Expr.__teal__ (DESIGN.md section 3), checked on the REAL method.

The real `__teal__` of a construct is executed natively (CPython) on *opaque* child expressions; the block
graph it returns is then executed symbolically, for all run-time states, with the children's meaning given
by uninterpreted functions, and compared (z3) with the documented meaning of the construct (`spec term`).

   P over run-time states and child semantics (unbounded; z3)
   E over the compile-time control domain the method can observe through the Expr interface
     (child types x has_return x pending break/continue exits x version x mode x in-subroutine) - enumerated.

Parametricity assumption (enforced dynamically): the construct observes its children only through
type_of / has_return / __teal__ (the opaque proxy records every other attribute access).
"""
from __future__ import annotations

import itertools
import z3

from spec.langspec import OPS

World = z3.DeclareSort("FWorld")
Val = z3.DeclareSort("FVal")
isnz = z3.Function("isnz", Val, z3.BoolSort())
kindC = z3.Function("kindC", z3.IntSort(), World, z3.IntSort())  # 0 normal, 1 terminal, 2+j pending exit j
nwC = z3.Function("nwC", z3.IntSort(), World, World)
valC = z3.Function("valC", z3.IntSort(), World, Val)
termC = z3.Function("termC", z3.IntSort(), World, z3.IntSort())

_fn_cache = {}


def ufn(name, *sorts):
    key = (name, tuple(str(s) for s in sorts))
    if key not in _fn_cache:
        _fn_cache[key] = z3.Function(name, *sorts)
    return _fn_cache[key]


def imm_key(x):
    """Immediates are compared by identity/value of the real objects (ints, strs, slots, subroutines, labels)."""
    if isinstance(x, (int, str)):
        return repr(x)
    return f"<{type(x).__name__}@{id(x)}>"


def apply_op(mn, imms, operands, W):
    """Uninterpreted meaning of a non-control op: results, new world, failure condition."""
    key = mn + "(" + ",".join(imm_key(i) for i in imms) + ")"
    n = len(operands)
    pops, pushes = OPS[mn][3], OPS[mn][4]
    res = [ufn(f"res{i}:{key}", *([Val] * n), World, Val)(*operands, W) for i in range(len(pushes))]
    W2 = ufn(f"w:{key}", *([Val] * n), World, World)(*operands, W)
    fail = ufn(f"fail:{key}", *([Val] * n), World, z3.BoolSort())(*operands, W)
    return res, W2, fail


class Leaf:
    def __init__(self, guards, kind, W=None, stack=None, data=None):
        self.guards, self.kind, self.W, self.stack, self.data = list(guards), kind, W, list(stack or []), data

    def __repr__(self):
        return f"Leaf({self.kind}, data={self.data}, stack={len(self.stack)}, guards={len(self.guards)})"


class St:
    def __init__(self, guards, W, stack):
        self.guards, self.W, self.stack = list(guards), W, list(stack)

    def fork(self, extra):
        return St(self.guards + [extra], self.W, self.stack)


class Underflow(Exception):
    pass


def sat(guards):
    s = z3.Solver()
    s.set("timeout", 2000)
    s.add(*guards)
    return s.check() != z3.unsat


# ------------------------------------------------------------------------------- opaque children ----------
class ChildInfo:
    """What the checker knows about one opaque child (id, typed?, exits it registered)."""

    def __init__(self, cid, pushes, has_return, nbreak, ncont):
        self.cid, self.pushes, self.has_return, self.nbreak, self.ncont = cid, pushes, has_return, nbreak, ncont
        self.break_blocks, self.cont_blocks = [], []
        self.accesses = []
        self.compiled = 0


def run_child(ci: ChildInfo, st: St):
    """Semantics of an opaque child at state st -> list of (St | Leaf)."""
    c, W = z3.IntVal(ci.cid), st.W
    out = []
    k = kindC(c, W)
    nexits = ci.nbreak + ci.ncont
    if not ci.has_return:
        s2 = st.fork(k == 0)
        s2.W = nwC(c, W)
        if ci.pushes:
            s2.stack.append(valC(c, W))
        out.append(s2)
    out.append(Leaf(st.guards + [k == 1], "term", data=("child", ci.cid, termC(c, W))))
    for j in range(nexits):
        # pending exit j: world after the child ran up to the Break/Continue, stack as at child entry
        kind = "brk" if j < ci.nbreak else "cont"
        out.append(("exit", kind, j if j < ci.nbreak else j - ci.nbreak, St(st.guards + [k == 2 + j], nwC(c, W), st.stack)))
    # kinds outside the range do not occur
    return out, z3.And(k >= 0, k <= 1 + nexits, *( [k != 0] if ci.has_return else [] ))


# ------------------------------------------------------------------------------- graph execution ----------
class Goto:
    def __init__(self, block, st):
        self.block, self.st = block, st


class GraphRunner:
    def __init__(self, children_by_marker, pending, max_depth=400):
        self.children = children_by_marker  # id(marker TealOp) -> ChildInfo
        self.pending = pending  # id(block) -> ("brk"|"cont", child id, j)   blocks registered by opaque children
        self.max_depth = max_depth
        self.domain = []  # kind-range facts of the children encountered
        self.leaves = []

    def run(self, start, st, end, stop_at=None):
        """Explore from `start`; returns leaves. `end`: the fragment's end block (normal exit)."""
        self.leaves = []
        self._go(start, st, end, [], stop_at, first=True)
        return self.leaves

    def _emit(self, leaf):
        if sat(leaf.guards + self.domain):
            self.leaves.append(leaf)

    def _go(self, block, st, end, visiting, stop_at, first=False):
        from pyteal.ir import TealSimpleBlock, TealConditionalBlock
        if not sat(st.guards + self.domain):
            return
        if (stop_at is not None and block is stop_at and not first) or any(b is block for b in visiting):
            # a cycle closed at `block` (loop head) or the designated cut block was reached again
            self._emit(Leaf(st.guards, "cut", st.W, st.stack, data=id(block)))
            return
        if len(visiting) > self.max_depth:
            raise RuntimeError("graph too deep")
        visiting = visiting + [block]
        states = [st]
        for op in block.ops:
            nxt = []
            for s in states:
                for item in self._op(op, s):
                    if isinstance(item, Leaf):
                        self._emit(item)
                    elif isinstance(item, Goto):
                        self._go(item.block, item.st, end, visiting, stop_at)
                    else:
                        nxt.append(item)
            states = nxt
        for s in states:
            if type(block) is TealSimpleBlock:
                if block.nextBlock is None:
                    if id(block) in self.pending:
                        kind, cid, j = self.pending[id(block)]
                        self._emit(Leaf(s.guards, kind, s.W, s.stack, data=(cid, j)))
                    elif block is end:
                        self._emit(Leaf(s.guards, "normal", s.W, s.stack))
                    else:
                        self._emit(Leaf(s.guards, "dangling", s.W, s.stack, data="block without successor that is not the fragment end"))
                else:
                    self._go(block.nextBlock, s, end, visiting, stop_at)
            elif type(block) is TealConditionalBlock:
                if not s.stack:
                    self._emit(Leaf(s.guards, "underflow", data="conditional block pops below fragment entry"))
                    continue
                v = s.stack[-1]
                for cond, tgt in ((isnz(v), block.trueBlock), (z3.Not(isnz(v)), block.falseBlock)):
                    s2 = St(s.guards + [cond], s.W, s.stack[:-1])
                    if tgt is None:
                        self._emit(Leaf(s2.guards, "dangling", s2.W, s2.stack, data="conditional edge missing"))
                    else:
                        self._go(tgt, s2, end, visiting, stop_at)
            else:
                raise RuntimeError(f"unknown block type {type(block)}")

    def _op(self, op, st):
        ci = self.children.get(id(op))
        if ci is None:
            return exec_op(str(op.getOp()), list(op.args), st)
        outs, dom = run_child(ci, st)
        self.domain.append(dom)
        res = []
        for o in outs:
            if isinstance(o, tuple):
                _, kind, j, s2 = o
                res.append(Goto((ci.break_blocks if kind == "brk" else ci.cont_blocks)[j], s2))
            else:
                res.append(o)
        return res


def exec_op(mn, imms, st):
    """Interpreted stack/control ops; everything else uninterpreted via apply_op. -> list of St/Leaf."""
    s = St(st.guards, st.W, st.stack)

    def pop():
        if not s.stack:
            raise Underflow()
        return s.stack.pop()

    try:
        if mn == "//":
            # TealOp.assemble writes the text after `// ` verbatim: a line break in it starts a new TEAL line (instructions)
            if any(isinstance(a, str) and ("\n" in a or "\r" in a) for a in imms):
                return [Leaf(s.guards, "comment-text-with-line-break-becomes-code", s.W, list(s.stack))]
            return [s]
        if mn == "pop":
            pop()
            return [s]
        if mn == "dup":
            v = pop()
            s.stack += [v, v]
            return [s]
        if mn == "dup2":
            b = pop(); a = pop()
            s.stack += [a, b, a, b]
            return [s]
        if mn == "swap":
            b = pop(); a = pop()
            s.stack += [b, a]
            return [s]
        if mn == "dig":
            n = imms[0]
            if n >= len(s.stack):
                raise Underflow()
            s.stack.append(s.stack[-1 - n])
            return [s]
        if mn == "cover":
            n = imms[0]
            if n >= len(s.stack):
                raise Underflow()
            v = s.stack.pop(); s.stack.insert(len(s.stack) - n, v)
            return [s]
        if mn == "uncover":
            n = imms[0]
            if n >= len(s.stack):
                raise Underflow()
            v = s.stack.pop(len(s.stack) - 1 - n); s.stack.append(v)
            return [s]
        if mn == "select":
            c = pop(); b = pop(); a = pop()
            s.stack.append(z3.If(isnz(c), b, a))
            return [s]
        if mn == "assert":
            v = pop()
            return [Leaf(s.guards + [z3.Not(isnz(v))], "fail"), St(s.guards + [isnz(v)], s.W, s.stack)]
        if mn == "err":
            return [Leaf(s.guards, "fail")]
        if mn == "return":
            v = pop()
            return [Leaf(s.guards, "exit", s.W, [], data=v)]
        if mn == "retsub":
            return [Leaf(s.guards, "retsub", s.W, s.stack)]
        if mn in ("b", "bz", "bnz", "callsub_"):
            raise RuntimeError("branch op inside a block")
        spec = OPS.get(mn)
        if spec is None:
            raise RuntimeError(f"op {mn} not in langspec")
        npop = len(spec[3])
        if mn == "callsub":
            sub = imms[0]
            npop = sub.argument_count()
            pushes = 1 if (str(sub.return_type) != "TealType.none" or getattr(sub, "has_abi_output", False)) else 0
            ops = [pop() for _ in range(npop)][::-1]
            key = f"callsub({imm_key(sub)})"
            res = [ufn(f"res{i}:{key}", *([Val] * npop), World, Val)(*ops, s.W) for i in range(pushes)]
            W2 = ufn(f"w:{key}", *([Val] * npop), World, World)(*ops, s.W)
            fail = ufn(f"fail:{key}", *([Val] * npop), World, z3.BoolSort())(*ops, s.W)
            s2 = St(s.guards + [z3.Not(fail)], W2, s.stack + res)
            return [Leaf(s.guards + [fail], "fail"), s2]
        ops = [pop() for _ in range(npop)][::-1]
        res, W2, fail = apply_op(mn, imms, ops, s.W)
        s2 = St(s.guards + [z3.Not(fail)], W2, s.stack + res)
        return [Leaf(s.guards + [fail], "fail"), s2]
    except Underflow:
        return [Leaf(s.guards, "underflow", data=f"{mn} pops below the fragment's entry height")]


# ------------------------------------------------------------------------------- spec terms ---------------
def run_spec(t, st: St, dom: list):
    """Documented meaning of a construct as a term over opaque children. -> (normal continuations, leaves)."""
    k = t[0]
    if k == "child":
        ci = t[1]
        outs, d = run_child(ci, st)
        dom.append(d)
        conts, leaves = [], []
        for o in outs:
            if isinstance(o, tuple):
                _, kind, j, s2 = o
                leaves.append(Leaf(s2.guards, kind, s2.W, s2.stack, data=(ci.cid, j)))
            elif isinstance(o, Leaf):
                leaves.append(o)
            else:
                conts.append(o)
        return conts, leaves
    if k == "seq":
        conts, leaves = [st], []
        for x in t[1]:
            nxt = []
            for s in conts:
                c2, l2 = run_spec(x, s, dom)
                nxt += c2
                leaves += l2
            conts = nxt
        return conts, leaves
    if k == "op":
        conts, leaves = [], []
        for o in exec_op(t[1], list(t[2]), st):
            (leaves if isinstance(o, Leaf) else conts).append(o)
        return conts, leaves
    if k == "ifnz":
        if not st.stack:
            return [], [Leaf(st.guards, "underflow", data="spec ifnz")]
        v = st.stack[-1]
        c1, l1 = run_spec(t[1], St(st.guards + [isnz(v)], st.W, st.stack[:-1]), dom)
        c0, l0 = run_spec(t[2], St(st.guards + [z3.Not(isnz(v))], st.W, st.stack[:-1]), dom)
        return c1 + c0, l1 + l0
    if k == "skip":
        return [st], []
    if k == "fail":
        return [], [Leaf(st.guards, "fail")]
    if k == "cut":
        return [], [Leaf(st.guards, "cut", st.W, st.stack, data="head")]
    if k == "break":
        return [], [Leaf(st.guards, "brk", st.W, st.stack, data=("real", 0))]
    if k == "continue":
        return [], [Leaf(st.guards, "cont", st.W, st.stack, data=("real", 0))]
    if k == "loopbody":
        # one unfolding of a loop from its head:  cond; if nz: body; (step); cut   else: leave the loop
        _, cond_t, body_t, step_t = t
        conts, leaves = [], []
        cc, cl = run_spec(cond_t, st, dom)
        leaves += cl
        for s in cc:
            v = s.stack[-1]
            s_nz = St(s.guards + [isnz(v)], s.W, s.stack[:-1])
            s_z = St(s.guards + [z3.Not(isnz(v))], s.W, s.stack[:-1])
            conts.append(s_z)
            bc, bl = run_spec(body_t, s_nz, dom)
            after_body = list(bc)
            for lf in bl:
                if lf.kind == "brk":
                    conts.append(St(lf.guards, lf.W, lf.stack))  # Break: leave the loop
                elif lf.kind == "cont":
                    after_body.append(St(lf.guards, lf.W, lf.stack))  # Continue: go on with step / next test
                else:
                    leaves.append(lf)
            for s2 in after_body:
                sc, sl = run_spec(step_t, s2, dom)
                leaves += sl
                for s3 in sc:
                    leaves.append(Leaf(s3.guards, "cut", s3.W, s3.stack, data="head"))
        return conts, leaves
    raise ValueError(f"spec term {k}")


def spec_leaves(t, st, dom):
    conts, leaves = run_spec(t, st, dom)
    return leaves + [Leaf(s.guards, "normal", s.W, s.stack) for s in conts]


# ------------------------------------------------------------------------------- comparison ---------------
def _eq_data(a, b):
    """-> (python bool | z3 Bool)"""
    if isinstance(a, tuple) and isinstance(b, tuple):
        if len(a) != len(b):
            return False
        out = []
        for x, y in zip(a, b):
            e = _eq_data(x, y)
            if e is False:
                return False
            if e is not True:
                out.append(e)
        return z3.And(*out) if out else True
    if isinstance(a, z3.ExprRef) and isinstance(b, z3.ExprRef):
        return a == b if a.sort() == b.sort() else False
    if isinstance(a, z3.ExprRef) or isinstance(b, z3.ExprRef):
        return False
    return a == b


def compare(graph_leaves, spec_lv, domain, cut_ok=lambda g, s: True):
    """Every jointly satisfiable (graph leaf, spec leaf) pair must agree. -> (n_queries, mismatches)."""
    mism = []
    nq = 0
    for g in graph_leaves:
        matched = False
        for s in spec_lv:
            hyp = g.guards + s.guards + domain
            nq += 1
            if not sat(hyp):
                continue
            matched = True
            why = None
            if g.kind != s.kind:
                why = f"outcome kind differs: code {g.kind} ({g.data}) vs documented {s.kind} ({s.data})"
            elif len(g.stack) != len(s.stack):
                why = f"{g.kind}: stack height differs: code leaves {len(g.stack)} value(s), documented {len(s.stack)}"
            else:
                goals = []
                if g.kind == "cut":
                    pass  # identity of the cut point is checked by the caller
                else:
                    e = _eq_data(g.data, s.data)
                    if e is False:
                        why = f"{g.kind}: outcome data differs: {g.data} vs {s.data}"
                    elif e is not True:
                        goals.append(e)
                if why is None:
                    if g.W is not None and s.W is not None:
                        goals.append(g.W == s.W)
                    goals += [a == b for a, b in zip(g.stack, s.stack)]
                    if goals:
                        sol = z3.Solver()
                        sol.set("timeout", 10000)
                        sol.add(*hyp)
                        sol.add(z3.Not(z3.And(*goals)))
                        nq += 1
                        r = sol.check()
                        if r == z3.sat:
                            why = f"{g.kind}: state/value differs from the documented meaning (effects, operand order or multiplicity)"
                        elif r != z3.unsat:
                            why = f"UNKNOWN: solver could not decide {g.kind} equality"
            if why:
                mism.append(why)
        if not matched:
            mism.append(f"code outcome {g.kind} ({g.data}) has no documented counterpart")
    # coverage the other way round: every documented outcome must be produced by the code
    for s in spec_lv:
        if not any(sat(g.guards + s.guards + domain) for g in graph_leaves):
            mism.append(f"documented outcome {s.kind} ({s.data}) is never produced by the code")
    return nq, mism
