"""Scenarios: real constructs over opaque children + their documented meaning (spec terms)."""
from __future__ import annotations

import itertools
import traceback
import z3

from . import core
from .core import ChildInfo, St, GraphRunner, spec_leaves, compare, World
from spec.progsem import UN, BIN, TERN, NARY
from spec.langspec import OPS, first_version_for_pyteal

PYTEAL_ERRORS = ("TealInputError", "TealCompileError", "TealTypeError", "TealInternalError", "TealPragmaError")


class Env:
    def __init__(self):
        import pyteal as pt
        self.pt = pt
        self.registry = {}
        self.pending = {}
        self.children = []
        self.ncid = 0
        env = self

        class Opaque(pt.Expr):
            def __init__(self, info, ty):
                super().__init__()
                self._info, self._ty = info, ty

            def type_of(self):
                return self._ty

            def has_return(self):
                return self._info.has_return

            def __str__(self):
                return f"(opaque{self._info.cid})"

            def __teal__(self, options):
                from pyteal.ir import TealOp, TealSimpleBlock, Op
                info = self._info
                info.compiled += 1
                marker = TealOp(self, Op.comment, f"opaque{info.cid}")
                env.registry[id(marker)] = info
                env.keep.append(marker)
                start = TealSimpleBlock([marker])
                end = TealSimpleBlock([])
                start.setNextBlock(end)
                for j in range(info.nbreak):
                    b = TealSimpleBlock([])
                    options.addLoopBreakBlock(b)
                    info.break_blocks.append(b)
                    env.pending[id(b)] = ("brk", info.cid, j)
                for j in range(info.ncont):
                    b = TealSimpleBlock([])
                    options.addLoopContinueBlock(b)
                    info.cont_blocks.append(b)
                    env.pending[id(b)] = ("cont", info.cid, j)
                return start, end

        self.Opaque = Opaque
        self.keep = []

    def child(self, ty="u", has_return=False, nbreak=0, ncont=0):
        pt = self.pt
        T = {"u": pt.TealType.uint64, "b": pt.TealType.bytes, "n": pt.TealType.none, "a": pt.TealType.anytype}[ty]
        self.ncid += 1
        info = ChildInfo(self.ncid, pushes=(ty != "n"), has_return=has_return, nbreak=nbreak, ncont=ncont)
        self.children.append(info)
        return self.Opaque(info, T), info


class Scenario:
    """build(env, v, mode) -> dict(expr=..., term=... | loop=(prefix_term, cond, body, step), expect_error=fn|None,
    sub=SubroutineDefinition|None, in_loop=bool)"""

    def __init__(self, name, cls, build, versions=range(2, 11), modes=("Application", "Signature")):
        self.name, self.cls, self.build, self.versions, self.modes = name, cls, build, list(versions), list(modes)


def C(ci):
    return ("child", ci)


def OP(mn, *imms):
    return ("op", mn, list(imms))


def SEQ(*ts):
    return ("seq", list(ts))


def minv_error(mn):
    def f(v, mode):
        if v < first_version_for_pyteal(mn):
            return True
        return False
    return f


def run_instance(sc: Scenario, v, mode):
    """-> dict(ok, queries, mismatches, note)"""
    import pyteal as pt
    from pyteal.compiler.compiler import CompileOptions
    env = Env()
    res = {"scenario": sc.name, "version": v, "mode": mode, "queries": 0, "mismatches": [], "skipped": None}
    try:
        inst = sc.build(env, v, mode)
    except Exception as e:
        if type(e).__name__ in PYTEAL_ERRORS:
            res["skipped"] = f"constructor rejects: {type(e).__name__}"
            return res
        raise
    if inst is None:
        res["skipped"] = "not applicable"
        return res
    options = CompileOptions(version=v, mode=pt.Mode.Application if mode == "Application" else pt.Mode.Signature)
    options.setSubroutine(inst.get("sub"))
    if inst.get("in_loop"):
        options.enterLoop()
    expect_err = inst.get("expect_error")
    try:
        start, end = inst["expr"].__teal__(options)
    except Exception as e:
        name = type(e).__name__
        if name not in PYTEAL_ERRORS:
            res["mismatches"].append(f"__teal__ raised {name}: {e}")
            return res
        if expect_err is None or not expect_err(v, mode):
            res["mismatches"].append(f"__teal__ raised {name} ({str(e)[:80]}) but the construct is documented to compile at v{v}/{mode}")
        res["rejected"] = True
        return res
    # (a construct that needs a newer version may also be rejected later by verifyOpsForVersion - O4.1)
    expr = inst["expr"]
    from pyteal.ir import TealSimpleBlock
    if type(end) is not TealSimpleBlock or end.nextBlock is not None:
        res["mismatches"].append("fragment end is not an unwired TealSimpleBlock")
        return res
    for ci in env.children:
        if ci.compiled != 1:
            res["mismatches"].append(f"child {ci.cid} compiled {ci.compiled} times (operands must be evaluated exactly once)")
    # loop stacks
    depth_expected = 1 if inst.get("in_loop") else 0
    if len(options.breakBlocksStack) != depth_expected or len(options.continueBlocksStack) != depth_expected:
        res["mismatches"].append("loop stack depth not restored")
        return res
    W0 = z3.Const("W0", World)
    runner = GraphRunner(env.registry, env.pending)
    dom = []
    if "loop" in inst:
        prefix_t, cond_t, body_t, step_t = inst["loop"]
        L0 = runner.run(start, St([], W0, []), end)
        cuts = {l.data for l in L0 if l.kind == "cut"}
        if len(cuts) == 0:
            # the body never comes back to the loop head (it always leaves the loop): plain comparison with one unfolding
            whole = ("seq", [prefix_t, ("loopbody", cond_t, body_t, step_t)]) if prefix_t else ("loopbody", cond_t, body_t, step_t)
            spec0 = spec_leaves(whole, St([], W0, []), dom)
            nq, mm = compare(L0, spec0, dom + runner.domain)
            res["queries"] += nq
            res["mismatches"] += mm
            res["leaves"] = len(L0)
            return res
        if len(cuts) != 1:
            res["mismatches"].append(f"loop construct: expected exactly one loop head, found {len(cuts)}")
            return res
        head_id = cuts.pop()
        if head_id != id(start):
            # stop at the first arrival at the loop head: the entry part is `prefix; enter loop`
            runner = GraphRunner(env.registry, env.pending)
            L0 = runner.run(start, St([], W0, []), end, stop_at=_find_block(start, head_id))
        # prefix: documented meaning = prefix; then enter loop (cut at head)
        spec0 = spec_leaves(("seq", [prefix_t, ("cut",)]) if prefix_t else ("loopbody", cond_t, body_t, step_t), St([], W0, []), dom)
        if prefix_t is None:
            pass
        nq, mm = compare(L0, spec0, dom + runner.domain)
        res["queries"] += nq
        res["mismatches"] += [f"[entry] {m}" for m in mm]
        # one unfolding from the loop head
        head = _find_block(start, head_id)
        W1 = z3.Const("W1", World)
        runner2 = GraphRunner(env.registry, env.pending)
        L1 = runner2.run(head, St([], W1, []), end, stop_at=head)
        dom2 = []
        spec1 = spec_leaves(("loopbody", cond_t, body_t, step_t), St([], W1, []), dom2)
        nq, mm = compare(L1, spec1, dom2 + runner2.domain)
        res["queries"] += nq
        res["mismatches"] += [f"[iteration] {m}" for m in mm]
        leaves = L0 + L1
    else:
        leaves = runner.run(start, St([], W0, []), end)
        spec = spec_leaves(inst["term"], St([], W0, []), dom)
        nq, mm = compare(leaves, spec, dom + runner.domain)
        res["queries"] += nq
        res["mismatches"] += mm
    # interface clauses independent of the spec term (C05 / C04)
    try:
        ty = expr.type_of()
        want = 0 if ty == pt.TealType.none else 1
        for l in leaves:
            if l.kind == "normal" and len(l.stack) != want:
                res["mismatches"].append(f"type_of() is {ty} but the fragment leaves {len(l.stack)} value(s)")
                break
        if expr.has_return() and any(l.kind == "normal" for l in leaves):
            res["mismatches"].append("has_return() is True but the fragment can complete normally")
    except Exception as e:
        if type(e).__name__ not in PYTEAL_ERRORS:
            raise
    res["leaves"] = len(leaves)
    return res


def _find_block(start, bid):
    from pyteal.ir import TealBlock
    for b in TealBlock.Iterate(start):
        if id(b) == bid:
            return b
    raise RuntimeError("cut block not found")


# ======================================================================= scenario catalogue ================
def catalogue():
    import pyteal as pt
    S = []

    # ---- operators: documented mnemonic from the spec tables, operands left to right, each once ----------
    def un(name):
        ctor, mn, a, r, minv = UN[name]

        def build(env, v, mode):
            c, ci = env.child(a)
            return {"expr": getattr(pt, ctor)(c), "term": SEQ(C(ci), OP(mn)), "expect_error": minv_error(mn)}
        return Scenario(f"UnaryExpr/{ctor}", "UnaryExpr", build, modes=["Application"])
    for n in UN:
        S.append(un(n))

    def un_eff(ctor, mn, a, modes=("Application",)):
        def build(env, v, mode):
            c, ci = env.child(a)
            return {"expr": getattr(pt, ctor)(c), "term": SEQ(C(ci), OP(mn)),
                    "expect_error": lambda v, m: v < first_version_for_pyteal(mn)}
        return Scenario(f"UnaryExpr/{ctor}", "UnaryExpr", build, modes=list(modes))
    S.append(un_eff("Pop", "pop", "u", modes=("Application", "Signature")))
    S.append(un_eff("Pop", "pop", "b"))
    S.append(un_eff("Log", "log", "b"))
    S.append(un_eff("Balance", "balance", "a"))
    S.append(un_eff("MinBalance", "min_balance", "a"))

    def binop(name):
        ctor, mn, (a, b), r, minv = BIN[name]

        def build(env, v, mode):
            x, cx = env.child(a)
            y, cy = env.child(b)
            return {"expr": getattr(pt, ctor)(x, y), "term": SEQ(C(cx), C(cy), OP(mn)), "expect_error": minv_error(mn)}
        return Scenario(f"BinaryExpr/{ctor}/{a}{b}", "BinaryExpr", build, modes=["Application"])
    for n in BIN:
        S.append(binop(n))

    def tern(name):
        ctor, mn, (a, b, c), r, minv = TERN[name]

        def build(env, v, mode):
            x, cx = env.child(a)
            y, cy = env.child(b)
            z, cz = env.child(c)
            return {"expr": getattr(pt, ctor)(x, y, z), "term": SEQ(C(cx), C(cy), C(cz), OP(mn)), "expect_error": minv_error(mn)}
        return Scenario(f"TernaryExpr/{ctor}/{a}", "TernaryExpr", build, modes=["Application"])
    for n in TERN:
        S.append(tern(n))

    def nary(name, k):
        ctor, mn, a, r, minv = NARY[name]

        def build(env, v, mode):
            cs = [env.child(a) for _ in range(k)]
            t = [C(cs[0][1])]
            for _, ci in cs[1:]:
                t += [C(ci), OP(mn)]
            return {"expr": getattr(pt, ctor)(*[c for c, _ in cs]), "term": SEQ(*t)}
        return Scenario(f"NaryExpr/{ctor}/{k}", "NaryExpr", build, modes=["Application"], versions=[2, 6, 10])
    for n in NARY:
        for k in (2, 3, 5):
            S.append(nary(n, k))

    # ---- Seq ------------------------------------------------------------------------------------------------
    def seq(k, last_ty, last_ret, loop):
        def build(env, v, mode):
            cs = [env.child("n", nbreak=1 if (loop and i == 0) else 0, ncont=1 if (loop and i == 0) else 0) for i in range(k - 1)]
            if k > 0:
                cs.append(env.child(last_ty, has_return=last_ret))
            return {"expr": pt.Seq(*[c for c, _ in cs]), "term": SEQ(*[C(ci) for _, ci in cs]), "in_loop": loop}
        return Scenario(f"Seq/{k}/{last_ty}/ret={last_ret}/loop={loop}", "Seq", build, versions=[2, 10], modes=["Application"])
    for k in (0, 1, 2, 4):
        for lt in ("n", "u", "b"):
            for lr in (False, True):
                if k == 0 and (lt != "n" or lr):
                    continue
                S.append(seq(k, lt, lr, False))
    S.append(seq(3, "u", False, True))

    # ---- If -------------------------------------------------------------------------------------------------
    def if3(ty, tr, er, loop):
        def build(env, v, mode):
            c, cc = env.child("u")
            t, ct = env.child(ty, has_return=tr, nbreak=1 if loop else 0)
            e, ce = env.child(ty, has_return=er, ncont=1 if loop else 0)
            return {"expr": pt.If(c, t, e), "term": SEQ(C(cc), ("ifnz", C(ct), C(ce))), "in_loop": loop}
        return Scenario(f"If/else/{ty}/ret={tr},{er}/loop={loop}", "If", build, versions=[2, 10], modes=["Application"])
    for ty in ("n", "u", "b"):
        for tr in (False, True):
            for er in (False, True):
                S.append(if3(ty, tr, er, False))
    S.append(if3("n", False, False, True))

    def if2(tr, style):
        def build(env, v, mode):
            c, cc = env.child("u")
            t, ct = env.child("n", has_return=tr)
            e = pt.If(c, t) if style == "ctor" else pt.If(c).Then(t)
            return {"expr": e, "term": SEQ(C(cc), ("ifnz", C(ct), ("skip",)))}
        return Scenario(f"If/then-only/ret={tr}/{style}", "If", build, versions=[2, 10], modes=["Application"])
    for tr in (False, True):
        for st in ("ctor", "then"):
            S.append(if2(tr, st))

    def ifelif():
        def build(env, v, mode):
            c1, k1 = env.child("u")
            c2, k2 = env.child("u")
            a, ka = env.child("n")
            b, kb = env.child("n")
            d, kd = env.child("n")
            e = pt.If(c1).Then(a).ElseIf(c2).Then(b).Else(d)
            return {"expr": e, "term": SEQ(C(k1), ("ifnz", C(ka), SEQ(C(k2), ("ifnz", C(kb), C(kd)))))}
        return Scenario("If/Then/ElseIf/Else", "If", build, versions=[2, 10], modes=["Application"])
    S.append(ifelif())

    def ifelif_open(ra, rb, style):
        """If / ElseIf chain WITHOUT a final Else: it can complete normally (no condition holds) whatever its branches do"""
        def build(env, v, mode):
            c1, k1 = env.child("u")
            c2, k2 = env.child("u")
            a, ka = env.child("n", has_return=ra)
            b, kb = env.child("n", has_return=rb)
            e = pt.If(c1).Then(a).ElseIf(c2).Then(b) if style == "chain" else pt.If(c1, a, pt.If(c2, b))
            return {"expr": e, "term": SEQ(C(k1), ("ifnz", C(ka), SEQ(C(k2), ("ifnz", C(kb), ("skip",)))))}
        return Scenario(f"If/ElseIf/no-else/ret={ra},{rb}/{style}", "If", build, versions=[2, 10], modes=["Application"])
    for ra in (False, True):
        for rb in (False, True):
            for st in ("chain", "nested"):
                S.append(ifelif_open(ra, rb, st))

    def ifelif3_open():
        def build(env, v, mode):
            cs = [env.child("u") for _ in range(3)]
            bs = [env.child("n", has_return=True) for _ in range(3)]
            e = pt.If(cs[0][0]).Then(bs[0][0]).ElseIf(cs[1][0]).Then(bs[1][0]).ElseIf(cs[2][0]).Then(bs[2][0])
            t = ("skip",)
            for (c, kc), (b, kb) in reversed(list(zip(cs, bs))):
                t = SEQ(C(kc), ("ifnz", C(kb), t))
            return {"expr": e, "term": t}
        return Scenario("If/ElseIf/ElseIf/no-else/all-return", "If", build, versions=[2, 10], modes=["Application"])
    S.append(ifelif3_open())

    # ---- Cond -----------------------------------------------------------------------------------------------
    def cond(k, ty, rets):
        def build(env, v, mode):
            arms = []
            for i in range(k):
                c, cc = env.child("u")
                p, cp = env.child(ty, has_return=rets[i % len(rets)])
                arms.append((c, cc, p, cp))
            t = ("fail",)
            for c, cc, p, cp in reversed(arms):
                t = SEQ(C(cc), ("ifnz", C(cp), t))
            return {"expr": pt.Cond(*[[c, p] for c, _, p, _ in arms]), "term": t}
        return Scenario(f"Cond/{k}/{ty}/{rets}", "Cond", build, versions=[2, 10], modes=["Application"])
    for k in (1, 2, 3):
        for ty in ("n", "u"):
            S.append(cond(k, ty, (False,)))
    S.append(cond(2, "n", (True,)))
    S.append(cond(2, "n", (True, False)))

    # ---- While / For ----------------------------------------------------------------------------------------
    def while_(nb, nc, outer_loop):
        def build(env, v, mode):
            c, cc = env.child("u")
            b, cb = env.child("n", nbreak=nb, ncont=nc)
            return {"expr": pt.While(c).Do(b), "loop": (None, C(cc), C(cb), ("skip",)), "in_loop": outer_loop}
        return Scenario(f"While/brk={nb}/cont={nc}/nested={outer_loop}", "While", build, versions=[2, 10], modes=["Application"])
    for nb in (0, 1, 2):
        for nc in (0, 1, 2):
            S.append(while_(nb, nc, False))
    S.append(while_(1, 1, True))

    def for_(nb, nc, outer_loop):
        def build(env, v, mode):
            i, ci = env.child("n")
            c, cc = env.child("u")
            s, cs = env.child("n")
            b, cb = env.child("n", nbreak=nb, ncont=nc)
            return {"expr": pt.For(i, c, s).Do(b), "loop": (C(ci), C(cc), C(cb), C(cs)), "in_loop": outer_loop}
        return Scenario(f"For/brk={nb}/cont={nc}/nested={outer_loop}", "For", build, versions=[2, 10], modes=["Application"])
    for nb in (0, 1, 2):
        for nc in (0, 1, 2):
            S.append(for_(nb, nc, False))
    S.append(for_(1, 1, True))

    def loop_real_exit(kind, what, lead):
        """the loop body is (or ends with) a real Break() / Continue(): its block is both the body's end and a pending exit"""
        def build(env, v, mode):
            c, cc = env.child("u")
            parts, terms = [], []
            if lead:
                x, cx = env.child("n")
                parts.append(x)
                terms.append(C(cx))
            parts.append(pt.Break() if what == "break" else pt.Continue())
            terms.append((what,))
            body = pt.Seq(*parts) if len(parts) > 1 else parts[0]
            if kind == "while":
                return {"expr": pt.While(c).Do(body), "loop": (None, C(cc), SEQ(*terms), ("skip",)), "expect_error": lambda v, m: v < 2}
            i, ci = env.child("n")
            s_, cs = env.child("n")
            return {"expr": pt.For(i, c, s_).Do(body), "loop": (C(ci), C(cc), SEQ(*terms), C(cs))}
        return Scenario(f"{kind}/body-ends-with-real-{what}/lead={lead}", "While" if kind == "while" else "For", build, versions=[2, 10], modes=["Application"])
    for kind in ("while", "for"):
        for what in ("break", "continue"):
            for lead in (False, True):
                S.append(loop_real_exit(kind, what, lead))

    # ---- Assert ---------------------------------------------------------------------------------------------
    def assert_(k, comment):
        def build(env, v, mode):
            cs = [env.child("u") for _ in range(k)]
            e = pt.Assert(*[c for c, _ in cs], comment=comment) if comment is not None else pt.Assert(*[c for c, _ in cs])
            return {"expr": e, "term": SEQ(*[SEQ(C(ci), OP("assert")) for _, ci in cs])}
        tag = "none" if comment is None else ("multiline" if "\n" in comment else "single")
        return Scenario(f"Assert/{k}/comment={tag}", "Assert", build, modes=["Application"])
    for k in (1, 2, 3):
        for cm in (None, "why // int 0; err", "first line\nint 1\nreturn"):
            S.append(assert_(k, cm))

    # ---- Return / Approve / Reject / ExitProgram ---------------------------------------------------------------
    def return_main(ty):
        def build(env, v, mode):
            c, cc = env.child(ty)
            return {"expr": pt.Return(c), "term": SEQ(C(cc), OP("return"))}
        return Scenario(f"Return/main/{ty}", "Return", build, versions=[2, 4, 10])
    S.append(return_main("u"))

    def return_sub(rt, with_value):
        def build(env, v, mode):
            RT = {"n": pt.TealType.none, "u": pt.TealType.uint64, "b": pt.TealType.bytes}[rt]
            sub = pt.SubroutineDefinition(lambda: pt.Seq(), RT)
            if with_value:
                c, cc = env.child(rt)
                return {"expr": pt.Return(c), "term": SEQ(C(cc), OP("retsub")), "sub": sub,
                        "expect_error": lambda v, m: v < 4}
            return {"expr": pt.Return(), "term": OP("retsub"), "sub": sub, "expect_error": lambda v, m: v < 4}
        return Scenario(f"Return/sub/{rt}/value={with_value}", "Return", build, versions=[3, 4, 10], modes=["Application"])
    S.append(return_sub("n", False))
    S.append(return_sub("u", True))
    S.append(return_sub("b", True))

    def exit_(which):
        def build(env, v, mode):
            e = pt.Approve() if which == 1 else pt.Reject()
            return {"expr": e, "term": SEQ(OP("int", which), OP("return"))}
        return Scenario(f"ExitProgram/{which}", "ExitProgram", build, versions=[2, 10])
    S.append(exit_(1))
    S.append(exit_(0))

    # ---- scratch ------------------------------------------------------------------------------------------------
    def sv_store(ty):
        def build(env, v, mode):
            sv = pt.ScratchVar(pt.TealType.uint64 if ty == "u" else pt.TealType.bytes)
            c, cc = env.child(ty)
            return {"expr": sv.store(c), "term": SEQ(C(cc), OP("store", sv.slot))}
        return Scenario(f"ScratchVar.store/{ty}", "ScratchStore", build, versions=[2, 10], modes=["Application"])
    S += [sv_store("u"), sv_store("b")]

    def sv_load():
        def build(env, v, mode):
            sv = pt.ScratchVar(pt.TealType.uint64, 7)
            return {"expr": sv.load(), "term": OP("load", sv.slot)}
        return Scenario("ScratchVar.load", "ScratchLoad", build, versions=[2, 10], modes=["Application"])
    S.append(sv_load())

    def dsv():
        def build(env, v, mode):
            d = pt.DynamicScratchVar(pt.TealType.uint64)
            c, cc = env.child("u")
            return {"expr": d.store(c), "term": SEQ(OP("load", d.slot), C(cc), OP("stores")),
                    "expect_error": lambda v, m: v < 5}
        return Scenario("DynamicScratchVar.store", "ScratchStore", build, versions=[4, 5, 10], modes=["Application"])
    S.append(dsv())

    def dsv_load():
        def build(env, v, mode):
            d = pt.DynamicScratchVar(pt.TealType.uint64)
            return {"expr": d.load(), "term": SEQ(OP("load", d.slot), OP("loads")), "expect_error": lambda v, m: v < 5}
        return Scenario("DynamicScratchVar.load", "ScratchLoad", build, versions=[4, 5, 10], modes=["Application"])
    S.append(dsv_load())

    # ---- MultiValue / MaybeValue ------------------------------------------------------------------------------------
    def maybe_global_ex():
        def build(env, v, mode):
            a, ca = env.child("u")
            k, ck = env.child("b")
            mv = pt.App.globalGetEx(a, k)
            s0, s1 = mv.output_slots
            # documented: evaluate app, key; app_global_get_ex pushes (value, exists); exists -> slot 0... stored so that
            # hasValue() reads `exists` and value() reads `value`
            t = SEQ(C(ca), C(ck), OP("app_global_get_ex"), OP("store", mv.slotOk), OP("store", mv.slotValue))
            return {"expr": mv, "term": t}
        return Scenario("MaybeValue/App.globalGetEx", "MultiValue", build, versions=[2, 10], modes=["Application"])
    S.append(maybe_global_ex())

    # ---- annotations (C18) ------------------------------------------------------------------------------------------
    def comment(text):
        def build(env, v, mode):
            c, cc = env.child("u")
            return {"expr": pt.Comment(text, c), "term": C(cc)}
        return Scenario(f"Comment/{text!r}", "Comment", build, versions=[2, 10], modes=["Application"])
    for tx in ("one line", "two\nlines", "int 0; return // x", ""):
        S.append(comment(tx))

    def nonce():
        def build(env, v, mode):
            c, cc = env.child("u")
            e = pt.Nonce("base16", "abcd", c)
            return {"expr": e, "term": SEQ(OP("byte", "0xabcd"), OP("pop"), C(cc))}
        return Scenario("Nonce", "Nonce", build, versions=[2, 10], modes=["Application"])
    S.append(nonce())

    def pragma():
        def build(env, v, mode):
            c, cc = env.child("u")
            import pyteal
            return {"expr": pt.Pragma(c, compiler_version=">=0.1.0"), "term": C(cc)}
        return Scenario("Pragma", "Pragma", build, versions=[2, 10], modes=["Application"])
    S.append(pragma())

    # ---- subroutine call ----------------------------------------------------------------------------------------------
    def subcall(n, rt):
        def build(env, v, mode):
            RT = {"n": pt.TealType.none, "u": pt.TealType.uint64}[rt]
            params = ", ".join(f"a{i}" for i in range(n))
            ns = {"pt": pt}
            exec(compile(f"def f({params}):\n    return pt.Seq() if {rt == 'n'} else pt.Int(1)\n", "<f>", "exec", dont_inherit=True), ns)
            fw = pt.Subroutine(RT)(ns["f"])
            cs = [env.child("u") for _ in range(n)]
            call = fw(*[c for c, _ in cs])
            return {"expr": call, "term": SEQ(*[C(ci) for _, ci in cs], OP("callsub", fw.subroutine)),
                    "expect_error": lambda v, m: v < 4}
        return Scenario(f"SubroutineCall/{n}/{rt}", "SubroutineCall", build, versions=[3, 4, 8, 10], modes=["Application"])
    for n in (0, 1, 3):
        for rt in ("n", "u"):
            S.append(subcall(n, rt))

    def subcall_byref(kind):
        """By-reference arguments: the callee receives the *index* of the caller's variable.
        ScratchVar -> its slot number; DynamicScratchVar -> the index it currently holds (so a forwarded reference stays a reference)."""
        def build(env, v, mode):
            ns = {"pt": pt}
            exec(compile("def g(x: pt.ScratchVar, y):\n    return pt.Seq()\n", "<g>", "exec", dont_inherit=True), ns)
            fw = pt.Subroutine(pt.TealType.none)(ns["g"])
            c, cc = env.child("u")
            if kind == "scratchvar":
                var = pt.ScratchVar(pt.TealType.uint64)
                first = OP("int", var.slot)
            else:
                var = pt.DynamicScratchVar(pt.TealType.uint64)
                first = OP("load", var.slot)
            call = fw(var, c)
            return {"expr": call, "term": SEQ(first, C(cc), OP("callsub", fw.subroutine)), "expect_error": lambda v, m: v < 4}
        return Scenario(f"SubroutineCall/by-ref/{kind}", "SubroutineCall", build, versions=[4, 5, 8, 10], modes=["Application"])
    S.append(subcall_byref("scratchvar"))
    S.append(subcall_byref("dynamic"))
    return S
