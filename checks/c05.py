"""C05 Emitted code keeps stack and type discipline on every path."""
from __future__ import annotations

import itertools
from concurrent.futures import ProcessPoolExecutor

from vf.core import Report, Bounded, Violation, Ob
from . import e2e
from .frag import run_fragcheck

LEVEL = "other"
KNOWN_KEY = "O3.4:store-elsewhere+adjacent-store-load"


def type_tables(report: Report):
    """O5.1 (E): require_type / types_match against the type lattice, all 4x4 combinations."""
    import pyteal as pt
    from pyteal.types import require_type, types_match
    T = pt.TealType
    all_t = list(T)

    def spec_match(a, b):
        if a == T.none or b == T.none:
            return a == b
        return a == T.anytype or b == T.anytype or a == b

    bad = []
    for a, b in itertools.product(all_t, all_t):
        if types_match(a, b) != spec_match(a, b):
            bad.append(("types_match", str(a), str(b)))

        class E:
            def type_of(self, a=a):
                return a
        try:
            require_type(E(), b)
            ok = True
        except pt.TealTypeError:
            ok = False
        if ok != spec_match(a, b):
            bad.append(("require_type", str(a), str(b)))
    for fn in ("types_match", "require_type"):
        mine = [x for x in bad if x[0] == fn]
        report.ob(Ob(id=f"O5.1/{fn}/lattice", function=f"pyteal.types.{fn}", kind="E",
                     status="refuted" if mine else "discharged", backend="enumeration(4x4, exhaustive)",
                     detail="none matches only none; anytype matches every non-none type; otherwise equality", model=mine or None))


def factory_table(report: Report):
    """O5.2 (E): for every operator factory in the spec tables, declared operand / result TealTypes agree with the
    langspec signature of the op it is documented to emit."""
    import pyteal as pt
    from spec.progsem import UN, BIN, TERN, NARY
    from spec.langspec import OPS
    T = pt.TealType
    tt = {"u": T.uint64, "b": T.bytes, "a": T.anytype}

    class Leaf(pt.Expr):
        def __init__(self, t):
            super().__init__()
            self.t = t

        def type_of(self):
            return self.t

        def has_return(self):
            return False

        def __str__(self):
            return "leaf"

        def __teal__(self, options):
            raise NotImplementedError

    n = 0
    for table, arity in ((UN, 1), (BIN, 2), (TERN, 3)):
        for name, (ctor, mn, ats, rt, minv) in table.items():
            n += 1
            pops, pushes = OPS[mn][3], OPS[mn][4]
            problems = []
            if len(pops) != arity:
                problems.append(f"langspec arity {len(pops)} != {arity}")
            args = [Leaf(tt[a]) for a in ats]
            try:
                node = getattr(pt, ctor)(*args)
            except Exception as e:
                problems.append(f"constructor rejects documented operand types: {e!r}")
                node = None
            if node is not None:
                want = T.none if not pushes else tt[pushes[0]]
                got = node.type_of()
                if want != T.anytype and got != want and not (rt in "ub" and got == tt[rt]):
                    problems.append(f"type_of {got} but {mn} pushes {pushes!r}")
                ops = getattr(node, "op", None)
                if ops is not None and str(ops) != mn:
                    problems.append(f"emits {ops} but is documented as {mn}")
                # wrong operand types must be rejected when the op requires a definite type
                for k, a in enumerate(ats):
                    if pops[k] in "ub":
                        wrong = [Leaf(tt[x]) for x in ats]
                        wrong[k] = Leaf(T.bytes if pops[k] == "u" else T.uint64)
                        try:
                            getattr(pt, ctor)(*wrong)
                            problems.append(f"operand {k} of wrong type accepted")
                        except pt.TealTypeError:
                            pass
            report.ob(Ob(id=f"O5.2/{ctor}/{ats}", function=f"pyteal.{ctor}", kind="E", status="refuted" if problems else "discharged",
                         backend="enumeration(factory table)", detail=f"{ctor}: operands {ats} -> {mn} -> {pushes!r}", model=problems or None))
    return n


def _tealcheck(spec):
    from vf.core import use_repo
    use_repo()
    import pyteal as pt
    from spec import progsem, proggen, tealcheck
    out = {"problems": [], "n": 0, "key": None}
    prog = proggen.gen_prog(spec["seed"], version=spec["version"], mode=spec["mode"], size=3, features=spec.get("features"))
    mode = pt.Mode.Application if spec["mode"] == "Application" else pt.Mode.Signature
    for opt in spec["options"]:
        try:
            e = progsem.build(prog)
            kw = {"optimize": pt.OptimizeOptions(**opt)} if opt else {}
            teal = pt.compileTeal(e, mode, version=spec["version"], **kw)
        except Exception:
            continue
        out["n"] += 1
        pr = tealcheck.discipline(teal, spec["version"], spec["mode"])
        if pr:
            rec = {"options": opt, "problems": pr[:4], "teal": teal}
            # the known optimiser defect (values of the other stores stay on the stack) also shows up statically
            ss = opt.get("scratch_slots")
            if (ss is True or (ss is None and spec["version"] >= 9)) and all("heights" in p or "pops" in p or "retsub" in p for p in pr):
                try:
                    t0 = pt.compileTeal(progsem.build(prog), mode, version=spec["version"], optimize=pt.OptimizeOptions(scratch_slots=False, frame_pointers=opt.get("frame_pointers")))
                    if e2e.multistore_signature(t0) and not [p for p in tealcheck.validate(t0, spec["version"], spec["mode"]) if "heights" in p or "pops" in p or "retsub" in p]:
                        out.setdefault("known", []).append(rec)
                        continue
                except Exception:
                    pass
            out["problems"].append(rec)
    return out


def run(report: Report, tier, seed):
    report.trust("spec/langspec.py (op signatures)", "spec/tealcheck.py (abstract interpretation of stack heights / types over the emitted TEAL)",
                 "fragcheck (stack-delta and has_return clauses of the fragment contract)", "spec/avm.py + spec/progsem.py")
    report.assume("programs using ScratchSlot.store() without a value are excluded, as in the property's quantifier",
                  "per-construct stack delta is proved on opaque children (fragcheck); whole-program discipline is checked per generated program by abstract interpretation (bounded stand-in)")
    type_tables(report)
    factory_table(report)
    run_fragcheck(report, "O5.frag", tier=tier)
    n = 80 if tier == "quick" else 900
    specs = [{"seed": seed * 100003 + 64000 + i, "version": [2, 3, 4, 5, 6, 7, 8, 9, 10][i % 9],
              "mode": "Signature" if i % 5 == 4 else "Application",
              "options": [{}, {"scratch_slots": False}] + ([{"frame_pointers": False}] if [2, 3, 4, 5, 6, 7, 8, 9, 10][i % 9] >= 8 else [])}
             for i in range(n)]
    with ProcessPoolExecutor(max_workers=16) as ex:
        res = list(ex.map(_tealcheck, specs, chunksize=4))
    bad = [(s, r) for s, r in zip(specs, res) if r["problems"]]
    static_known = [(s, r) for s, r in zip(specs, res) if r.get("known")]
    report.bounded.append(Bounded(function="emitted TEAL of generated programs", contract="consistent stack height on every path, no pop below the routine's own values, consistent retsub delta, no definite type error (abstract interpretation)",
                                  bound=f"{n} generated programs (seed {seed}) x option settings", cases=sum(r["n"] for r in res),
                                  distinct_nontrivial=len(specs), failures=len(bad)))
    # run-time part: empty stack at exit, incl. optimiser on
    specs2 = [{"seed": seed * 100003 + 65000 + i, "version": [4, 6, 8, 9, 10][i % 5], "mode": "Application", "size": 3,
               "options": [{"scratch_slots": True}, {"scratch_slots": False}]} for i in range(40 if tier == "quick" else 500)]
    sw = e2e.sweep(specs2)
    known, fails = [], []
    for s, r in zip(specs2, sw):
        mm = [m for m in r["mismatches"] if m["kind"] in ("stack", "outcome", "asm")]
        if not mm:
            continue
        rec = {"input": {"spec": s}, "mismatches": mm[:3], "program": r.get("program"), "teal": r["teals"]}
        if all(e2e.optimizer_on(m["options"], s["version"]) for m in mm) and r.get("known_multistore"):
            known.append(rec)
        else:
            fails.append(rec)
    report.bounded.append(Bounded(function="compiled generated programs on the spec AVM", contract="stack holds nothing but the routine's results when control leaves (approve/reject with empty stack)",
                                  bound=f"{len(specs2)} generated programs x optimiser on/off x 2 contexts", cases=sum(r["ran"] for r in sw),
                                  distinct_nontrivial=len({r['key'] for r in sw if r['key']}), failures=len(known) + len(fails)))
    from . import abisub
    from .abi_e2e import pool_map
    ares = pool_map(abisub.case, abisub.jobs(tier, seed + 3))
    abad = [r for r in ares if r["problems"]]
    report.bounded.append(Bounded(function="emitted TEAL of ABIReturnSubroutine calls (frame cells, by-reference indices)", contract="frame_dig / frame_bury stay inside the routine's own cells, stack discipline (tealcheck) and run-time type discipline hold",
                                  bound=f"{len(ares)} generated signatures x versions 6..10 x frame-pointer settings", cases=sum(r["ran"] for r in ares), distinct_nontrivial=len(ares), failures=len(abad)))
    for b in abad[:1]:
        report.violation(Violation(key=f"abisub:{b['seed']}:{b['version']}:{b['opts']}", what=b["problems"][0][:400], replay={"input": {"abisub": [b["seed"], b["version"], b["opts"]]}, "teal": b.get("teal")}, confirmed_native=True))
    from . import typesinks
    tj = typesinks.jobs(tier)
    with ProcessPoolExecutor(max_workers=16) as ex:
        tr = list(ex.map(typesinks.case, tj, chunksize=8))
    tbad = [r for r in tr if r["problem"]]
    report.bounded.append(Bounded(function="typed storage cells fed a value of the other stack type (ScratchVar.store, abi set, in main routine and in subroutines / frame cells)",
                                  contract="rejected with a PyTeal error, or the emitted TEAL applies no opcode to a value of a definitely wrong type",
                                  bound=f"{len(typesinks.SINKS)} sinks x 2 wrong values x main/subroutine x versions 6, 8, 10 x frame pointers default/off", cases=len(tr),
                                  distinct_nontrivial=sum(1 for r in tr if not r["accepted"]), failures=len(tbad)))
    for b in tbad[:2]:
        report.violation(Violation(key=f"typesink:{b['job'][0]}:{b['job'][5]}:{b['job'][6:]}", what=f"type sink {b['job'][0]} <- {b['job'][5]} (in_sub={b['job'][6]}, v{b['job'][7]}, fp={b['job'][8]}): {b['problem']}"[:400],
                                   replay={"input": {"typesink": b["job"]}, "teal": b.get("teal")}, confirmed_native=True))
    from . import recur_scenarios
    rr = pool_map(recur_scenarios.case, recur_scenarios.jobs(tier))
    rbad = [r for r in rr if r["problems"]]
    report.bounded.append(Bounded(function="emitted TEAL of mutually / self recursive routines (spill sequences around callsub, frame cells) for every pair of routine kinds",
                                  contract="stack and type discipline (spec/tealcheck, all clauses) and the value of the recurrence, under every (version, scratch_slots, frame_pointers) setting",
                                  bound=f"{len(rr)} (caller kind, callee kind, kind of local, self/mutual) scenarios x versions 6..10 x 9 option settings", cases=sum(r["ran"] for r in rr),
                                  distinct_nontrivial=len(rr), failures=len(rbad)))
    for b in rbad[:2]:
        p0 = b["problems"][0]
        report.violation(Violation(key=f"recursion:{b['job']}:{p0.get('setting')}", what=f"recursion scenario {b['job']} at v{p0.get('version')} under (scratch_slots, frame_pointers)={p0.get('setting')}: {p0['what']}"[:400],
                                   replay={"input": {"recursion": b["job"]}, "problems": [{k: v for k, v in p.items() if k != "teal"} for p in b["problems"][:3]]}, confirmed_native=True))
    bj = typesinks.body_jobs()
    with ProcessPoolExecutor(max_workers=16) as ex:
        br = list(ex.map(typesinks.body_case, bj, chunksize=4))
    bbad = [r for r in br if r["problem"]]
    report.bounded.append(Bounded(function="routine bodies whose type disagrees with the declaration (Subroutine of each return type, ABIReturnSubroutine with / without output)",
                                  contract="rejected with a PyTeal error, or the emitted TEAL keeps stack and type discipline (spec/tealcheck, all clauses)",
                                  bound=f"{len(typesinks.ROUTINES)} routine kinds x 2 wrong body types x versions 6, 8, 10 x frame pointers default/off", cases=len(br),
                                  distinct_nontrivial=sum(1 for r in br if not r["accepted"]), failures=len(bbad)))
    for b in bbad[:2]:
        report.violation(Violation(key=f"bodysink:{b['job'][0]}:{b['job'][1]}", what=b["problem"][:400], replay={"input": {"bodysink": b["job"]}, "teal": b.get("teal")}, confirmed_native=True))
    cn = typesinks.ctor_names()
    with ProcessPoolExecutor(max_workers=16) as ex:
        cr = list(ex.map(typesinks.ctor_case, cn, chunksize=8))
    cbad = [r for r in cr if r["problems"]]
    nacc = sum(len(r["accepted"]) for r in cr)
    report.ob(Ob(id="O5.6/constructors-x-type-vectors", function="every public expression constructor of pyteal (pt.__all__, App/Box/*Param/*Holding builders, control-flow builders)", kind="E",
                 status="refuted" if cbad else ("discharged" if nacc >= 100 else "undecided"), backend=f"enumeration({len(cn)} constructors x {{uint64, bytes}}^k, k <= 3, exhaustive)",
                 detail=f"{sum(r['tried'] for r in cr)} argument vectors tried, {nacc} accepted and compiled; each accepted program keeps stack and type discipline (every clause of spec/tealcheck.discipline, op signatures from spec/langspec)",
                 model=[{"constructor": r["name"], **{k: v for k, v in r["problems"][0].items() if k != "teal"}} for r in cbad[:3]] or None))
    for b in cbad[:2]:
        p0 = b["problems"][0]
        report.violation(Violation(key=f"ctor:{b['name']}:{p0['vector']}", what=f"{b['name']} accepts argument types {p0['vector']} ({p0['mode']}, v{p0['version']}) and the emitted TEAL has: {p0['what']}"[:400],
                                   replay={"input": {"ctor": b["name"]}, "teal": p0["teal"]}, confirmed_native=True))
    # the recorded optimiser finding O3.4, shown on a fixed program and attributed exactly (disappears when the multiply-stored slot is withheld)
    from . import opt_native
    w34 = opt_native.o34_witness("stack")
    report.bounded.append(Bounded(function="slot optimiser on a slot that is stored twice and loaded once right after a store", contract="nothing but the results is on the stack when control leaves",
                                  bound="one fixed program (the example of known_findings O3.4)", cases=1, distinct_nontrivial=1, failures=1 if w34 else 0))
    if w34:
        report.violation(Violation(key="O3.4:store-elsewhere+adjacent-store-load", what=w34["what"][:400], replay=w34, confirmed_native=True))
    report.extra["explanation"] = "E: type lattice and operator signature tables; P: fragment stack-delta clauses (fragcheck); B: abstract interpretation of generated programs"
    report.settle_refuted(lambda fn, obs: fails[0] if fails else None)
    if known:
        report.violation(Violation(key=KNOWN_KEY, what="optimised program leaves extra values on the stack: " + known[0]["mismatches"][0]["what"][:200],
                                   replay=known[0], confirmed_native=True))
    elif static_known:
        s0, r0 = static_known[0]
        report.violation(Violation(key=KNOWN_KEY, what="optimised program leaves extra values on the stack (seen statically): " + str(r0["known"][0]["problems"][:1])[:200],
                                   replay={"input": {"spec": s0}, "problems": r0["known"][:1]}, confirmed_native=True))
    for s, r in bad[:2]:
        report.violation(Violation(key=f"tealcheck:{s['seed']}:{s['version']}", what=f"stack/type discipline broken: {r['problems'][0]['problems'][:2]}",
                                   replay={"input": {"spec": s}, "problems": r["problems"][:2]}, confirmed_native=True))
    if fails:
        f = fails[0]
        report.violation(Violation(key=f"bounded:{f['input']['spec']['seed']}:{f['input']['spec']['version']}",
                                   what=f"stack discipline at exit: {f['mismatches'][0]}"[:300], replay=f, confirmed_native=True))


def replay(data):
    r = data.get("replay") or {}
    nat = r.get("native") or r
    if (nat.get("input") or {}).get("o34"):
        from . import opt_native
        w = opt_native.o34_witness(nat["input"]["o34"])
        print(w["what"] if w else "not reproduced")
        return 1 if w else 0
    if (nat.get("input") or {}).get("typesink"):
        from . import typesinks
        out = typesinks.case(tuple(nat["input"]["typesink"]))
        print(out["problem"])
        return 1 if out["problem"] else 0
    if (nat.get("input") or {}).get("recursion"):
        from . import recur_scenarios
        out = recur_scenarios.case(tuple(nat["input"]["recursion"]))
        print([{k: v for k, v in p.items() if k != "teal"} for p in out["problems"][:2]])
        return 1 if out["problems"] else 0
    if (nat.get("input") or {}).get("bodysink"):
        from . import typesinks
        out = typesinks.body_case(tuple(nat["input"]["bodysink"]))
        print(out["problem"])
        return 1 if out["problem"] else 0
    if (nat.get("input") or {}).get("ctor"):
        from . import typesinks
        out = typesinks.ctor_case(nat["input"]["ctor"])
        print([{k: v for k, v in p.items() if k != "teal"} for p in out["problems"]])
        return 1 if out["problems"] else 0
    spec = (nat.get("input") or {}).get("spec")
    if not spec and not (nat.get("input") or {}).get("abisub"):
        print("no concrete input; refuted:", [x["id"] for x in r.get("refuted", [])])
        return 1
    if (nat.get("input") or {}).get("abisub"):
        from . import abisub
        out = abisub.case(tuple(nat["input"]["abisub"]))
        print(out["problems"])
        return 1 if out["problems"] else 0
    if "problems" in nat:
        out = _tealcheck(spec)
        print(out["problems"])
        return 1 if out["problems"] else 0
    out = e2e.one_case(spec)
    for m in out["mismatches"]:
        print("MISMATCH", m)
    return 1 if out["mismatches"] else 0
