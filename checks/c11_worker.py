"""Worker process of the C11 check: compiles programs under a given history / hash seed and prints digests as JSON."""
import hashlib
import json
import os
import sys

sys.path.insert(0, os.path.dirname(os.path.dirname(os.path.abspath(__file__))))


def noise(pt, kind, k):
    """Unrelated API activity sharing no object with the programs under test."""
    from pyteal import abi
    try:
        if kind == "ok":
            x = pt.ScratchVar()
            pt.compileTeal(pt.Seq(x.store(pt.Int(k)), pt.Return(x.load())), pt.Mode.Application, version=2 + k % 9)
        elif kind == "fail-type":
            pt.compileTeal(pt.Seq(pt.Log(pt.Bytes("x")), pt.Int(1)), pt.Mode.Signature, version=6)
        elif kind == "fail-sub":
            @pt.Subroutine(pt.TealType.uint64)
            def boom(a):
                y = abi.Uint64()
                return pt.Seq(y.set(a), pt.Return())          # wrong: returns nothing -> TealCompileError at v8 (inside frame-pointer context)
            pt.compileTeal(pt.Return(boom(pt.Int(1))), pt.Mode.Application, version=8)
        elif kind == "fail-body":
            @pt.Subroutine(pt.TealType.none)
            def boom2():
                raise ValueError("user code fails while the subroutine body is evaluated")
            pt.compileTeal(pt.Seq(boom2(), pt.Int(1)), pt.Mode.Application, version=8 + k % 3)
        elif kind == "router":
            r = pt.Router("noise", pt.BareCallActions(no_op=pt.OnCompleteAction.always(pt.Approve())))

            @r.method
            def add(a: abi.Uint64, b: abi.Uint64, *, output: abi.Uint64):
                return output.set(a.get() + b.get())
            r.compile_program(version=6 + k % 5)
        elif kind == "tmpl":
            pt.compileTeal(pt.Return(pt.Tmpl.Int("TMPL_X") + pt.Btoi(pt.Tmpl.Bytes("TMPL_B"))), pt.Mode.Application, version=6)
    except Exception:
        pass


def abi_program(pt, k):
    from pyteal import abi

    @pt.ABIReturnSubroutine
    def conc(a: abi.String, b: abi.String, *, output: abi.String):
        return output.set(pt.Concat(a.get(), b.get()))
    s1, s2, o = abi.String(), abi.String(), abi.String()
    return pt.Seq(s1.set("a"), s2.set("b" * (k + 1)), conc(s1, s2).store_into(o), pt.Log(o.get()), pt.Approve())


def collide_program(pt, k):
    """a recursive subroutine whose local slots are numbered 0 and 8 (they collide in a small int-set hash table)"""
    @pt.Subroutine(pt.TealType.uint64)
    def rec(n):
        a = pt.ScratchVar(pt.TealType.uint64, 0)
        b = pt.ScratchVar(pt.TealType.uint64, 8)
        c = pt.ScratchVar(pt.TealType.uint64, 16 + 8 * (k % 3))
        return pt.Seq(a.store(n + pt.Int(1)), b.store(n + pt.Int(2)), c.store(n + pt.Int(3)),
                      pt.If(n == pt.Int(0)).Then(pt.Return(pt.Int(1))),
                      pt.Return(a.load() + b.load() + c.load() + rec(n - pt.Int(1))))
    return pt.Seq(pt.Log(pt.Itob(rec(pt.Int(3)))), pt.Approve())


def router_program(pt, k):
    from pyteal import abi
    r = pt.Router("r", pt.BareCallActions(no_op=pt.OnCompleteAction.create_only(pt.Approve())))

    @r.method
    def add(a: abi.Uint64, b: abi.Uint64, *, output: abi.Uint64):
        t = pt.ScratchVar()
        return pt.Seq(t.store(a.get() + b.get()), output.set(t.load()))

    @r.method
    def cat(a: abi.String, b: abi.String, *, output: abi.String):
        return output.set(pt.Concat(a.get(), b.get()))
    return r


def siblings_program(pt, k):
    """two sibling subroutines, each owning scratch slots: which one is declared first decides the slot numbers"""
    @pt.Subroutine(pt.TealType.uint64)
    def left(a):
        x, y = pt.ScratchVar(pt.TealType.uint64), pt.ScratchVar(pt.TealType.uint64)
        return pt.Seq(x.store(a + pt.Int(1)), y.store(x.load() * pt.Int(2)), pt.Return(x.load() + y.load()))

    @pt.Subroutine(pt.TealType.uint64)
    def right(a):
        z = pt.ScratchVar(pt.TealType.uint64)
        return pt.Seq(z.store(a + pt.Int(k + 3)), pt.Return(z.load() * z.load()))

    @pt.Subroutine(pt.TealType.uint64)
    def third(a):
        w = pt.ScratchVar(pt.TealType.uint64)
        return pt.Seq(w.store(a), pt.Return(w.load() + left(a)))
    return pt.Return(left(pt.Int(1)) + right(pt.Int(2)) + third(pt.Int(3)))


def query_program(pt, k):
    """subroutines owning scratch slots, and the wrapper objects a caller can ask about (type_of / has_return)"""
    @pt.Subroutine(pt.TealType.none)
    def bump():
        tmp = pt.ScratchVar(pt.TealType.uint64)
        return pt.Seq(tmp.store(pt.App.globalGet(pt.Bytes("counter"))), pt.App.globalPut(pt.Bytes("counter"), tmp.load() + pt.Int(k + 1)))

    @pt.Subroutine(pt.TealType.uint64)
    def square_plus(x, y):
        acc = pt.ScratchVar(pt.TealType.uint64)
        return pt.Seq(acc.store(x * x), acc.load() + y)

    @pt.Subroutine(pt.TealType.uint64)
    def third(a):
        w = pt.ScratchVar(pt.TealType.uint64)
        return pt.Seq(w.store(a), pt.Return(w.load() + square_plus(a, a)))
    return pt.Seq(bump(), pt.Pop(square_plus(pt.Int(3), pt.Int(4))), pt.Pop(third(pt.Int(5))), pt.Approve()), [bump, square_plus, third]


def router_fail_program(pt, k):
    """a router whose clear-state program needs version 7 (sha3_256): compile_program(version=6) evaluates the whole approval
    program and then fails.  Void methods first, one value-returning method last (keeps clear of the known repeat:router finding)."""
    from pyteal import abi
    r = pt.Router("h", pt.BareCallActions(no_op=pt.OnCompleteAction.create_only(pt.Approve())),
                  clear_state=pt.Seq(pt.Pop(pt.Sha3_256(pt.Txn.sender())), pt.Approve()))

    @r.method
    def put(key: abi.DynamicBytes, n: abi.Uint64):
        acc = pt.ScratchVar(pt.TealType.bytes)
        i = pt.ScratchVar(pt.TealType.uint64)
        return pt.Seq(acc.store(key.get()),
                      pt.For(i.store(pt.Int(0)), i.load() < n.get(), i.store(i.load() + pt.Int(1))).Do(acc.store(pt.Sha256(acc.load()))),
                      pt.App.globalPut(key.get(), acc.load()))

    @r.method
    def drop(key: abi.DynamicBytes):
        return pt.App.globalDel(key.get())

    @r.method
    def add(a: abi.Uint64, b: abi.Uint64, *, output: abi.Uint64):
        return output.set(a.get() + b.get() + pt.Int(k))
    return r


def main():
    job = json.loads(sys.argv[1])
    os.environ.setdefault("VERIF_REPO", job.get("repo", "/repo"))
    from vf.core import use_repo
    use_repo()
    import pyteal as pt
    from spec import progsem, proggen
    out = {}
    hist = job["history"]
    step = 0
    for item in job["items"]:
        for h in hist:
            noise(pt, h, step)
            step += 1
        kind = item[0]
        try:
            if kind == "gen":
                _, seed, version = item
                prog = proggen.gen_prog(seed, version=version)
                e = progsem.build(prog)
                t = pt.compileTeal(e, pt.Mode.Application, version=version)
                d = [hashlib.sha1(t.encode()).hexdigest()]
                if job.get("repeat_same_object"):
                    t2 = pt.compileTeal(e, pt.Mode.Application, version=version)
                    d.append(hashlib.sha1(t2.encode()).hexdigest())
                if job.get("rebuild"):
                    t3 = pt.compileTeal(progsem.build(prog), pt.Mode.Application, version=version)
                    d.append(hashlib.sha1(t3.encode()).hexdigest())
            elif kind == "abi":
                _, k, version = item
                t = pt.compileTeal(abi_program(pt, k), pt.Mode.Application, version=version)
                d = [hashlib.sha1(t.encode()).hexdigest()]
            elif kind == "collide":
                _, k, version = item
                t = pt.compileTeal(collide_program(pt, k), pt.Mode.Application, version=version)
                d = [hashlib.sha1(t.encode()).hexdigest()]
                for rep in range(3):
                    noise(pt, "ok", step + rep)
                    t2 = pt.compileTeal(collide_program(pt, k), pt.Mode.Application, version=version)
                    d.append(hashlib.sha1(t2.encode()).hexdigest())
            elif kind == "router":
                _, k, version = item
                r = router_program(pt, k)
                a1, c1, _ = r.compile_program(version=version)
                d = [hashlib.sha1((a1 + "||" + c1).encode()).hexdigest()]
                if job.get("repeat_same_object"):
                    a2, c2, _ = r.compile_program(version=version)
                    d.append(hashlib.sha1((a2 + "||" + c2).encode()).hexdigest())
            elif kind == "siblings":
                # the same source built from scratch many times in one process: the process-wide subroutine counter crosses 9/10 and 99/100
                _, k, version = item
                d = []
                for rep in range(45):
                    t = pt.compileTeal(siblings_program(pt, k), pt.Mode.Application, version=version, optimize=pt.OptimizeOptions(scratch_slots=False, frame_pointers=False) if version >= 8 else None)
                    d.append(hashlib.sha1(t.encode()).hexdigest())
            elif kind == "query":
                # the same expression object compiled, then asked about itself (type_of / has_return of its subroutines and calls - what
                # any caller may do between two compilations), then compiled again
                _, k, version = item
                prog, wrappers = query_program(pt, k)
                kw = {"optimize": pt.OptimizeOptions(scratch_slots=False, frame_pointers=False)} if (version >= 8 and k % 2) else {}
                t = pt.compileTeal(prog, pt.Mode.Application, version=version, **kw)
                d = [hashlib.sha1(t.encode()).hexdigest()]
                # one query at a time (asking every routine at once could shift all of them alike), a compilation after each
                for w in wrappers[k % len(wrappers):] + wrappers[:k % len(wrappers)]:
                    w.type_of()
                    t2 = pt.compileTeal(prog, pt.Mode.Application, version=version, **kw)
                    d.append(hashlib.sha1(t2.encode()).hexdigest())
                    w.has_return()
                prog.type_of()
                t3 = pt.compileTeal(prog, pt.Mode.Application, version=version, **kw)
                d.append(hashlib.sha1(t3.encode()).hexdigest())
            elif kind == "sharedopts":
                # one OptimizeOptions object serves two unrelated programs (and a router's approval + clear-state programs):
                # the options VALUE is the same, so the second program must compile as it does with a fresh options object
                _, k, version = item
                def prog_a():
                    r7 = pt.ScratchVar(pt.TealType.uint64, 7 + k)
                    return pt.Seq(r7.store(pt.Int(5)), pt.Return(r7.load()))
                def prog_b():
                    x = pt.ScratchVar(pt.TealType.uint64)
                    g = pt.ScratchVar(pt.TealType.uint64)

                    @pt.Subroutine(pt.TealType.uint64)
                    def peek():
                        return g.load() + pt.Int(1)
                    return pt.Seq(g.store(pt.Int(41)), x.store(pt.Int(2) + pt.Txn.fee()), pt.Pop(x.load()), pt.Return(peek()))
                fresh = pt.compileTeal(prog_b(), pt.Mode.Application, version=version, optimize=pt.OptimizeOptions(scratch_slots=True))
                shared = pt.OptimizeOptions(scratch_slots=True)
                pt.compileTeal(prog_a(), pt.Mode.Application, version=version, optimize=shared)
                after = pt.compileTeal(prog_b(), pt.Mode.Application, version=version, optimize=shared)
                d = [hashlib.sha1(fresh.encode()).hexdigest(), hashlib.sha1(after.encode()).hexdigest()]
                # the other way round: the program with the reserved slot after the one with the shared slot
                fresh_a = pt.compileTeal(prog_a(), pt.Mode.Application, version=version, optimize=pt.OptimizeOptions(scratch_slots=True))
                shared2 = pt.OptimizeOptions(scratch_slots=True)
                pt.compileTeal(prog_b(), pt.Mode.Application, version=version, optimize=shared2)
                after_a = pt.compileTeal(prog_a(), pt.Mode.Application, version=version, optimize=shared2)
                d.append(d[0] if fresh_a == after_a else "DIFF:reserved-slot-program-after-the-other")
            elif kind == "routerfail":
                _, k, version = item
                r = router_fail_program(pt, k)
                if job.get("fail_first"):
                    try:
                        r.compile_program(version=6)
                        d = ["ERR:the version-6 compilation did not fail"]
                        out[json.dumps(item)] = d
                        continue
                    except (pt.TealInputError, pt.TealInternalError, pt.TealCompileError, pt.TealTypeError):
                        pass
                a1, c1, _ = r.compile_program(version=version)
                d = [hashlib.sha1((a1 + "||" + c1).encode()).hexdigest()]
            out[json.dumps(item)] = d
        except Exception as ex:
            out[json.dumps(item)] = ["ERR:" + type(ex).__name__]
    print("RESULT " + json.dumps(out))


if __name__ == "__main__":
    main()
