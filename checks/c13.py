"""C13 Literals reach the program byte-for-byte."""

import base64
import hashlib
import itertools
import random
from concurrent.futures import ProcessPoolExecutor

from vf.core import Report, Bounded, Violation, Ob
from vf.runner import run_contracts

LEVEL = "other"


def _escape_chunk(rng):
    """E: every code point in [lo, hi): the TEAL string-literal grammar (spec.avm) applied to escapeStr(c) yields utf8(c)
    and the literal contains no raw quote / newline / control byte."""
    lo, hi = rng
    from vf.core import use_repo
    use_repo()
    from pyteal.util import escapeStr
    from spec import avm
    bad = []
    for cp in range(lo, hi):
        if 0xD800 <= cp <= 0xDFFF:
            continue  # lone surrogates are not encodable as UTF-8 (not valid str content for this purpose)
        c = chr(cp)
        try:
            lit = escapeStr(c)
            body = lit[1:-1]
            ok = (lit[0] == '"' and lit[-1] == '"' and avm._unescape(body) == c.encode("utf-8")
                  and all(32 <= ord(x) < 127 for x in body)
                  and avm.tokenize_line("byte " + lit + " // c") == [["byte", lit]])
        except Exception as e:
            ok = False
        if not ok:
            bad.append(cp)
            if len(bad) > 5:
                break
    return bad


def _strings_case(job):
    seed, n = job
    from vf.core import use_repo
    use_repo()
    import pyteal as pt
    from spec import avm
    r = random.Random(seed)
    alphabet = ['"', "\\", "\n", "\r", "\t", "/", "/", ";", " ", "x", "n", "0", "a", "\x00", "\x7f", "\x80", "é", "€", "😀", " ", "'", "\\x41", "//", "\\n"]
    bad = []
    for _ in range(n):
        s = "".join(r.choice(alphabet) for _ in range(r.randrange(0, 7)))
        for v, mode in ((2, pt.Mode.Signature), (10, pt.Mode.Application)):
            prog = pt.Seq(pt.Pop(pt.Bytes("marker")), pt.Return(pt.Bytes(s) == pt.Bytes(s.encode("utf-8"))))
            teal = pt.compileTeal(prog, mode, version=v)
            # the literal must not break the line / statement structure: exactly the expected number of instructions
            try:
                res = avm.run(teal, avm.Ctx(mode="Signature" if mode == pt.Mode.Signature else "Application"))
                p = avm.parse(teal)
            except ValueError as ex:       # the emitted literal does not even lex as TEAL
                bad.append((s, v, "emitted TEAL does not lex", str(ex)[:120], -1))
                break
            if res.verdict != "approve" or len(p.ops) != 6:
                bad.append((s, v, res.verdict, res.detail, len(p.ops)))
                break
    return bad


def _rand_bytes_literals(job):
    seed, n = job
    from vf.core import use_repo
    use_repo()
    import pyteal as pt
    from spec import avm
    r = random.Random(seed)
    bad = []
    for _ in range(n):
        raw = bytes(r.randrange(256) for _ in range(r.choice([0, 1, 2, 3, 4, 5, 8, 31, 32, 33])))
        forms = [("bytes", lambda: pt.Bytes(raw)), ("bytearray", lambda: pt.Bytes(bytearray(raw))),
                 ("base16", lambda: pt.Bytes("base16", raw.hex())), ("base16-0x", lambda: pt.Bytes("base16", "0x" + raw.hex().upper())),
                 ("base64", lambda: pt.Bytes("base64", base64.b64encode(raw).decode())),
                 ("base32", lambda: pt.Bytes("base32", base64.b32encode(raw).decode())),
                 ("base32-nopad", lambda: pt.Bytes("base32", base64.b32encode(raw).decode().rstrip("=")))]
        for name, mk in forms:
            try:
                e = mk()
                teal = pt.compileTeal(pt.Seq(pt.Log(e), pt.Approve()), pt.Mode.Application, version=6)
                res = avm.run(teal, avm.Ctx())
                if res.verdict != "approve" or res.logs != [raw]:
                    bad.append((name, raw.hex(), res.verdict, [l.hex() for l in res.logs], res.detail))
            except Exception as ex:
                bad.append((name, raw.hex(), f"{type(ex).__name__}: {ex}"))
    # malformed literals must be rejected when constructed
    malformed = [("base16", "abc"), ("base16", "zz"), ("base16", "0x0x00"), ("base64", "abc"), ("base64", "ab=c"), ("base64", "a b="),
                 ("base64", "YQ=\n"), ("base32", "a"), ("base32", "ABC"), ("base32", "ME======="), ("base32", "ME=="), ("base32", "M1======"),
                 ("base64", "YQ==YQ=="), ("base16", "0xg0"), ("base8", "00"), ("base32", "MFRGG==="), ]
    import base64 as b64
    for base, s in malformed:
        try:
            pt.Bytes(base, s)
            accepted = True
        except pt.TealInputError:
            accepted = False
        except Exception as ex:
            bad.append(("malformed", base, s, f"raised {type(ex).__name__}"))
            continue
        if accepted:
            # accepted is fine only if the TEAL grammar (spec) decodes it; otherwise the program would not assemble
            try:
                teal = pt.compileTeal(pt.Seq(pt.Log(pt.Bytes(base, s)), pt.Approve()), pt.Mode.Application, version=6)
                res = avm.run(teal, avm.Ctx())
                if res.verdict == "asmerror":
                    bad.append(("malformed-accepted", base, s, res.detail))
            except Exception as ex:
                bad.append(("malformed-accepted", base, s, str(ex)))
    return bad


def _validator_chunk(job):
    """E (bounded alphabet): every string over the alphabet up to the length bound - accepted by Bytes(base, s) only if it
    is made of alphabet / padding characters only and a strict decoder accepts it."""
    base, alphabet, maxlen, lo, hi = job
    from vf.core import use_repo
    use_repo()
    import pyteal as pt
    import binascii
    bad = []
    n = 0
    allowed = {"base16": set("0123456789abcdefABCDEF"), "base32": set("ABCDEFGHIJKLMNOPQRSTUVWXYZ234567="),
               "base64": set("ABCDEFGHIJKLMNOPQRSTUVWXYZabcdefghijklmnopqrstuvwxyz0123456789+/=")}[base]
    idx = 0
    for L in range(0, maxlen + 1):
        for tup in itertools.product(alphabet, repeat=L):
            idx += 1
            if not (lo <= idx < hi):
                continue
            s = "".join(tup)
            n += 1
            try:
                pt.Bytes(base, s)
                acc = True
            except pt.TealInputError:
                acc = False
            except Exception as e:
                bad.append((base, s, f"raised {type(e).__name__}"))
                continue
            if not acc:
                continue
            body = s[2:] if (base == "base16" and s.startswith("0x")) else s
            ok = all(c in allowed for c in body)
            if ok:
                try:
                    if base == "base16":
                        bytes.fromhex(body) if len(body) % 2 == 0 else (_ for _ in ()).throw(ValueError("odd"))
                    elif base == "base64":
                        base64.b64decode(body, validate=True)
                    else:
                        t = body.rstrip("=")
                        if "=" in t:
                            raise ValueError("padding inside")
                        base64.b32decode(t + "=" * (-len(t) % 8))
                except (ValueError, binascii.Error):
                    ok = False
            if not ok:
                bad.append((base, s, "accepted although it is not a well-formed literal"))
                if len(bad) > 3:
                    return n, bad
    return n, bad


def run(report: Report, tier, seed):
    from vf.core import use_repo
    use_repo()
    import pyteal as pt
    from spec import avm
    report.trust("TEAL literal grammar in spec/avm.py (string escapes \\n \\r \\t \\\\ \\\" \\xHH; // comments and ; separators outside quotes; 0x, base32, base64 forms)",
                 "python base64 / hashlib as reference decoders; algosdk.encoding for addresses")
    report.assume("escapeStr is checked exhaustively on single code points and on bounded concatenations over an adversarial alphabet; the homomorphism "
                  "(escape of a concatenation = concatenation of escapes) rests on the character-wise behaviour of the Python codecs used (assumed, validated by the bounded part)")
    # ---- E: all code points ----------------------------------------------------------------------------------
    step = 0x11000
    chunks = [(lo, min(lo + step, 0x110000)) for lo in range(0, 0x110000 if tier != "quick" else 0x30000, step)]
    with ProcessPoolExecutor(max_workers=16) as ex:
        res = list(ex.map(_escape_chunk, chunks))
    badcp = [cp for r in res for cp in r]
    report.ob(Ob(id="O13.1/escapeStr/every-code-point", function="pyteal.util.escapeStr", kind="E", status="refuted" if badcp else "discharged",
                 backend=f"enumeration(code points 0..{hex(chunks[-1][1])}, exhaustive)",
                 detail="for each code point c: the TEAL string-literal parser applied to escapeStr(c) yields utf8(c); the literal is printable ASCII and is one token of its line",
                 model=[hex(c) for c in badcp[:5]] or None))
    # ---- E (bounded alphabet): the three validators --------------------------------------------------------------
    vjobs = []
    L = 5 if tier == "quick" else 6
    for base, alpha in (("base64", ["A", "Q", "=", "\n", " ", "+", "/", "\r"]), ("base32", ["A", "M", "7", "=", "\n", " ", "1", "a"]),
                        ("base16", ["0", "a", "F", "x", "\n", " ", "g"])):
        total = sum(len(alpha) ** k for k in range(L + 1))
        step = total // 5 + 1
        for lo in range(1, total + 1, step):
            vjobs.append((base, alpha, L, lo, lo + step))
    with ProcessPoolExecutor(max_workers=16) as ex:
        vres = list(ex.map(_validator_chunk, vjobs))
    vbad = [b for _, bl in vres for b in bl]
    report.ob(Ob(id="O13.3/validators/bounded-alphabet", function="pyteal.types.valid_base16 / valid_base32 / valid_base64 (through Bytes)", kind="E",
                 status="refuted" if vbad else "discharged", backend=f"enumeration(all strings of length <= {L} over 7-8 character alphabets incl. newline, space, CR; {sum(n for n, _ in vres)} strings)",
                 detail="a literal is accepted only if it consists of alphabet / padding characters and a strict decoder accepts it", model=[list(b) for b in vbad[:4]] or None))
    # ---- P: Int.__init__ ------------------------------------------------------------------------------------------
    run_contracts(report, [("contracts.c13_int", "IntInit", "O13.4")])
    # ---- B: concatenations / other literal forms --------------------------------------------------------------------
    jobs = [(seed * 31 + i, 40 if tier == "quick" else 300) for i in range(16)]
    with ProcessPoolExecutor(max_workers=16) as ex:
        sres = list(ex.map(_strings_case, jobs))
        bres = list(ex.map(_rand_bytes_literals, [(seed * 17 + i, 6 if tier == "quick" else 40) for i in range(16)]))
    sbad = [b for r in sres for b in r]
    bbad = [b for r in bres for b in r]
    report.bounded.append(Bounded(function="Bytes(str) through compileTeal on the spec AVM", contract="pushes exactly utf8(s); the literal stays one token",
                                  bound=f"{sum(j[1] for j in jobs)} strings of length <= 6 over an adversarial alphabet (quotes, backslashes, newlines, //, ;, controls, non-ASCII, escape look-alikes), versions 2 and 10",
                                  cases=sum(j[1] for j in jobs) * 2, distinct_nontrivial=sum(j[1] for j in jobs), failures=len(sbad)))
    report.bounded.append(Bounded(function="Bytes(bytes / base16 / base32 / base64)", contract="pushes exactly the decoded bytes; malformed literals rejected at construction (or at least assemble)",
                                  bound="random byte strings of lengths 0..33 x 7 literal forms + 16 malformed literals", cases=16 * (6 if tier == "quick" else 40) * 7,
                                  distinct_nontrivial=16 * (6 if tier == "quick" else 40), failures=len(bbad)))
    # Int / Addr / MethodSignature probes
    probs = []
    for n in (0, 1, 2 ** 64 - 1):
        res = avm.run(pt.compileTeal(pt.Seq(pt.Log(pt.Itob(pt.Int(n))), pt.Approve()), pt.Mode.Application, version=6))
        if res.logs != [n.to_bytes(8, "big")]:
            probs.append(("Int", n, res.verdict))
    for n in (-1, 2 ** 64, 1.0, True, "1"):
        try:
            pt.Int(n)
            probs.append(("Int accepted", repr(n)))
        except pt.TealInputError:
            pass
        except Exception as e:
            probs.append(("Int raised", repr(n), type(e).__name__))
    from algosdk import encoding
    pk = bytes(range(32))
    addr = encoding.encode_address(pk)
    res = avm.run(pt.compileTeal(pt.Seq(pt.Log(pt.Addr(addr)), pt.Approve()), pt.Mode.Application, version=6))
    if res.logs != [pk]:
        probs.append(("Addr", addr, res.verdict, res.detail))
    for a in (addr[:-1], addr[:-1] + "A" if addr[-1] != "A" else addr[:-1] + "B", addr.lower(), addr + "A", ""):
        try:
            e = pt.Addr(a)
            r2 = avm.run(pt.compileTeal(pt.Seq(pt.Log(e), pt.Approve()), pt.Mode.Application, version=6))
            if r2.verdict == "approve":
                probs.append(("Addr malformed accepted and assembles", a))
        except pt.TealInputError:
            pass
    sigs = ["add(uint64,uint64)uint64", "f()void", "g((uint8,string)[],address)string", "caf\u00e9(uint64)void", "\u65b9\u6cd5(string)uint64", "pay\U0001f600()void", "it's(byte)bool",
            "a b(uint64)void"]
    for sg in sigs:
        res = avm.run(pt.compileTeal(pt.Seq(pt.Log(pt.MethodSignature(sg)), pt.Approve()), pt.Mode.Application, version=6))
        if res.logs != [hashlib.new("sha512_256", sg.encode()).digest()[:4]]:
            probs.append(("MethodSignature", sg, res.verdict, res.detail))
    known = []
    for sg in ['a"b', "a\nb", "f() // x"]:
        try:
            e = pt.MethodSignature(sg)
            res = avm.run(pt.compileTeal(pt.Seq(pt.Log(e), pt.Approve()), pt.Mode.Application, version=6))
            if res.logs != [hashlib.new("sha512_256", sg.encode()).digest()[:4]]:
                known.append((sg, res.verdict, res.detail))
        except pt.TealInputError:
            pass
    report.bounded.append(Bounded(function="Int / Addr / MethodSignature", contract="Int(n) pushes n or is rejected; Addr pushes the public key; MethodSignature pushes the selector of the signature text",
                                  bound="boundary integers, one valid + 5 malformed addresses, 3 + 3 signature texts", cases=20, distinct_nontrivial=20, failures=len(probs) + len(known)))
    report.extra["explanation"] = "E: escapeStr on every code point; P: Int.__init__ (pyvc); B: concatenations and other literal syntaxes on the spec AVM"
    report.settle_refuted(None)
    for b in sbad[:2]:
        report.violation(Violation(key=f"str:{b[0]!r}", what=f"Bytes({b[0]!r}) does not push its UTF-8 bytes: {b[1:]}", replay={"s": b[0]}, confirmed_native=True))
    for b in bbad[:2]:
        report.violation(Violation(key=f"bytes:{b[0]}:{b[1]}", what=f"byte literal form {b}"[:300], replay={"b": list(map(str, b))}, confirmed_native=True))
    for p in probs[:3]:
        report.violation(Violation(key=f"probe:{p[0]}:{p[1]}", what=f"{p}"[:300], replay={"p": list(map(str, p))}, confirmed_native=True))
    for k in known[:1]:
        report.violation(Violation(key="O13.5:method-signature-not-escaped", what=f"MethodSignature({k[0]!r}) does not push the selector of that text: {k[1:]}",
                                   replay={"sig": k[0]}, confirmed_native=True))


def replay(data):
    print(data.get("what"))
    return 1
