"""C17 Reading a routine-local variable before writing it is rejected."""

import itertools
from concurrent.futures import ProcessPoolExecutor

from vf.core import Report, Bounded, Violation, Ob
from vf.runner import run_contracts

LEVEL = "other"

C = ("txn", "fee")  # an opaque condition


def stmts(depth, in_loop):
    base = [("store", "x", ("int", 1)), ("pop", ("load", "x")), ("pop", ("int", 0))]
    if in_loop:
        base += [("break",), ("continue",)]
    if depth == 0:
        return base
    sub = stmts(depth - 1, in_loop)
    subl = stmts(depth - 1, True)
    out = list(base)
    for a in sub:
        out.append(("ifs", C, a, None))
    for a, b in itertools.product(sub, sub):
        out.append(("ifs", C, a, b))
        out.append(("seq", [a, b]))
    for a in subl:
        out.append(("while", C, a))
    for a, b in itertools.product(subl[:5], subl[:5]):
        out.append(("while", C, ("seq", [a, b])))
    out.append(("ifs", C, ("return", ("int", 1)), None))
    out.append(("conds", [(C, ("store", "x", ("int", 2))), (("int", 1), ("pop", ("int", 3)))]))
    out.append(("conds", [(C, ("store", "x", ("int", 2))), (("int", 1), ("store", "x", ("int", 3)))]))
    return out


def directed():
    """an arm that stores and then leaves the routine: what it stored must not count on the other paths"""
    out = []
    for tail in (("pop", ("load", "x")), ("ifs", C, ("pop", ("load", "x")), None), ("seq", [("pop", ("int", 0)), ("pop", ("load", "x"))])):
        out.append(("seq", [("ifs", C, ("seq", [("store", "x", ("int", 5)), ("return", ("int", 1))]), None), tail]))
        out.append(("seq", [("ifs", C, ("pop", ("int", 0)), ("seq", [("store", "x", ("int", 5)), ("return", ("int", 1))])), tail]))
        out.append(("seq", [("conds", [(C, ("seq", [("store", "x", ("int", 2)), ("return", ("int", 1))])), (("int", 1), ("pop", ("int", 3)))]), tail]))
    # a sibling arm / an earlier statement reads x unwritten while another arm holds an adjacent store/load pair of x (the slot optimiser runs
    # before the check: it must not delete the offending load)
    pair = ("seq", [("store", "x", ("int", 5)), ("pop", ("load", "x"))])
    out.append(("ifs", C, ("pop", ("load", "x")), pair))
    out.append(("ifs", C, pair, ("pop", ("load", "x"))))
    out.append(("conds", [(C, ("pop", ("load", "x"))), (("int", 1), pair)]))
    out.append(("seq", [("ifs", C, ("pop", ("load", "x")), None), pair]))
    out.append(("seq", [("pop", ("load", "x")), pair]))
    return out


# ---- specification: is there a syntactic path to a load of x with no earlier store? --------------------------
def analyse(s, ins, loop=None):
    """ins: set of possible 'assigned' flags at entry. Returns (outs, bad, breaks, conts) where outs = flags at normal exit."""
    k = s[0]
    if k == "store":
        bad = expr_loads(s[2]) and (False in ins)
        return {True} if ins else set(), bad, set(), set()
    if k == "pop" or k == "log":
        return set(ins), expr_loads(s[1]) and (False in ins), set(), set()
    if k == "seq":
        cur, bad, brk, cnt = set(ins), False, set(), set()
        for x in s[1]:
            cur, b, bk, ct = analyse(x, cur)
            bad |= b
            brk |= bk
            cnt |= ct
        return cur, bad, brk, cnt
    if k == "ifs":
        o1, b1, k1, c1 = analyse(s[2], ins)
        if s[3] is not None:
            o2, b2, k2, c2 = analyse(s[3], ins)
        else:
            o2, b2, k2, c2 = set(ins), False, set(), set()
        return o1 | o2, b1 or b2, k1 | k2, c1 | c2
    if k == "conds":
        outs, bad, brk, cnt = set(), False, set(), set()
        for c, body in s[1]:
            o, b, bk, ct = analyse(body, ins)
            outs |= o
            bad |= b
            brk |= bk
            cnt |= ct
        return outs, bad, brk, cnt   # (falling through all arms is err)
    if k == "while":
        head = set(ins)
        bad = False
        outs = set()
        for _ in range(3):
            o, b, bk, ct = analyse(s[2], head)
            bad |= b
            outs |= bk
            new = head | o | ct
            if new == head:
                break
            head = new
        return head | outs, bad, set(), set()
    if k == "break":
        return set(), False, set(ins), set()
    if k == "continue":
        return set(), False, set(), set(ins)
    if k == "return":
        return set(), expr_loads(s[1]) and (False in ins), set(), set()
    raise ValueError(k)


def expr_loads(e):
    if isinstance(e, tuple):
        if e and e[0] == "load" and e[1] == "x":
            return True
        return any(expr_loads(x) for x in e)
    if isinstance(e, list):
        return any(expr_loads(x) for x in e)
    return False


VAR_KINDS = ("auto", "reserved", "indexed", "indexed-first")


def case(job):
    main, version, opt = job[:3]
    kind = job[3] if len(job) > 3 else "auto"
    from vf.core import use_repo
    use_repo()
    import pyteal as pt
    from spec import progsem
    prog = progsem.Prog(("seq", [main, ("return", ("int", 1))]), {}, [("x", "u", 7 if kind == "reserved" else None)], "Application")
    _, bad, _, _ = analyse(prog.main, {False})
    out = {"main": main, "version": version, "kind": kind, "expect_reject": bad, "problem": None}
    try:
        b = progsem.Builder(prog)
        e = b.build()
        if kind == "indexed":
            # the variable's index is also taken (as DynamicScratchVar / by-reference passing do), on a path that stores nothing
            e = pt.Seq(pt.If(pt.Txn.fee() == pt.Int(12345)).Then(pt.Pop(b.gvars["x"].index())), e)
        if kind == "indexed-first":
            # the index is taken unconditionally before anything else: taking an index is not a write
            e = pt.Seq(pt.Pop(b.gvars["x"].index()), e)
        kw = {"optimize": pt.OptimizeOptions(scratch_slots=opt)} if opt is not None else {}
        pt.compileTeal(e, pt.Mode.Application, version=version, **kw)
        if bad:
            out["problem"] = "a path reads x before any write, but compilation succeeded"
    except pt.TealInternalError as ex:
        cause = ex.__cause__
        if not bad:
            out["problem"] = f"no path reads x before a write, but compilation failed: {ex}"
        elif not isinstance(cause, pt.TealCompileError) or getattr(getattr(cause, "sourceExpr", None), "slot", None) is not b.gvars["x"].slot:
            out["problem"] = f"rejected, but the error does not identify the offending load: cause={cause!r}"
    except Exception as ex:
        out["problem"] = f"unexpected {type(ex).__name__}: {ex}"
    return out


def run(report: Report, tier, seed):
    report.trust("path analysis of the program description in checks/c17.py (syntactic paths: both arms of If/Cond, zero or more loop iterations, Break/Continue exits, early Return)")
    report.assume("under contract (pyvc): TealBlock.validateSlots against the closure specification of contracts/c17_validate.py - arbitrary block graphs, op lists, slot sets; "
                  "the recursive call is checked against the same contract (partial correctness; termination not proved)",
                  "M17 (meta-lemma, not mechanised): a visited set that contains the root's successor states and is closed under successors contains every state reachable "
                  "from the root along a syntactic path (induction on path length)",
                  "requires: distinct ScratchSlot objects have distinct ids (ScratchSlot.__init__ contract O10.1 + the duplicate-id check preceding the call) - the memo key "
                  "(id(block), *sorted ids) is then exactly the pair (block, slot set)",
                  "trusted callee summaries: TealOp.getOp / getSlots / expr, TealBlock.isTerminal / getOutgoing are uninterpreted functions of the receiver (they are pure attribute reads / filters)",
                  "bounded stand-in: the caller (assignScratchSlotsToSubroutines raising when the list is non-empty, per routine, shared slots pre-initialised) and the whole pipeline, "
                  "by exhaustive small-scope enumeration against an independent path analysis")
    from vf.core import use_repo
    use_repo()
    run_contracts(report, [("contracts.c17_validate", "ValidateSlots", "O17.1")])
    S = stmts(2, False)
    if tier == "quick":
        S = S[::3] + S[:40]
    D = directed()
    S = S + D
    jobs = []
    for i, s in enumerate(S):
        v = [4, 6, 8, 10][i % 4]
        jobs.append((s, v, None))
        if v >= 9 or i % 5 == 0:
            jobs.append((s, 10, False))
        # the same shapes on an explicitly numbered variable and on one whose index is also taken
        if i % 2 == 0 or tier != "quick":
            jobs.append((s, v, None, VAR_KINDS[1 + i % 3]))
    for s_ in D:
        jobs += [(s_, 10, None), (s_, 9, None), (s_, 8, True), (s_, 6, True), (s_, 10, False)]
    with ProcessPoolExecutor(max_workers=16) as ex:
        res = list(ex.map(case, jobs, chunksize=32))
    bad = [r for r in res if r["problem"]]
    nrej = sum(1 for r in res if r["expect_reject"])
    report.bounded.append(Bounded(function="compileTeal (validateSlots via assignScratchSlotsToSubroutines)",
                                  contract="rejected with TealInternalError caused by a TealCompileError naming the load  <=>  some syntactic path reaches a load of the local variable before any store",
                                  bound=f"variable kinds auto / explicitly numbered / index taken on a side path / index taken first; statement shapes of nesting depth <= 2 over store / load / If / If-Else / Seq / While / Cond / Break / Continue / Return ({len(S)} shapes{' (every 3rd + first 40)' if tier == 'quick' else ', exhaustive'}), versions 4..10, optimiser default/off",
                                  cases=len(res), distinct_nontrivial=len({repr(j[0]) for j in jobs}), failures=len(bad)))
    report.sample({"shape": repr(S[11])[:200], "expected_rejected": analyse(("seq", [S[11]]), {False})[1]})
    report.extra["explanation"] = f"P: validateSlots closure contract (pyvc); B: exhaustive small scope ({nrej} shapes must be rejected, {len(res) - nrej} accepted)"

    def search(fn, obs):
        mine = [b for b in bad if "succeeded" in b["problem"] or "identify" in b["problem"]] or bad
        return {"input": {"main": repr(mine[0]["main"]), "version": mine[0]["version"]}, "what": mine[0]["problem"]} if mine else None
    report.settle_undecided(search)
    report.settle_refuted(search)
    if any(o.status == "refuted" for o in report.obs):
        bad = [b for b in bad if not ("succeeded" in b["problem"] or "identify" in b["problem"])]
    for b in bad[:3]:
        report.violation(Violation(key=f"rbw:{repr(b['main'])[:100]}", what=f"{b['problem']} on {repr(b['main'])[:200]} (variable kind: {b.get('kind')})", replay={"main": repr(b["main"]), "version": b["version"], "kind": b.get("kind")},
                                   confirmed_native=True))


def replay(data):
    print(data.get("what"))
    return 1
