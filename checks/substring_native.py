"""Native replay / bounded grid for Substring / Extract / Suffix with constant indices."""


def run_one(kind, s, x, version, length=300):
    """compile kind(string, s, x) at version with a string of `length` bytes; -> problem text or None"""
    import pyteal as pt
    from spec import avm, tealcheck
    data = bytes((i * 7 + 3) % 256 for i in range(length))
    try:
        if kind == "substring":
            e = pt.Substring(pt.Bytes(data), pt.Int(s), pt.Int(x))
            want = None if (s > x or x > length) else data[s:x]
            doc_reject = x < s
        elif kind == "extract":
            e = pt.Extract(pt.Bytes(data), pt.Int(s), pt.Int(x))
            want = None if s + x > length else data[s:s + x]
            doc_reject = version < 5
        else:
            e = pt.Suffix(pt.Bytes(data), pt.Int(s))
            want = None if s > length else data[s:]
            doc_reject = version < 5
        mode = pt.Mode.Application if version >= 5 else pt.Mode.Signature
        prog = pt.Seq(pt.Log(e), pt.Approve()) if version >= 5 else pt.Return(pt.Len(e) + pt.Int(1))
        teal = pt.compileTeal(prog, mode, version=version)
    except (pt.TealInputError, pt.TealCompileError) as ex:
        return None if doc_reject else f"{kind}({s},{x}) v{version}: rejected although documented to compile: {ex}"
    pr = tealcheck.validate(teal, version, "Application" if version >= 5 else "Signature")
    if pr:
        return f"{kind}({s},{x}) v{version}: illegal TEAL: {pr[0]}"
    res = avm.run(teal, avm.Ctx(mode="Application" if version >= 5 else "Signature"))
    if want is None:
        if res.verdict != "fail":
            return f"{kind}({s},{x}) v{version}: should fail at run time, got {res.verdict}"
    elif version >= 5:
        if res.verdict != "approve" or res.logs != [want]:
            return f"{kind}({s},{x}) v{version}: expected {want[:8].hex()}.. ({len(want)} bytes) got {res.verdict} {[l[:8].hex() for l in res.logs]} {res.detail}"
    elif res.verdict != "approve":
        return f"{kind}({s},{x}) v{version}: expected approve got {res.verdict} {res.detail}"
    return None


GRID = [0, 1, 2, 100, 254, 255, 256, 257, 299, 300, 301, 511, 512, 70000]


def grid(versions):
    probs, n = [], 0
    for v in versions:
        for s in GRID:
            for x in GRID:
                for kind in ("substring", "extract"):
                    n += 1
                    p = run_one(kind, s, x, v)
                    if p:
                        probs.append(p)
            n += 1
            p = run_one("suffix", s, 0, v)
            if p:
                probs.append(p)
    return n, probs


def from_model(fn, model):
    """model: dict of solver values -> a concrete failing input if the real code misbehaves there."""
    m = (model or {}).get("model") or {}
    try:
        v = int(m.get("version", 6))
        s = int(m.get("start", 0))
    except Exception:
        return None
    kind = "substring" if "Substring" in fn else ("extract" if "Extract" in fn else "suffix")
    x = int(m.get("end", m.get("length", 0)) or 0)
    p = run_one(kind, s, x, v)
    return {"input": {"kind": kind, "start": s, "x": x, "version": v}, "what": p} if p else None
