"""Bounded stand-in for the ARC-4 properties (C06, C07, C19): type shapes and values are generated here, PyTeal ABI
values are assembled / decoded with the public API, the compiled program runs on the spec AVM and the logged bytes
are compared with the reference codec algosdk.abi (trusted)."""
from __future__ import annotations

import random
import traceback
from concurrent.futures import ProcessPoolExecutor

LEAVES = ["bool", "byte", "uint8", "uint16", "uint32", "uint64", "address", "string"]


B9, B17 = ",".join(["bool"] * 9), ",".join(["bool"] * 17)
BOOLRUN_SHAPES = [f"({B9},string)", f"(string,{B9})", f"({B17},uint8,string)", f"(uint16[],{B9},bool[])", f"({B9},uint64,{B9},string,bool)",
                  f"(bool,string,{B17})", f"(({B9},string),uint8)", f"({B9},string)[]", f"({B9},(bool,string))"]


# ---- type shapes (as ARC-4 strings) -----------------------------------------------------------------------
def shapes_quick():
    out = list(LEAVES)
    for l in LEAVES:
        out += [f"{l}[]", f"{l}[3]", f"{l}[9]"] if l == "bool" else [f"{l}[]", f"{l}[2]"]
    for a in LEAVES:
        for b in LEAVES:
            out.append(f"({a},{b})")
    out += ["(bool,bool,bool,bool,bool,bool,bool,bool,bool,uint8)", "(uint8,bool,bool,string,bool,uint16[],bool)",
            "(string,string,string)", "(uint16,(bool,string),byte[2])", "bool[17]", "(bool[3],bool)", "string[]", "string[2]",
            "(uint64,string)[]", "(bool,bool)[3]", "uint16[][]", "(uint8[],uint8[2],bool)", "()", "(())", "byte[0]", "(string)[]",
            "((bool,uint8),(string,bool))", "address[]", "(address,string,bool,bool)"]
    out += BOOLRUN_SHAPES
    return out


def random_shape(r: random.Random, depth=2):
    c = r.random()
    if depth == 0 or c < 0.4:
        return r.choice(LEAVES)
    if c < 0.6:
        return random_shape(r, depth - 1) + "[]"
    if c < 0.75:
        return random_shape(r, depth - 1) + f"[{r.choice([0, 1, 2, 3, 8, 9])}]"
    return "(" + ",".join(random_shape(r, depth - 1) for _ in range(r.randrange(0, 5))) + ")"


def gen_value(t, r: random.Random):
    """t: algosdk ABIType"""
    from algosdk import abi
    if isinstance(t, abi.BoolType):
        return r.random() < 0.5
    if isinstance(t, abi.ByteType):
        return r.choice([0, 1, 127, 128, 255])
    if isinstance(t, abi.UintType):
        return r.choice([0, 1, 2 ** (t.bit_size - 1), 2 ** t.bit_size - 1, r.randrange(2 ** t.bit_size)])
    if isinstance(t, abi.AddressType):
        return bytes(r.randrange(256) for _ in range(32))
    if isinstance(t, abi.StringType):
        return r.choice(["", "a", "hello world", "é\"\\\n", "x" * 40])
    if isinstance(t, abi.ArrayStaticType):
        return [gen_value(t.child_type, r) for _ in range(t.static_length)]
    if isinstance(t, abi.ArrayDynamicType):
        return [gen_value(t.child_type, r) for _ in range(r.choice([0, 1, 2, 3, 9]))]
    if isinstance(t, abi.TupleType):
        return [gen_value(c, r) for c in t.child_types]
    raise ValueError(t)


def sdk_encode(t, v):
    from algosdk import abi, encoding
    if isinstance(t, abi.AddressType):
        return bytes(v)
    if isinstance(t, (abi.ArrayStaticType, abi.ArrayDynamicType)):
        # algosdk encodes addresses from str or bytes; nested handled by recursion through tuple encoding
        return t.encode([_sdk_val(t.child_type, x) for x in v])
    if isinstance(t, abi.TupleType):
        return t.encode([_sdk_val(c, x) for c, x in zip(t.child_types, v)])
    return t.encode(v)


def _sdk_val(t, v):
    from algosdk import abi
    if isinstance(t, abi.AddressType):
        return bytes(v)
    if isinstance(t, (abi.ArrayStaticType, abi.ArrayDynamicType)):
        return [_sdk_val(t.child_type, x) for x in v]
    if isinstance(t, abi.TupleType):
        return [_sdk_val(c, x) for c, x in zip(t.child_types, v)]
    return v


# ---- building PyTeal ABI values -------------------------------------------------------------------------------
def build_set(pt, ts, sdk_t, v, stmts):
    """Assemble an ABI instance of TypeSpec ts holding python value v from its parts with set(...)."""
    from algosdk import abi as sabi
    inst = ts.new_instance()
    if isinstance(sdk_t, (sabi.BoolType, sabi.ByteType, sabi.UintType, sabi.StringType)):
        stmts.append(inst.set(v))
    elif isinstance(sdk_t, sabi.AddressType):
        stmts.append(inst.set(bytes(v)))
    elif isinstance(sdk_t, (sabi.ArrayStaticType, sabi.ArrayDynamicType)):
        ets = ts.value_type_spec()
        elems = [build_set(pt, ets, sdk_t.child_type, x, stmts) for x in v]
        stmts.append(inst.set(elems))
    elif isinstance(sdk_t, sabi.TupleType):
        elems = [build_set(pt, ets, ct, x, stmts) for ets, ct, x in zip(ts.value_type_specs(), sdk_t.child_types, v)]
        stmts.append(inst.set(*elems))
    else:
        raise ValueError(sdk_t)
    return inst


def wrap(pt, body_fn, in_sub):
    """Program: either in the main routine, or inside a subroutine (frame variables at v8+)."""
    if not in_sub:
        return pt.Seq(body_fn(), pt.Approve())

    @pt.Subroutine(pt.TealType.none)
    def worker():
        return body_fn()
    return pt.Seq(worker(), pt.Approve())


def run_teal(teal):
    from spec import avm
    return avm.run(teal, avm.Ctx())


# ---- C06: encode -------------------------------------------------------------------------------------------------
def encode_case(job):
    from .e2e import with_big_stack
    return with_big_stack(_encode_case, job)


def _encode_case(job):
    shape, seed, version, in_sub = job
    from vf.core import use_repo
    use_repo()
    import pyteal as pt
    from pyteal import abi
    from algosdk import abi as sabi
    out = {"shape": shape, "seed": seed, "version": version, "in_sub": in_sub, "problems": [], "ran": 0}
    try:
        sdk_t = sabi.ABIType.from_string(shape)
    except Exception as e:
        out["skipped"] = f"algosdk rejects shape: {e}"
        return out
    try:
        ts = abi.type_spec_from_algosdk(sdk_t)
        # descriptor clauses
        if str(ts) != str(sdk_t):
            out["problems"].append(f"type string {str(ts)!r} != reference {str(sdk_t)!r}")
        if ts.is_dynamic() != sdk_t.is_dynamic():
            out["problems"].append(f"is_dynamic {ts.is_dynamic()} != reference {sdk_t.is_dynamic()}")
        if not sdk_t.is_dynamic() and ts.byte_length_static() != sdk_t.byte_len():
            out["problems"].append(f"byte_length_static {ts.byte_length_static()} != reference {sdk_t.byte_len()}")
        # the other ways to obtain an instance of this type (annotation, abi.make, new_instance) denote the same ARC-4 type
        try:
            ann = ts.annotation_type()
            for how, t2 in (("annotation_type()", abi.type_spec_from_annotation(ann)), ("abi.make(annotation_type())", abi.make(ann).type_spec()), ("new_instance()", ts.new_instance().type_spec())):
                if str(t2) != str(sdk_t) or t2.is_dynamic() != sdk_t.is_dynamic() or (not sdk_t.is_dynamic() and t2.byte_length_static() != sdk_t.byte_len()):
                    out["problems"].append(f"the type obtained through {how} is {t2} (dynamic={t2.is_dynamic()}), the reference type is {sdk_t}")
        except (pt.TealInputError, TypeError, NotImplementedError):
            pass      # some shapes have no annotation form (e.g. tuples of more than 5 members): nothing to compare
        r = random.Random(seed)
        for rep in range(3):
            v = gen_value(sdk_t, r)
            want = sdk_encode(sdk_t, v)

            def body():
                stmts = []
                inst = build_set(pt, ts, sdk_t, v, stmts)
                return pt.Seq(*stmts, pt.Log(inst.encode()))
            teal = pt.compileTeal(wrap(pt, body, in_sub), pt.Mode.Application, version=version)
            res = run_teal(teal)
            out["ran"] += 1
            if resource_limited(res):
                out["skipped"] = f"value outside the AVM's resource limits: {res.detail}"
                continue
            if res.verdict != "approve" or res.logs != [want]:
                out["problems"].append(f"value {v!r:.120}: expected {want.hex()[:80]} got {res.verdict} {[l.hex()[:80] for l in res.logs]} {res.detail}")
                out["teal"] = teal
                break
    except Exception as e:
        from spec import avm
        if isinstance(e, avm.Unsupported) or too_many_slots(e):
            out["skipped"] = str(e)
        else:
            out["problems"].append(f"exception {type(e).__name__}: {str(e)[:200]}")
            out["trace"] = traceback.format_exc()[-800:]
    return out


def uint_range_case(job):
    """Integers that do not fit: python ints rejected at build time, expressions make the program fail."""
    bits, version = job
    from vf.core import use_repo
    use_repo()
    import pyteal as pt
    from pyteal import abi
    cls = {8: abi.Uint8, 16: abi.Uint16, 32: abi.Uint32, 64: abi.Uint64}[bits]
    probs = []
    for n in (2 ** bits, 2 ** bits + 1, 2 ** 64):
        try:
            cls().set(n)
            probs.append(f"Uint{bits}.set({n}) accepted")
        except pt.TealInputError:
            pass
        except Exception as e:
            probs.append(f"Uint{bits}.set({n}) raised {type(e).__name__}")
    if bits < 64:
        for n, ok in ((2 ** bits - 1, True), (2 ** bits, False), (2 ** 63, False)):
            x = cls()
            prog = pt.Seq(x.set(pt.Int(n)), pt.Log(x.encode()), pt.Approve())
            res = run_teal(pt.compileTeal(prog, pt.Mode.Application, version=version))
            if ok and (res.verdict != "approve" or res.logs != [n.to_bytes(bits // 8, "big")]):
                probs.append(f"Uint{bits}.set(Int({n})) -> {res.verdict} {res.logs}")
            if not ok and res.verdict != "fail":
                probs.append(f"Uint{bits}.set(Int({n})) did not fail: {res.verdict} {res.logs}")
    return {"shape": f"uint{bits}-range", "problems": probs, "ran": 1}


# ---- C07: decode and element access -----------------------------------------------------------------------------------
def leaf_log(pt, inst, sdk_t):
    """Expression logging the decoded leaf in a canonical form + the python-side expected bytes function."""
    from algosdk import abi as sabi
    if isinstance(sdk_t, (sabi.UintType, sabi.ByteType, sabi.BoolType)):
        return pt.Log(pt.Itob(inst.get()))
    return pt.Log(inst.get())


def leaf_expected(sdk_t, v):
    from algosdk import abi as sabi
    if isinstance(sdk_t, sabi.BoolType):
        return (1 if v else 0).to_bytes(8, "big")
    if isinstance(sdk_t, (sabi.UintType, sabi.ByteType)):
        return int(v).to_bytes(8, "big")
    if isinstance(sdk_t, sabi.AddressType):
        return bytes(v)
    if isinstance(sdk_t, sabi.StringType):
        return v.encode("utf-8")
    raise ValueError


def decode_case(job):
    from .e2e import with_big_stack
    return with_big_stack(_decode_case, job)


def _decode_case(job):
    shape, seed, version, in_sub = job
    from vf.core import use_repo
    use_repo()
    import pyteal as pt
    from pyteal import abi
    from algosdk import abi as sabi
    out = {"shape": shape, "seed": seed, "version": version, "in_sub": in_sub, "problems": [], "ran": 0}
    try:
        sdk_t = sabi.ABIType.from_string(shape)
        ts = abi.type_spec_from_algosdk(sdk_t)
        r = random.Random(seed)
        v = gen_value(sdk_t, r)
        enc = sdk_encode(sdk_t, v)
        is_leaf = isinstance(sdk_t, (sabi.UintType, sabi.ByteType, sabi.BoolType, sabi.AddressType, sabi.StringType))
        checks = []  # (label, body_fn, expected logs | "fail")
        if is_leaf:
            def body():
                x = ts.new_instance()
                return pt.Seq(x.decode(pt.Bytes(enc)), leaf_log(pt, x, sdk_t))
            checks.append(("decode-get", body, [leaf_expected(sdk_t, v)]))
        else:
            if isinstance(sdk_t, sabi.TupleType):
                children = list(zip(sdk_t.child_types, v))
            else:
                children = [(sdk_t.child_type, x) for x in v]

            def round_trip():
                x = ts.new_instance()
                return pt.Seq(x.decode(pt.Bytes(enc)), pt.Log(x.encode()))
            checks.append(("decode-encode", round_trip, [enc]))
            for i, (ct, cv) in enumerate(children):
                for dyn_index in ((False, True) if not isinstance(sdk_t, sabi.TupleType) else (False,)):
                    def body(i=i, ct=ct, dyn_index=dyn_index):
                        x = ts.new_instance()
                        ets = abi.type_spec_from_algosdk(ct)
                        e = ets.new_instance()
                        idx = pt.Int(i) if dyn_index else i
                        return pt.Seq(x.decode(pt.Bytes(enc)), x[idx].store_into(e), pt.Log(e.encode()))
                    checks.append((f"element[{i}]{'/computed' if dyn_index else ''}", body, [sdk_encode(ct, cv)]))
            if not isinstance(sdk_t, sabi.TupleType):
                def length_body():
                    x = ts.new_instance()
                    return pt.Seq(x.decode(pt.Bytes(enc)), pt.Log(pt.Itob(x.length())))
                checks.append(("length", length_body, [len(v).to_bytes(8, "big")]))
                n = len(v)
                for oob in sorted({n, n + 1, n + 7, 8 * ((n + 7) // 8)}):
                    if oob < n:
                        continue

                    def oob_body(oob=oob):
                        x = ts.new_instance()
                        e = abi.type_spec_from_algosdk(sdk_t.child_type).new_instance()
                        return pt.Seq(x.decode(pt.Bytes(enc)), x[pt.Int(oob)].store_into(e), pt.Log(e.encode()))
                    checks.append((f"out-of-range[{oob}] of {n}", oob_body, "fail"))
        for label, body, want in checks:
            try:
                teal = pt.compileTeal(wrap(pt, body, in_sub), pt.Mode.Application, version=version)
            except pt.TealInputError as e:
                if want == "fail":
                    continue
                out["problems"].append({"check": label, "what": f"rejected at build: {e}"})
                continue
            res = run_teal(teal)
            out["ran"] += 1
            if want == "fail":
                if res.verdict != "fail":
                    out["problems"].append({"check": label, "kind": "oob", "what": f"out-of-range access did not fail: {res.verdict} {[l.hex() for l in res.logs]}"})
            elif resource_limited(res):
                out["skipped"] = f"outside the AVM's resource limits: {res.detail}"
            elif res.verdict != "approve" or res.logs != want:
                out["problems"].append({"check": label, "what": f"value {v!r:.100}: expected {[w.hex()[:60] for w in want]} got {res.verdict} {[l.hex()[:60] for l in res.logs]} {res.detail}"})
    except Exception as e:
        from spec import avm
        if isinstance(e, avm.Unsupported) or too_many_slots(e):
            out["skipped"] = str(e)
        else:
            out["problems"].append({"check": "exception", "what": f"{type(e).__name__}: {str(e)[:200]}", "trace": traceback.format_exc()[-600:]})
    return out


def resource_limited(res):
    """the run hit a size limit of the machine (4096-byte values, log sizes, opcode budget), not a codec error"""
    return res.verdict == "fail" and any(k in (res.detail or "") for k in ("bytes too long", "budget", "too many logs", "log too", "stack overflow"))


def too_many_slots(e):
    """a type needing more than 256 scratch slots is rejected at compile time (the rule of property C10), not mis-encoded"""
    return type(e).__name__ == "TealInternalError" and "Too many slots in use" in str(e)


def pool_map(fn, jobs, workers=16):
    import os
    if os.environ.get("VERIF_SERIAL"):
        return [fn(j) for j in jobs]
    with ProcessPoolExecutor(max_workers=workers) as ex:
        return list(ex.map(fn, jobs, chunksize=4))


# ---- C06: set(other ABI value) ------------------------------------------------------------------------------------
COPY_TYPES = ["bool", "byte", "uint8", "uint16", "uint32", "uint64", "string", "byte[]", "address", "byte[32]", "byte[4]", "uint8[]", "uint8[4]", "(uint8,uint8)"]


def copy_case(job):
    """dst.set(src) for two ABI values of (possibly) different types, the source holding a boundary value: the copy is rejected when the
    expression is built, or the program fails at run time, or dst.encode() is the reference encoding - under the DESTINATION type - of
    the same logical value.  (A value that does not fit the destination type must not be truncated silently.)"""
    src_s, dst_s, seed, version, in_sub = job
    from vf.core import use_repo
    use_repo()
    import pyteal as pt
    from pyteal import abi
    from algosdk import abi as sabi
    out = {"job": list(job), "problems": [], "ran": 0, "accepted": False}
    r = random.Random(seed)
    try:
        st, dt = sabi.ABIType.from_string(src_s), sabi.ABIType.from_string(dst_s)
        sts, dts = abi.type_spec_from_algosdk(st), abi.type_spec_from_algosdk(dt)
        for rep in range(3):
            v = gen_value(st, r)
            if isinstance(st, sabi.UintType) and rep == 0:
                v = 2 ** st.bit_size - 1          # the largest source value

            def body():
                stmts = []
                src = build_set(pt, sts, st, v, stmts)
                dst = dts.new_instance()
                return pt.Seq(*stmts, dst.set(src), pt.Log(dst.encode()))
            try:
                teal = pt.compileTeal(wrap(pt, body, in_sub), pt.Mode.Application, version=version)
            except (pt.TealInputError, pt.TealTypeError, pt.TealCompileError):
                return out          # rejected when built: fine for every pair
            out["accepted"] = True
            res = run_teal(teal)
            out["ran"] += 1
            if res.verdict == "fail" or resource_limited(res):
                continue            # refused at run time
            # the same logical value under the destination type
            try:
                cv = convert_value(st, dt, v)
                want = (len(cv.raw).to_bytes(2, "big") + cv.raw) if isinstance(cv, RawString) else sdk_encode(dt, cv)
            except Exception:
                want = None          # the value has no encoding under the destination type
            if res.verdict != "approve" or want is None or res.logs != [want]:
                out["problems"].append(f"{dst_s}.set({src_s} holding {v!r:.60}) accepted: logged {[l.hex()[:60] for l in res.logs]} ({res.verdict}), "
                                       f"reference {want.hex()[:60] if want is not None else 'has no encoding of this value'}")
                out["teal"] = teal
                break
    except Exception as e:
        from spec import avm
        if isinstance(e, avm.Unsupported) or too_many_slots(e):
            out["skipped"] = str(e)
        else:
            out["problems"].append(f"exception {type(e).__name__}: {str(e)[:200]}")
    return out


class RawString:
    def __init__(self, raw):
        self.raw = raw


def convert_value(st, dt, v):
    """the logical value v of source type st as a Python value of destination type dt (raises if there is none)"""
    from algosdk import abi as sabi
    if str(st) == str(dt):
        return _sdk_val(dt, v)
    num = (sabi.UintType, sabi.ByteType)
    if isinstance(st, num) and isinstance(dt, num):
        return int(v)
    byteish = lambda t: isinstance(t, (sabi.StringType, sabi.AddressType)) or (isinstance(t, (sabi.ArrayStaticType, sabi.ArrayDynamicType)) and isinstance(t.child_type, (sabi.ByteType, sabi.UintType)) and
                                                                                  (isinstance(t.child_type, sabi.ByteType) or t.child_type.bit_size == 8))
    if byteish(st) and byteish(dt):
        raw = v.encode() if isinstance(v, str) else bytes(v)
        if isinstance(dt, sabi.StringType):
            return RawString(raw)        # ARC-4 `string` has the layout of byte[]: any bytes have an encoding (UTF-8 is an assumption about them)
        if isinstance(dt, sabi.AddressType):
            if len(raw) != 32:
                raise ValueError("not 32 bytes")
            return raw
        return list(raw)
    raise ValueError("no conversion")


def copy_jobs(tier, seed):
    jobs = []
    k = 0
    for a in COPY_TYPES:
        for b in COPY_TYPES:
            for in_sub, version in ((False, 6), (True, 9)) if tier == "quick" else ((False, 5), (False, 8), (True, 8), (True, 10)):
                jobs.append((a, b, seed * 131 + k, version, in_sub))
                k += 1
    return jobs


# ---- C06: length prefixes at their boundaries ---------------------------------------------------------------------------
# Every route by which a dynamic value gets its uint16 length prefix, at lengths around the byte boundaries of the prefix
# (compile-time prefixes are computed in Python, run-time prefixes in TEAL: both must agree with the reference codec).
LEN_BOUNDARIES = (0, 1, 127, 128, 254, 255, 256, 257, 300, 511, 512, 513, 767, 1023, 1024, 1025, 2047, 2048, 4000)
LEN_ROUTES = ("string-literal", "bytes-literal", "string-expr", "dynbytes-literal", "dynbytes-expr", "byte-array-of-values", "bool-array-of-values", "uint16-array-of-values",
              "string-in-tuple", "static-bytes-literal")


def length_jobs(tier):
    return [(route, n, v) for route in LEN_ROUTES for n in LEN_BOUNDARIES for v in ((6, 8) if tier == "quick" else (5, 6, 8, 10))]


def length_case(job):
    from .e2e import with_big_stack
    return with_big_stack(_length_case, job)


def _length_case(job):
    route, n, version = job
    from vf.core import use_repo
    use_repo()
    import hashlib
    import pyteal as pt
    from pyteal import abi
    from algosdk import abi as sabi
    out = {"job": list(job), "problems": [], "ran": 0, "skipped": None}
    payload = bytes((i * 7 + 3) % 251 for i in range(n))
    text = "".join(chr(97 + (i * 5) % 26) for i in range(n))
    stmts = []
    try:
        if route == "string-literal":
            x = abi.String(); stmts.append(x.set(text)); want = sabi.StringType().encode(text)
        elif route == "bytes-literal":
            x = abi.String(); stmts.append(x.set(payload)); want = len(payload).to_bytes(2, "big") + payload
        elif route == "string-expr":
            if n > 4000:
                return out
            x = abi.String(); stmts.append(x.set(pt.Bytes(payload))); want = len(payload).to_bytes(2, "big") + payload
        elif route == "dynbytes-literal":
            x = abi.DynamicBytes(); stmts.append(x.set(payload)); want = len(payload).to_bytes(2, "big") + payload
        elif route == "dynbytes-expr":
            x = abi.DynamicBytes(); stmts.append(x.set(pt.Bytes(payload))); want = len(payload).to_bytes(2, "big") + payload
        elif route in ("byte-array-of-values", "bool-array-of-values", "uint16-array-of-values"):
            if n > 300:
                out["skipped"] = "one scratch slot / frame cell per element"
                return out
            if route.startswith("byte"):
                el, vals, st = abi.Byte, [b for b in payload], "byte[]"
            elif route.startswith("bool"):
                el, vals, st = abi.Bool, [(i % 3 == 0) for i in range(n)], "bool[]"
            else:
                el, vals, st = abi.Uint16, [(i * 257) % 65536 for i in range(n)], "uint16[]"
            one = [el() for _ in range(min(n, 3))]          # three cells reused: the element values cycle with period 3
            vals = [vals[i % 3] if n else None for i in range(n)]
            for c, v in zip(one, vals[:3]):
                stmts.append(c.set(v))
            x = abi.make(abi.DynamicArray[el]); stmts.append(x.set([one[i % 3] for i in range(n)]))
            want = sabi.ABIType.from_string(st).encode(vals)
        elif route == "string-in-tuple":
            a, s = abi.Uint8(), abi.String()
            x = abi.make(abi.Tuple2[abi.Uint8, abi.String])
            stmts += [a.set(7), s.set(text), x.set(a, s)]
            want = sabi.ABIType.from_string("(uint8,string)").encode([7, text])
        elif route == "static-bytes-literal":
            if n == 0 or n > 1024:
                return out
            from typing import Literal
            x = abi.make(abi.StaticBytes[Literal[n]]); stmts.append(x.set(payload)); want = payload  # type: ignore
        else:
            raise ValueError(route)
        if len(want) > 4096:
            return out
        enc = x.encode()
        prog = pt.Seq(*stmts, pt.Log(pt.Itob(pt.Len(enc))), pt.Log(pt.Sha256(enc)), pt.Log(pt.Extract(enc, pt.Int(0), pt.Int(min(2, len(want))))), pt.Approve())
        teal = pt.compileTeal(prog, pt.Mode.Application, version=version)
    except (pt.TealInputError, pt.TealTypeError, pt.TealCompileError, pt.TealInternalError) as e:
        if too_many_slots(e):
            out["skipped"] = "resource limit"
            return out
        out["problems"].append(f"rejected: {type(e).__name__}: {str(e)[:160]}")
        return out
    res = run_teal(teal)
    out["ran"] = 1
    if resource_limited(res):
        out["skipped"] = "resource limit"
        return out
    exp = [len(want).to_bytes(8, "big"), hashlib.sha256(want).digest(), want[:2]]
    if res.verdict != "approve" or res.logs != exp:
        got = [l.hex() for l in res.logs]
        out["problems"].append(f"{route} of length {n} at v{version}: encoded length / sha256 / first two bytes are {got} ({res.verdict} {res.detail}), the reference codec gives {[e.hex() for e in exp]}")
        out["teal"] = teal[:3000]
    return out


# ---- C07: named-tuple fields (by name), several named-tuple types alive in one program ------------------------------------------
# each family: [(class name, [(field name, ARC-4 type)] ...)] - the SAME field names at DIFFERENT positions / with different types
NT_FAMILIES = [
    [("Order", [("id", "uint64"), ("price", "uint32"), ("qty", "uint16")]), ("Fill", [("price", "uint32"), ("qty", "uint16"), ("id", "uint64")])],
    [("A", [("flag", "bool"), ("name", "string"), ("n", "uint8")]), ("B", [("name", "string"), ("n", "uint8"), ("flag", "bool")]), ("C", [("n", "uint64"), ("flag", "bool"), ("name", "string")])],
    [("P", [("xs", "uint16[]"), ("who", "address"), ("ok", "bool"), ("ok2", "bool")]), ("Q", [("ok", "bool"), ("xs", "uint16[]"), ("ok2", "bool"), ("who", "address")])],
    [("Solo", [("a", "byte"), ("b", "(uint8,string)"), ("c", "bool[3]")])],
]
NT_ORDERS = ("declared", "reversed", "interleaved")


def nt_jobs(tier):
    return [(fi, order, v, in_sub) for fi in range(len(NT_FAMILIES)) for order in NT_ORDERS for v in ((6, 8) if tier == "quick" else (5, 6, 8, 10)) for in_sub in (False, True)]


def nt_case(job):
    fi, order, version, in_sub = job
    from vf.core import use_repo
    use_repo()
    import pyteal as pt
    from pyteal import abi
    from algosdk import abi as sabi
    out = {"job": list(job), "problems": [], "ran": 0}
    try:
        fam = NT_FAMILIES[fi]
        ns = {"abi": abi}
        classes = {}
        for cname, fields in fam:
            ann = "\n".join(f"    {fn}: abi.Field[{_ann(ft)}]" for fn, ft in fields)
            exec(compile(f"class {cname}(abi.NamedTuple):\n{ann}\n", "<nt>", "exec", dont_inherit=True), ns)
            classes[cname] = ns[cname]
        r = random.Random(fi * 31 + version)
        vals, encs = {}, {}
        for cname, fields in fam:
            t = sabi.ABIType.from_string("(" + ",".join(ft for _, ft in fields) + ")")
            vals[cname] = gen_value(t, r)
            encs[cname] = sdk_encode(t, vals[cname])
        names = [c for c, _ in fam]
        if order == "reversed":
            names = names[::-1]

        def body():
            # every type is instantiated (and decoded) before any field is read: the field reads of one type happen while instances of
            # the other types exist, in the chosen order
            insts = {c: classes[c]() for c in (names if order != "interleaved" else [c for c, _ in fam])}
            stmts = [insts[c].decode(pt.Bytes(encs[c])) for c in insts]
            reads = []
            for cname, fields in fam:
                for k, (fn, ft) in enumerate(fields):
                    reads.append((cname, k, fn, ft))
            if order == "interleaved":
                reads.sort(key=lambda x: (x[2], x[0]))
            elif order == "reversed":
                reads = reads[::-1]
            exp = []
            for cname, k, fn, ft in reads:
                e = abi.type_spec_from_algosdk(sabi.ABIType.from_string(ft)).new_instance()
                stmts += [getattr(insts[cname], fn).store_into(e), pt.Log(e.encode())]
                exp.append(sdk_encode(sabi.ABIType.from_string(ft), vals[cname][k]))
            body.expected = exp
            body.labels = [f"{c}.{fn}" for c, _, fn, _ in reads]
            return pt.Seq(*stmts)
        teal = pt.compileTeal(wrap(pt, body, in_sub), pt.Mode.Application, version=version)
        res = run_teal(teal)
        out["ran"] = 1
        if res.verdict != "approve" or res.logs != body.expected:
            k = next((i for i, (a, b) in enumerate(zip(res.logs, body.expected)) if a != b), min(len(res.logs), len(body.expected)))
            lab = body.labels[k] if k < len(body.labels) else "?"
            out["problems"].append(f"named-tuple field {lab} (family {[c for c, _ in fam]}, read order {order}): got {res.logs[k].hex()[:40] if k < len(res.logs) else None} "
                                   f"({res.verdict} {res.detail}), the value's component is {body.expected[k].hex()[:40] if k < len(body.expected) else None}")
            out["teal"] = teal[:4000]
    except Exception as e:
        out["problems"].append(f"exception {type(e).__name__}: {str(e)[:200]}")
        out["trace"] = traceback.format_exc()[-600:]
    return out


def _ann(t):
    """ARC-4 type string -> annotation source text (the handful of shapes used above)"""
    m = {"uint64": "abi.Uint64", "uint32": "abi.Uint32", "uint16": "abi.Uint16", "uint8": "abi.Uint8", "byte": "abi.Byte", "bool": "abi.Bool", "string": "abi.String",
         "address": "abi.Address", "uint16[]": "abi.DynamicArray[abi.Uint16]", "(uint8,string)": "abi.Tuple2[abi.Uint8, abi.String]",
         "bool[3]": "abi.StaticArray[abi.Bool, __import__('typing').Literal[3]]"}
    return m[t]


# ---- C06: every accepted argument form of set() on the byte-string-like classes ------------------------------------------------------
SETFORM_TARGETS = ("address", "string", "dynbytes", "staticbytes4")
SETFORM_FORMS = ("str", "bytes", "bytearray", "expr", "byte-values", "same-class", "sibling-class", "computed")


def setform_jobs(tier):
    return [(t, f, v, in_sub) for t in SETFORM_TARGETS for f in SETFORM_FORMS for v in ((6, 8) if tier == "quick" else (5, 6, 8, 10)) for in_sub in (False, True)]


def setform_case(job):
    """target.set(<form>) for every form the class documents: whatever is accepted must encode to the reference bytes of the value meant."""
    target, form, version, in_sub = job
    from vf.core import use_repo
    use_repo()
    import pyteal as pt
    from pyteal import abi
    from algosdk import encoding
    from typing import Literal
    out = {"job": list(job), "problems": [], "ran": 0, "accepted": False}
    raw = {"address": bytes(range(32)), "string": "héllo!".encode(), "dynbytes": b"\x00\x01\xfe\xff", "staticbytes4": b"\x09\x08\x07\x06"}[target]
    want = raw if target in ("address", "staticbytes4") else len(raw).to_bytes(2, "big") + raw

    def mk():
        return {"address": abi.Address, "string": abi.String, "dynbytes": abi.DynamicBytes, "staticbytes4": lambda: abi.make(abi.StaticBytes[Literal[4]])}[target]()

    def body():
        x = mk()
        pre = []
        if form == "str":
            v = encoding.encode_address(raw) if target == "address" else raw.decode("utf-8", "surrogateescape")
            if target in ("dynbytes", "staticbytes4"):
                v = raw.decode("latin-1")
        elif form == "bytes":
            v = raw
        elif form == "bytearray":
            v = bytearray(raw)
        elif form == "expr":
            v = pt.Bytes(raw)
        elif form == "byte-values":
            v = []
            for bt in raw:
                c = abi.Byte()
                pre.append(c.set(bt))
                v.append(c)
        elif form == "same-class":
            v = mk()
            pre.append(v.set(raw))
        elif form == "sibling-class":
            # the other class with the same encoding
            sib = {"address": lambda: abi.make(abi.StaticArray[abi.Byte, Literal[32]]), "string": abi.DynamicBytes, "dynbytes": lambda: abi.make(abi.DynamicArray[abi.Byte]),
                   "staticbytes4": lambda: abi.make(abi.StaticArray[abi.Byte, Literal[4]])}[target]()
            cells = []
            for bt in raw:
                c = abi.Byte()
                pre.append(c.set(bt))
                cells.append(c)
            pre.append(sib.set(raw) if target == "string" else sib.set(cells))
            v = sib
        else:
            ann = {"address": abi.Address, "string": abi.String, "dynbytes": abi.DynamicBytes, "staticbytes4": abi.StaticBytes[Literal[4]]}[target]
            ns = {"pt": pt, "abi": abi, "ANN": ann, "RAW": raw}
            exec(compile("@pt.ABIReturnSubroutine\ndef give(*, output: ANN):\n    return output.set(RAW)\n", "<setform>", "exec", dont_inherit=True), ns)
            v = ns["give"]()
        return pt.Seq(*pre, x.set(v), pt.Log(x.encode()))
    try:
        teal = pt.compileTeal(wrap(pt, body, in_sub), pt.Mode.Application, version=version)
    except (pt.TealInputError, pt.TealTypeError, pt.TealCompileError) as e:
        out["rejected"] = f"{type(e).__name__}: {str(e)[:100]}"
        return out
    except Exception as e:
        # a form the class does not document (e.g. Address.set(bytearray)) is refused by a plain Python error: no value was accepted
        out["rejected"] = f"{type(e).__name__}: {str(e)[:100]}"
        return out
    out["accepted"] = True
    res = run_teal(teal)
    out["ran"] = 1
    if res.verdict != "approve" or res.logs != [want]:
        out["problems"].append(f"{target}.set(<{form}>) at v{version}: encodes to {[l.hex() for l in res.logs]} ({res.verdict} {res.detail}), the reference encoding of the value is {want.hex()}")
        out["teal"] = teal[:3000]
    return out
