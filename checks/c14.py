"""C14 Inner method calls are marshalled per ARC-4."""

import random
import traceback
from concurrent.futures import ProcessPoolExecutor

from vf.core import Report, Bounded, Violation, Ob

LEVEL = "other"
ABI_TYPES = ["uint64", "string", "bool", "byte[2]", "(uint8,string)", "address", "uint16[]", "uint8"]
KNOWN_KEY = "O14.2:more-than-15-plain-args-not-packed"


# the outer transaction's own foreign arrays (reference values forwarded to an inner call index into these)
OUTER_SENDER = bytes([0x11]) * 32
OUTER_ACCTS = [bytes([0x21]) * 32, bytes([0x22]) * 32, bytes([0x23]) * 32]
OUTER_ASSETS = [701, 702, 703]
OUTER_APPS = [801, 802]
OUTER_APP_ID = 77


def case(job):
    seed, version, big = job
    from vf.core import use_repo
    use_repo()
    import hashlib
    import pyteal as pt
    from pyteal import abi
    from algosdk import abi as sabi
    from spec import avm
    from checks import abi_e2e as A
    r = random.Random(seed)
    out = {"seed": seed, "version": version, "big": big, "problems": [], "known": [], "ran": 0}
    try:
        n = r.choice([0, 1, 2, 3, 5]) if not big else r.choice([15, 16, 17, 20])
        params = []
        refheavy = (seed % 3 == 0) and not big      # every third case: several reference arguments of the same kind
        for _ in range(n if not refheavy else r.choice([2, 3, 4, 5])):
            c = r.random()
            if refheavy:
                params.append(("ref", r.choice(["account", "account", "asset", "application"])) if c < 0.8 else ("abi", r.choice(ABI_TYPES)))
                continue
            params.append(("abi", r.choice(ABI_TYPES)) if (c < 0.72 or big) else (("txn", r.choice(["pay", "txn", "axfer"])) if c < 0.85 else ("ref", r.choice(["account", "asset", "application"]))))
        ret = r.choice(["void", "uint64"])
        sig = f"target({','.join(t for _, t in params)}){ret}"
        stmts, args = [], []
        exp_plain, exp_accts, exp_apps, exp_assets, exp_txns = [], [], [], [], []
        for kind, t in params:
            if kind == "abi":
                st = sabi.ABIType.from_string(t)
                v = A.gen_value(st, r)
                ts = abi.type_spec_from_algosdk(st)
                if r.random() < 0.3:
                    args.append(pt.Bytes(A.sdk_encode(st, v)))            # already-encoded expression
                else:
                    args.append(A.build_set(pt, ts, st, v, stmts))
                exp_plain.append(A.sdk_encode(st, v))
            elif kind == "txn":
                amt = r.randrange(1, 1000)
                te = {"pay": pt.TxnType.Payment, "axfer": pt.TxnType.AssetTransfer, "txn": pt.TxnType.Payment}[t]
                args.append({pt.TxnField.type_enum: te, pt.TxnField.fee: pt.Int(amt)})
                exp_txns.append(({"pay": 1, "axfer": 4, "txn": 1}[t], amt))
            elif t == "account":
                if r.random() < 0.4:
                    # a reference VALUE (what a routed method receives for an `account` parameter) forwarded to the inner call:
                    # it denotes the account at its index in the OUTER transaction's Accounts
                    k = r.randrange(0, len(OUTER_ACCTS) + 1)
                    ref = abi.Account()
                    stmts.append(ref.decode(pt.Bytes(bytes([k]))))
                    args.append(ref)
                    a = OUTER_SENDER if k == 0 else OUTER_ACCTS[k - 1]
                else:
                    a = bytes([0x50 + len(exp_accts)]) * 32
                    args.append(pt.Bytes(a))
                exp_accts.append(a)
                exp_plain.append(bytes([len(exp_accts)]))
            elif t == "application":
                if r.random() < 0.4:
                    k = r.randrange(0, len(OUTER_APPS) + 1)
                    ref = abi.Application()
                    stmts.append(ref.decode(pt.Bytes(bytes([k]))))
                    args.append(ref)
                    v = OUTER_APP_ID if k == 0 else OUTER_APPS[k - 1]
                else:
                    v = 3000 + len(exp_apps)
                    args.append(pt.Int(v))
                exp_apps.append(v)
                exp_plain.append(bytes([len(exp_apps)]))
            else:
                exp_plain.append(bytes([len(exp_assets)]))
                if r.random() < 0.4:
                    k = r.randrange(0, len(OUTER_ASSETS))
                    ref = abi.Asset()
                    stmts.append(ref.decode(pt.Bytes(bytes([k]))))
                    args.append(ref)
                    v = OUTER_ASSETS[k]
                else:
                    v = 4000 + len(exp_assets)
                    args.append(pt.Int(v))
                exp_assets.append(v)
        extra = {pt.TxnField.fee: pt.Int(0)}
        x_accts, x_apps, x_assets = [], [], []
        if seed % 2 == 1:
            # the caller adds foreign references of its own: they must not disturb what the argument indices name
            if r.random() < 0.7:
                x_accts = [bytes([0xbb]) * 32]
                extra[pt.TxnField.accounts] = [pt.Bytes(x_accts[0])]
            if r.random() < 0.7:
                x_assets = [888]
                extra[pt.TxnField.assets] = [pt.Int(888)]
            if r.random() < 0.7:
                x_apps = [999]
                extra[pt.TxnField.applications] = [pt.Int(999)]
            extra[pt.TxnField.note] = pt.Bytes("n")
        prog = pt.Seq(*stmts, pt.InnerTxnBuilder.Begin(),
                      pt.InnerTxnBuilder.MethodCall(app_id=pt.Int(5), method_signature=sig, args=args, extra_fields=extra),
                      pt.InnerTxnBuilder.Submit(), pt.Approve())
        teal = pt.compileTeal(prog, pt.Mode.Application, version=version)
        res = avm.run(teal, avm.Ctx(txn={"Sender": OUTER_SENDER, "Accounts": list(OUTER_ACCTS), "Assets": list(OUTER_ASSETS), "Applications": list(OUTER_APPS),
                                         "ApplicationID": OUTER_APP_ID}))
        out["ran"] += 1
        if res.verdict != "approve" or len(res.inner) != 1:
            out["problems"].append(f"{sig}: program did not submit one inner group: {res.verdict} {res.detail}")
            return out
        group = res.inner[0]
        if len(group) != len(exp_txns) + 1:
            out["problems"].append(f"{sig}: inner group has {len(group)} transactions, expected {len(exp_txns) + 1}")
            return out
        for j, (te, amt) in enumerate(exp_txns):
            f = dict((k, v) for k, v in group[j])
            if f.get("TypeEnum") != te or f.get("Fee") != amt:
                out["problems"].append(f"{sig}: transaction argument {j} is not the {j}-th preceding transaction of the group: {group[j]}")
        call = group[-1]
        fields = {}
        for k, v in call:
            fields.setdefault(k, []).append(v)
        if fields.get("TypeEnum") != [6] or fields.get("ApplicationID") != [5]:
            out["problems"].append(f"{sig}: app call fields wrong: TypeEnum={fields.get('TypeEnum')} ApplicationID={fields.get('ApplicationID')}")
        sel = hashlib.new("sha512_256", sig.encode()).digest()[:4]
        got_args = fields.get("ApplicationArgs", [])
        if len(exp_plain) > 15:
            types = []
            for kind, t in params:
                types.append(sabi.ABIType.from_string(t if kind == "abi" else "uint8"))
            tup = sabi.TupleType(types[14:])
            # re-encode the tail from the individual encodings: tuple of already encoded values
            packed = _pack(types[14:], exp_plain[14:])
            want = [sel] + exp_plain[:14] + [packed]
            if got_args != want:
                if got_args == [sel] + exp_plain:
                    out["known"].append(f"{sig}: {len(exp_plain)} plain arguments passed as {len(got_args)} application arguments, the 15th and later are not packed into a tuple")
                else:
                    out["problems"].append(f"{sig}: application arguments differ from ARC-4 (>15 case)")
        elif got_args != [sel] + exp_plain:
            out["problems"].append(f"{sig}: application arguments {[a.hex()[:24] for a in got_args]} != expected {[a.hex()[:24] for a in [sel] + exp_plain]}")
        # the reference arguments occupy the positions their index bytes name; the caller's own extra entries follow them
        if fields.get("Accounts", []) != exp_accts + x_accts or fields.get("Applications", []) != exp_apps + x_apps or fields.get("Assets", []) != exp_assets + x_assets:
            out["problems"].append(f"{sig}: foreign arrays differ (extra fields {sorted(str(k) for k in extra)}): {fields.get('Accounts')} {fields.get('Applications')} {fields.get('Assets')}, "
                                   f"arguments name {exp_accts} {exp_apps} {exp_assets}")
    except Exception as e:
        if isinstance(e, avm.Unsupported):
            out["skipped"] = str(e)
        else:
            out["problems"].append(f"exception {type(e).__name__}: {str(e)[:300]}")
            out["trace"] = traceback.format_exc()[-800:]
    return out


def _pack(types, encs):
    """ARC-4 tuple encoding from already-encoded components."""
    from algosdk import abi as sabi
    heads, tails = [], []
    # static parts length
    head_len = 0
    i = 0
    n = len(types)
    # bools are not packed across already-encoded singletons here: re-encode through algosdk by decoding each component
    vals = [t.decode(e) for t, e in zip(types, encs)]
    return sabi.TupleType(types).encode(vals)


def type_rejections(report):
    """Arguments whose type does not fit the signature are rejected when the expression is built (E over a small table)."""
    from vf.core import use_repo
    use_repo()
    import pyteal as pt
    from pyteal import abi
    probes = [
        ("f(uint64)void", lambda: [abi.String()], "string for uint64"),
        ("f(string)void", lambda: [pt.Int(1)], "uint64 Expr for an encoded argument"),
        ("f(account)void", lambda: [pt.Int(1)], "uint64 Expr for account"),
        ("f(asset)void", lambda: [pt.Bytes("x")], "bytes Expr for asset"),
        ("f(application)void", lambda: [pt.Bytes("x")], "bytes Expr for application"),
        ("f(pay)void", lambda: [{pt.TxnField.type_enum: pt.TxnType.AssetTransfer}], "axfer for pay"),
        ("f(pay)void", lambda: [{pt.TxnField.fee: pt.Int(0)}], "transaction without type_enum"),
        ("f(uint64,uint64)void", lambda: [abi.Uint64()], "too few arguments"),
        ("f(byte[2])void", lambda: [abi.StaticArrayTypeSpec(abi.ByteTypeSpec(), 3).new_instance()], "byte[3] for byte[2]"),
    ]
    # a raw uint64 expression is never the ARC-4 encoding of anything: every plain parameter type must refuse it
    for t in ("bool", "byte", "uint8", "uint16", "uint32", "uint64", "uint128", "address", "string", "byte[]", "byte[4]", "uint64[2]", "uint16[]", "(uint8,uint8)", "(uint64)"):
        probes.append((f"f({t})void", lambda: [pt.Int(5)], f"uint64 Expr for {t}"))
        probes.append((f"f(uint64,{t})void", lambda: [abi.Uint64(), pt.Int(2) * pt.Int(3)], f"uint64 Expr for {t} (second parameter)"))
    bad = []
    for sig, mk, what in probes:
        try:
            pt.InnerTxnBuilder.MethodCall(app_id=pt.Int(1), method_signature=sig, args=mk())
            bad.append(what)
        except (pt.TealInputError, pt.TealTypeError):
            pass
        except Exception as e:
            bad.append(f"{what}: {type(e).__name__}")
    # the selector sent must be one an ARC-4 callee of the stated method answers to: other spellings of a signature are refused, or
    # at least give the selector of the canonical spelling
    import hashlib
    import re
    spell_bad = []
    canon = "add(uint64,(byte[],bool)[2],string)uint64"
    want_sel = hashlib.new("sha512_256", canon.encode()).digest()[:4]

    def mkargs():
        a, c = abi.Uint64(), abi.String()
        b = abi.make(abi.StaticArray[abi.Tuple2[abi.DynamicBytes, abi.Bool], abi.Literal[2]]) if hasattr(abi, "Literal") else None
        return [a, b, c]
    import typing
    spellings = [canon, "add(uint64, (byte[],bool)[2], string)uint64", "add(uint64,(byte[], bool)[2],string) uint64",
                 "add(uint64,(byte[],bool)[2],string)uint64 ", "add(uint64,(byte[],bool)[2],string)\tuint64", "add(uint64,\n(byte[],bool)[2],string)uint64"]
    # (whitespace before the parenthesis belongs to the method NAME - " add" is another method with its own selector - and is not probed)
    for sp in spellings:
        try:
            x, z = abi.Uint64(), abi.String()
            y = abi.StaticArrayTypeSpec(abi.TupleTypeSpec(abi.DynamicBytesTypeSpec(), abi.BoolTypeSpec()), 2).new_instance()
            e = pt.InnerTxnBuilder.MethodCall(app_id=pt.Int(1), method_signature=sp, args=[x, y, z])
        except Exception as ex:
            if sp == canon:
                spell_bad.append(f"canonical signature rejected: {type(ex).__name__}: {str(ex)[:80]}")
            continue
        sent = None
        try:
            el = abi.make(abi.Tuple2[abi.DynamicBytes, abi.Bool])
            db, bo = abi.DynamicBytes(), abi.Bool()
            tl = pt.compileTeal(pt.Seq(x.set(1), z.set("s"), db.set(b"ab"), bo.set(True), el.set(db, bo), y.set([el, el]),
                                       pt.InnerTxnBuilder.Begin(), e, pt.InnerTxnBuilder.Submit(), pt.Approve()), pt.Mode.Application, version=8)
            mm = re.search(r'^method "(.*)"$', tl, flags=re.M)
            sent = hashlib.new("sha512_256", mm.group(1).encode()).digest()[:4] if mm else None
            if mm is None:
                spell_bad.append(f"no method selector found in the program compiled for spelling {sp!r}")
        except Exception as ex:
            spell_bad.append(f"probe for spelling {sp!r} does not compile: {type(ex).__name__}: {str(ex)[:100]}")
        if sent is not None and sent != want_sel:
            spell_bad.append(f"signature spelled {sp!r} is accepted and sends selector {sent.hex()}, but the method {canon} answers to {want_sel.hex()}")
    report.ob(Ob(id="O14.1/selector-is-one-the-callee-answers-to", function="pyteal.ast.itxn.InnerTxnBuilder.MethodCall", kind="E",
                 status="refuted" if spell_bad else "discharged", backend=f"enumeration({len(spellings)} spellings of one signature)",
                 detail="a signature spelled with extra whitespace is refused, or the selector sent is the one of the canonical ARC-4 spelling", model=spell_bad or None))
    report.ob(Ob(id="O14.1/ill-typed-arguments-rejected", function="pyteal.ast.itxn.InnerTxnBuilder.MethodCall", kind="E",
                 status="refuted" if bad else "discharged", backend=f"enumeration({len(probes)} probes)",
                 detail="arguments that do not fit the signature raise TealInputError / TealTypeError when the expression is built", model=bad or None))


def run(report: Report, tier, seed):
    report.trust("algosdk.abi", "spec/avm.py (itxn_begin / itxn_field / itxn_next / itxn_submit recording)", "ARC-4 calling convention as written in checks/c14.py")
    report.assume("under contract (pyvc): InnerTxnBuilder.MethodCall - for every signature and argument list the returned Seq has the documented shape, transaction arguments come first in order, "
                  "reference arguments are appended to their foreign array in order and passed as uint8 index (accounts / applications: position + 1, assets: position), plain arguments follow the selector in order",
                  "callee summaries: SetField / SetFields / Next / Seq / MethodSignature / Bytes / uint8 encode are pure record constructors; require_type may raise; type_spec_is_assignable_to, "
                  "type_spec_from_algosdk, type_specs_from_signature are uninterpreted (property C19 covers their meaning); type-spec equality and `match` class patterns follow the classes of the real objects",
                  "NOT covered by the contract: run-time values, what the constructors emit, tuple packing beyond 15 arguments (MethodCall has none: known finding) - bounded stand-in below")
    from vf.runner import run_contracts
    from vf.core import use_repo
    use_repo()
    run_contracts(report, [("contracts.c14_methodcall", "MethodCall", "O14.1")])
    type_rejections(report)
    n = 60 if tier == "quick" else 800
    jobs = [(seed * 7919 + i, [6, 7, 8, 9, 10][i % 5], i % 5 == 0) for i in range(n)]
    with ProcessPoolExecutor(max_workers=16) as ex:
        res = list(ex.map(case, jobs, chunksize=2))
    bad = [r for r in res if r["problems"]]
    known = [r for r in res if r["known"]]
    report.bounded.append(Bounded(function="InnerTxnBuilder.MethodCall executed on the spec AVM", contract="selector first, plain arguments ARC-4 encoded in order (15th+ packed), reference arguments appended to the foreign arrays and passed as their one-byte index, transaction arguments as preceding inner transactions in order",
                                  bound=f"{n} generated signatures (seed {seed}; 0..20 arguments of plain / reference / transaction kinds) x versions 6..10",
                                  cases=sum(r["ran"] for r in res), distinct_nontrivial=len(jobs), failures=len(bad) + len(known)))
    report.extra["explanation"] = "P: MethodCall marshalling contract (pyvc); E: rejection probes; B: generated signatures executed on the spec AVM"
    srch = lambda fn, obs: ({"input": {"seed": bad[0]["seed"], "version": bad[0]["version"], "big": bad[0]["big"]}, "what": bad[0]["problems"][0]} if bad else None)
    report.settle_undecided(srch)
    report.settle_refuted(srch)
    if any(o.status == "refuted" for o in report.obs):
        bad = bad[:0]
    if known:
        k = known[0]
        report.violation(Violation(key=KNOWN_KEY, what=k["known"][0][:300], replay={"input": {"seed": k["seed"], "version": k["version"], "big": k["big"]}}, confirmed_native=True))
    for b in bad[:3]:
        report.violation(Violation(key=f"methodcall:{b['seed']}:{b['version']}", what=b["problems"][0][:400],
                                   replay={"input": {"seed": b["seed"], "version": b["version"], "big": b["big"]}, "problems": b["problems"][:3]}, confirmed_native=True))


def replay(data):
    r = data.get("replay") or {}
    inp = (r.get("native") or {}).get("input") or r.get("input")
    if not inp:
        return 1
    out = case((inp["seed"], inp["version"], inp["big"]))
    print(out["problems"][:3], out["known"][:1])
    return 1 if (out["problems"] or out["known"]) else 0
