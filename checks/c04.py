"""C04 Successful compilation yields complete, target-legal TEAL."""
from __future__ import annotations

from concurrent.futures import ProcessPoolExecutor

from vf.core import Report, Bounded, Violation, Ob
from vf.runner import run_contracts
from . import e2e

LEVEL = "other"


def op_table(report: Report):
    """O4.3 (E): pyteal's Op table and field tables against the independent langspec (every row)."""
    import pyteal as pt
    from spec import langspec as L
    tt = {pt.TealType.uint64: "u", pt.TealType.bytes: "b"}
    for op in pt.Op:
        m = str(op)
        if m == "//":
            continue
        s = L.OPS.get(m)
        prob = None
        if s is None:
            prob = "opcode unknown to the AVM specification table"
        else:
            pm = ("L" if op.mode & pt.Mode.Signature else "") + ("A" if op.mode & pt.Mode.Application else "")
            if L.first_version_for_pyteal(m) != op.min_version:
                prob = f"first version: spec {L.first_version_for_pyteal(m)} vs pyteal {op.min_version}"
            elif pm != s[1]:
                prob = f"modes: spec {s[1]} vs pyteal {pm}"
        report.ob(Ob(id=f"O4.3/op/{m}", function="pyteal.ir.ops.Op", kind="E", status="refuted" if prob else "discharged",
                     backend="enumeration(Op enum)", detail=f"{m}: mnemonic exists in the AVM spec with the same first version and modes", model=prob))
    # every member name denotes its own table row: two names sharing one row (an Enum alias) mean that one of them carries another op's mnemonic
    for enum_cls, label in ((pt.Op, "Op"),):
        alias = sorted(n for n, mem in enum_cls.__members__.items() if mem.name != n)
        report.ob(Ob(id=f"O4.3/{label}/no-aliased-rows", function="pyteal.ir.ops.Op", kind="E", status="refuted" if alias else "discharged", backend="enumeration(Op.__members__)",
                     detail="no two member names of the opcode table share one (mnemonic, mode, version) row", model=alias or None))
    from pyteal.ast.txn import TxnField
    from pyteal.ast.global_ import GlobalField
    for enum_cls, label in ((TxnField, "TxnField"), (GlobalField, "GlobalField")):
        alias = sorted(n for n, mem in enum_cls.__members__.items() if mem.name != n)
        report.ob(Ob(id=f"O4.3/{label}/no-aliased-rows", function=f"pyteal {label}", kind="E", status="refuted" if alias else "discharged", backend=f"enumeration({label}.__members__)",
                     detail="no two member names of the field table share one row", model=alias or None))
    for f in TxnField:
        s = L.TXN_FIELDS.get(f.arg_name)
        prob = None
        if s is None:
            prob = "field unknown to the AVM specification table"
        elif (tt[f.type_of()], f.is_array, f.min_version) != (s[0], s[1], max(2, s[2])):
            prob = f"spec {s} vs pyteal {(tt[f.type_of()], f.is_array, f.min_version)}"
        report.ob(Ob(id=f"O4.3/txnfield/{f.arg_name}", function="pyteal.ast.txn.TxnField", kind="E", status="refuted" if prob else "discharged",
                     backend="enumeration(TxnField enum)", detail="name, type, array-ness, first version as in the AVM spec", model=prob))
    for f in GlobalField:
        s = L.GLOBAL_FIELDS.get(f.arg_name)
        prob = None
        if s is None:
            prob = "field unknown to the AVM specification table"
        elif (tt[f.type_of()], f.min_version) != (s[0], max(2, s[1])):
            prob = f"spec {s} vs pyteal {(tt[f.type_of()], f.min_version)}"
        report.ob(Ob(id=f"O4.3/globalfield/{f.arg_name}", function="pyteal.ast.global_.GlobalField", kind="E",
                     status="refuted" if prob else "discharged", backend="enumeration(GlobalField enum)",
                     detail="name, type, first version as in the AVM spec", model=prob))


def _validate(spec):
    from vf.core import use_repo
    use_repo()
    import pyteal as pt
    from spec import progsem, proggen, tealcheck
    out = {"problems": [], "n": 0, "rejected": 0}
    prog = proggen.gen_prog(spec["seed"], version=spec.get("gen_version", spec["version"]), mode=spec["mode"], size=3,
                            features=spec.get("features"))
    mode = pt.Mode.Application if spec["mode"] == "Application" else pt.Mode.Signature
    for opt in spec["options"]:
        for asm in (False, True):
            if asm and spec["version"] < 3:
                continue
            try:
                e = progsem.build(prog)
                kw = {"optimize": pt.OptimizeOptions(**opt)} if opt else {}
                teal = pt.compileTeal(e, mode, version=spec["version"], assembleConstants=asm, **kw)
            except Exception as ex:
                if type(ex).__name__ in e2e.PYTEAL_ERRORS:
                    out["rejected"] += 1
                continue
            out["n"] += 1
            # C04 is about what the assembler / loader accepts; stack and type discipline is property C05's check
            pr = tealcheck.validate(teal, spec["version"], spec["mode"], stack=False)
            if pr:
                out["problems"].append({"options": opt, "asm": asm, "problems": pr[:4], "teal": teal})
    return out


def _probe(job):
    """Immediate-range and version probes: (name, builder source evaluated with pt) -> problems or expected rejection."""
    name, src, version, mode = job
    from vf.core import use_repo
    use_repo()
    import pyteal as pt
    from spec import tealcheck
    try:
        e = eval(src, {"pt": pt})
        teal = pt.compileTeal(e, pt.Mode.Application if mode == "Application" else pt.Mode.Signature, version=version)
    except Exception as ex:
        return (name, "rejected" if type(ex).__name__ in e2e.PYTEAL_ERRORS else f"crash {type(ex).__name__}", None)
    pr = tealcheck.validate(teal, version, mode, stack=False)
    return (name, pr, teal)




IMM_VALUES = [-1, 0, 1, 15, 16, 255, 256, 257, 65536, 2 ** 64]
E_ = "pt.Int(0)"   # a run-time (stack) operand where the construct accepts one
# (name, source template over {a} {b}, lowest version, mode, domain of a, domain of b)   - every public construct whose Python-int
# argument ends up as a numeric immediate of the emitted op
IMM_TEMPLATES = [
    ("scratchvar-slot", "pt.Seq(pt.ScratchVar(pt.TealType.uint64, {a}).store(pt.Int(1)), pt.Int(1))", 2, "Application", IMM_VALUES, [None]),
    ("scratchslot-load", "pt.Seq(pt.ScratchSlot({a}).store(pt.Int(1)), pt.ScratchSlot({a}).load(pt.TealType.uint64))", 2, "Application", IMM_VALUES, [None]),
    ("arg", "pt.Seq(pt.Pop(pt.Arg({a})), pt.Int(1))", 2, "Signature", IMM_VALUES + [E_], [None]),
    ("gtxn", "pt.Seq(pt.Pop(pt.Gtxn[{a}].sender()), pt.Int(1))", 3, "Application", IMM_VALUES + [E_], [None]),
    ("gtxn-expr", "pt.Seq(pt.Pop(pt.GtxnExpr({a}, pt.TxnField.fee)), pt.Int(1))", 3, "Application", IMM_VALUES + [E_], [None]),
    ("txna", "pt.Seq(pt.Pop(pt.Txn.application_args[{a}]), pt.Int(1))", 2, "Application", IMM_VALUES + [E_], [None]),
    ("txna-accounts", "pt.Seq(pt.Pop(pt.Txn.accounts[{a}]), pt.Int(1))", 2, "Application", IMM_VALUES + [E_], [None]),
    ("txna-expr", "pt.Seq(pt.Pop(pt.TxnaExpr(pt.Op.txna, pt.Op.txnas, 'Txna', pt.TxnField.application_args, {a})), pt.Int(1))", 2, "Application", IMM_VALUES + [E_], [None]),
    ("gtxna", "pt.Seq(pt.Pop(pt.Gtxn[{a}].application_args[{b}]), pt.Int(1))", 5, "Application", IMM_VALUES + [E_], IMM_VALUES + [E_]),
    ("gtxna-expr", "pt.Seq(pt.Pop(pt.GtxnaExpr({a}, pt.TxnField.application_args, {b})), pt.Int(1))", 5, "Application", IMM_VALUES + [E_], IMM_VALUES + [E_]),
    ("gitxn", "pt.Seq(pt.Pop(pt.Gitxn[{a}].sender()), pt.Int(1))", 6, "Application", IMM_VALUES, [None]),
    ("gitxna", "pt.Seq(pt.Pop(pt.Gitxn[{a}].application_args[{b}]), pt.Int(1))", 6, "Application", IMM_VALUES, IMM_VALUES + [E_]),
    ("itxna", "pt.Seq(pt.Pop(pt.InnerTxn.application_args[{a}]), pt.Int(1))", 5, "Application", IMM_VALUES + [E_], [None]),
    ("itxn-logs", "pt.Seq(pt.Pop(pt.InnerTxn.logs[{a}]), pt.Int(1))", 6, "Application", IMM_VALUES + [E_], [None]),
    ("import-scratch", "pt.Seq(pt.Pop(pt.ImportScratchValue({a}, {b})), pt.Int(1))", 6, "Application", IMM_VALUES + [E_], IMM_VALUES + [E_]),
    ("generated-id", "pt.Seq(pt.Pop(pt.GeneratedID({a})), pt.Int(1))", 4, "Application", IMM_VALUES + [E_], [None]),
    ("substring", "pt.Seq(pt.Pop(pt.Substring(pt.Bytes('abc'), pt.Int({a}), pt.Int({b}))), pt.Int(1))", 2, "Application", [0, 1, 255, 256], [0, 1, 255, 256, 300]),
    ("extract", "pt.Seq(pt.Pop(pt.Extract(pt.Bytes('abc'), pt.Int({a}), pt.Int({b}))), pt.Int(1))", 5, "Application", [0, 1, 255, 256], [0, 1, 255, 256, 300]),
    ("suffix", "pt.Seq(pt.Pop(pt.Suffix(pt.Bytes('abc'), pt.Int({a}))), pt.Int(1))", 2, "Application", [0, 1, 255, 256, 300], [None]),
    ("replace", "pt.Seq(pt.Pop(pt.Replace(pt.Bytes('abcdef'), pt.Int({a}), pt.Bytes('x'))), pt.Int(1))", 7, "Application", [0, 1, 255, 256, 300], [None]),
    ("dynamic-scratch", "pt.Seq(pt.Pop(pt.ScratchVar(pt.TealType.uint64, {a}).index()), pt.Int(1))", 5, "Application", IMM_VALUES, [None]),
]
VERSION_PROBES = [
    ("log-v4", "pt.Seq(pt.Log(pt.Bytes('x')), pt.Int(1))", 4, "Application"),
    ("log-signature", "pt.Seq(pt.Log(pt.Bytes('x')), pt.Int(1))", 6, "Signature"),
    ("global-caller-v5", "pt.Seq(pt.Pop(pt.Global.caller_app_id()), pt.Int(1))", 5, "Application"),
]


ENDINGS = ["elseif-open", "nested-open", "if-then-only", "if-else-both", "cond-all-return", "cond-one-return", "while-last", "for-last", "assert-last", "seq-empty", "elseif3-open",
           "if-in-seq-open", "comment-open"]


def ending_probe(job):
    """A routine that ENDS in the given control-flow shape (all of whose branches return): either rejected with a PyTeal error or every path
    of the emitted TEAL ends in return / retsub / err - nothing runs off the end or falls through into the next subroutine."""
    ending, place, version = job
    from vf.core import use_repo
    use_repo()
    import pyteal as pt
    from spec import tealcheck
    out = {"job": list(job), "problem": None, "accepted": False}
    c1, c2, c3 = pt.Txn.fee() > pt.Int(1), pt.Txn.fee() > pt.Int(2), pt.Txn.fee() > pt.Int(3)

    def shape(R):
        if ending == "elseif-open":
            return pt.If(c1).Then(R()).ElseIf(c2).Then(R())
        if ending == "elseif3-open":
            return pt.If(c1).Then(R()).ElseIf(c2).Then(R()).ElseIf(c3).Then(R())
        if ending == "nested-open":
            return pt.If(c1, R(), pt.If(c2, R()))
        if ending == "if-then-only":
            return pt.If(c1).Then(R())
        if ending == "if-else-both":
            return pt.If(c1).Then(R()).Else(R())
        if ending == "cond-all-return":
            return pt.Cond([c1, R()], [c2, R()])
        if ending == "cond-one-return":
            return pt.Cond([c1, R()], [c2, pt.Pop(pt.Int(1))])
        if ending == "while-last":
            return pt.While(c1).Do(pt.If(c2).Then(R()).Else(pt.Break()))
        if ending == "for-last":
            i = pt.ScratchVar(pt.TealType.uint64)
            return pt.For(i.store(pt.Int(0)), i.load() < pt.Int(2), i.store(i.load() + pt.Int(1))).Do(pt.If(c2).Then(R()))
        if ending == "assert-last":
            return pt.Assert(c1)
        if ending == "seq-empty":
            return pt.Seq()
        if ending == "if-in-seq-open":
            return pt.Seq(pt.Pop(pt.Int(5)), pt.If(c1).Then(R()).ElseIf(c2).Then(R()))
        if ending == "comment-open":
            return pt.Comment("tail", pt.If(c1).Then(R()).ElseIf(c2).Then(R()))
        raise ValueError(ending)
    try:
        if place == "main":
            prog = pt.Seq(pt.Pop(pt.Int(7)), shape(lambda: pt.Return(pt.Int(1))))
        else:
            @pt.Subroutine(pt.TealType.none)
            def guard():
                return pt.Seq(pt.Pop(pt.Int(7)), shape(lambda: pt.Return()))

            @pt.Subroutine(pt.TealType.none)
            def wipe():
                return pt.App.globalDel(pt.Bytes("owner"))
            prog = pt.Seq(guard(), pt.If(c3).Then(wipe()), pt.Approve()) if place == "sub-then-other" else pt.Seq(pt.If(c3).Then(wipe()), guard(), pt.Approve())
        teal = pt.compileTeal(prog, pt.Mode.Application, version=version)
    except Exception as ex:
        if type(ex).__name__ not in e2e.PYTEAL_ERRORS:
            out["problem"] = f"crash {type(ex).__name__}: {str(ex)[:160]}"
        return out
    out["accepted"] = True
    pr = tealcheck.validate(teal, version, "Application", stack=False)
    if pr:
        out["problem"] = f"illegal TEAL: {pr[:2]}"
        out["teal"] = teal
    return out


def many_constants_text(job):
    """programs with n distinct repeated int / byte constants, assembled: the text must stay legal (block indices are uint8 immediates)"""
    kind, n, version = job
    from .e2e import with_big_stack

    def work(_):
        from vf.core import use_repo
        use_repo()
        import pyteal as pt
        from spec import tealcheck
        out = {"job": list(job), "problem": None}
        try:
            if kind == "ints":
                body = [pt.Pop(pt.Int(1000 + i) + pt.Int(1000 + i)) for i in range(n)]
            else:
                body = [pt.Pop(pt.Concat(pt.Bytes(bytes([i % 256, i // 256, 9])), pt.Bytes(bytes([i % 256, i // 256, 9])))) for i in range(n)]
            teal = pt.compileTeal(pt.Seq(*body, pt.Approve()), pt.Mode.Application, version=version, assembleConstants=True)
        except (pt.TealInputError, pt.TealInternalError, pt.TealCompileError):
            return out
        except RecursionError:
            return out
        pr = tealcheck.validate(teal, version, "Application", stack=False)
        if pr:
            out["problem"] = f"{n} repeated {kind} constants at v{version} with assembleConstants: {pr[:2]}"
        return out
    return with_big_stack(work, None)


def ending_jobs(tier):
    versions = (4, 6, 10) if tier == "quick" else (4, 5, 6, 7, 8, 9, 10)
    return [(e, p, v) for e in ENDINGS for p in ("main", "sub-then-other", "other-then-sub") for v in versions]


def all_probes(tier):
    out = list(VERSION_PROBES)
    for name, tpl, v0, mode, da, db in IMM_TEMPLATES:
        versions = sorted({v0, max(v0, 6), 10}) if tier == "quick" else list(range(v0, 11))
        for a in da:
            for b in db:
                for v in versions:
                    out.append((f"{name}[{a},{b}]@v{v}", tpl.format(a=a, b=b), v, mode))
    return out


def run(report: Report, tier, seed):
    report.trust("spec/langspec.py (opcode and field tables written from the AVM specification)",
                 "spec/tealcheck.py (assembler-level structural checks, control-flow closure)")
    report.assume("the independent langspec is hand-written (A); disagreements are adjudicated by hand",
                  "label uniqueness / placeholder elimination / terminators are checked per generated program (bounded), not yet by contracts on flattenBlocks / resolveSubroutines")
    op_table(report)
    run_contracts(report, [("contracts.c04_verify", "VerifyOpsForVersion", "O4.1a"), ("contracts.c04_verify", "VerifyOpsForMode", "O4.1b"),
                           ("contracts.c04_verify", "VerifyProgramVersion", "O4.1c"),
                           ("contracts.c01_substring", "SubstringConst", "O4.8a"), ("contracts.c01_substring", "ExtractConst", "O4.8b"),
                           ("contracts.c01_substring", "SuffixConst", "O4.8c"), ("contracts.c01_flatten", "FlattenBlocks", "O4.5")])
    from . import substring_native
    gn, gp = substring_native.grid([2, 4, 5, 10] if tier == "quick" else range(2, 11))
    report.bounded.append(Bounded(function="Substring / Extract / Suffix with constant indices", contract="legal immediates; documented window / failure on the spec AVM",
                                  bound="start, end/length in {0,1,2,100,254..257,299..301,511,512,70000}^2 x versions", cases=gn, distinct_nontrivial=gn, failures=len(gp)))
    n = 100 if tier == "quick" else 1200
    specs = []
    for i in range(n):
        v = [2, 3, 4, 5, 6, 7, 8, 9, 10][i % 9]
        specs.append({"seed": seed * 100003 + 41000 + i, "version": v, "mode": "Signature" if i % 5 == 4 else "Application",
                      "options": [{}] + ([{"frame_pointers": False}] if v >= 8 else []), "features": {"recursion": i % 2 == 0}})
        if i % 4 == 0 and v > 2:
            # a program generated for a newer version compiled for an older one: must be rejected or legal
            specs.append({"seed": seed * 100003 + 41000 + i, "gen_version": v, "version": v - 1 - (i % 2),
                          "mode": specs[-1]["mode"], "options": [{}]})
            if specs[-1]["version"] < 2:
                specs.pop()
    with ProcessPoolExecutor(max_workers=16) as ex:
        res = list(ex.map(_validate, specs, chunksize=4))
    bad = [(s, r) for s, r in zip(specs, res) if r["problems"]]
    report.bounded.append(Bounded(function="pyteal.compileTeal output text", contract="#pragma first; ops/immediates legal at version+mode; labels unique and defined; no placeholder; every path ends in return/retsub/err; no fall-through into a routine",
                                  bound=f"{len(specs)} generated programs (seed {seed}), incl. programs compiled below the version they were generated for, with/without assembleConstants",
                                  cases=sum(r["n"] for r in res), distinct_nontrivial=len(specs), failures=len(bad)))
    PROBES = all_probes(tier)
    with ProcessPoolExecutor(max_workers=16) as ex:
        pr = list(ex.map(_probe, PROBES, chunksize=16))
    pbad = [(name, p, t) for name, p, t in pr if p not in ("rejected",) and p]
    report.bounded.append(Bounded(function="immediate-range / version probes", contract="rejected with a PyTeal error or emitted legally",
                                  bound=f"{len(IMM_TEMPLATES)} constructs with numeric immediates x boundary values {IMM_VALUES} (and a run-time operand where accepted) x versions; {len(VERSION_PROBES)} version probes",
                                  cases=len(PROBES), distinct_nontrivial=sum(1 for _, p, _t in pr if p != "rejected"), failures=len(pbad)))
    mj = [(k, n, v) for k in ("ints", "bytes") for n in (255, 256, 257, 258, 300) for v in (3, 10)]
    with ProcessPoolExecutor(max_workers=16) as ex:
        mr = list(ex.map(many_constants_text, mj))
    mbad = [r for r in mr if r["problem"]]
    report.bounded.append(Bounded(function="compileTeal(assembleConstants=True) with 255..300 distinct repeated constants", contract="the emitted text is legal (constant-block indices fit a byte)",
                                  bound=f"{len(mj)} (kind, count, version) settings", cases=len(mr), distinct_nontrivial=len(mr), failures=len(mbad)))
    for b in mbad[:2]:
        report.violation(Violation(key=f"many-constants:{b['job'][0]}", what=b["problem"][:400], replay={"kind": "many-constants", "job": b["job"]}, confirmed_native=True))
    ej = ending_jobs(tier)
    with ProcessPoolExecutor(max_workers=16) as ex:
        er = list(ex.map(ending_probe, ej, chunksize=8))
    ebad = [r for r in er if r["problem"]]
    report.bounded.append(Bounded(function="routines ending in a given control-flow shape", contract="rejected with a PyTeal error, or no path of the emitted TEAL runs off the end / falls through into another routine",
                                  bound=f"{len(ENDINGS)} ending shapes (open If/ElseIf chains of returns, Cond, loops, Assert, empty Seq, ...) x main routine / subroutine followed by or following another x versions",
                                  cases=len(er), distinct_nontrivial=sum(1 for r in er if r["accepted"]), failures=len(ebad)))
    for b in ebad[:2]:
        report.violation(Violation(key=f"ending:{b['job'][0]}:{b['job'][1]}", what=f"routine ending {b['job']}: {b['problem']}"[:400], replay={"kind": "ending", "job": b["job"], "teal": b.get("teal")}, confirmed_native=True))
    report.extra["explanation"] = "E: Op/TxnField/GlobalField tables vs langspec; P: verifyOpsForVersion/Mode/ProgramVersion (pyvc); B: structural validation of generated programs and probes"
    def search(fn, obs):
        if "substring" in fn:
            for o in obs:
                hit = substring_native.from_model(fn, o.model if isinstance(o.model, dict) else None)
                if hit:
                    return hit
            return {"input": {"grid": True}, "what": gp[0]} if gp else None
        return None
    report.settle_undecided(search)
    report.settle_refuted(search)
    if gp and not any("substring" in v.what.lower() or "extract" in v.what.lower() or "suffix" in v.what.lower() for v in report.violations):
        report.violation(Violation(key=f"substring-grid:{gp[0][:60]}", what=gp[0], replay={"kind": "grid", "problem": gp[0]}, confirmed_native=True))
    for s, r in bad[:2]:
        report.violation(Violation(key=f"tealcheck:{s['seed']}:{s['version']}", what=f"illegal TEAL emitted: {r['problems'][0]['problems'][:2]}",
                                   replay={"kind": "generated", "spec": s, "problems": r["problems"][:1]}, confirmed_native=True))
    for name, p, t in pbad[:3]:
        report.violation(Violation(key=f"probe:{name}", what=f"probe {name}: {p if isinstance(p, str) else p[:2]}",
                                   replay={"kind": "probe", "name": name, "teal": t}, confirmed_native=True))


def replay(data):
    r = data["replay"]
    if r.get("kind") == "probe":
        job = [p for p in all_probes("thorough") if p[0] == r["name"]][0]
        out = _probe(job)
        print(out[:2])
        return 1 if (out[1] not in ("rejected",) and out[1]) else 0
    if r.get("kind") == "many-constants":
        out = many_constants_text(tuple(r["job"]))
        print(out["problem"])
        return 1 if out["problem"] else 0
    if r.get("kind") == "ending":
        out = ending_probe(tuple(r["job"]))
        print(out["problem"])
        return 1 if out["problem"] else 0
    if r.get("kind") == "generated":
        out = _validate(r["spec"])
        print(out["problems"][:1])
        return 1 if out["problems"] else 0
    print("refuted obligations:", [x["id"] for x in r.get("refuted", [])])
    return 1
