"""Run fragcheck scenarios (fragment contracts of the real __teal__ methods) and record them as obligations."""
from __future__ import annotations

import os
import traceback
from concurrent.futures import ProcessPoolExecutor

from vf.core import Ob, Report

_CAT = None


def _cat():
    global _CAT
    if _CAT is None:
        from vf.core import use_repo
        use_repo()
        from fragcheck import scenarios
        _CAT = scenarios.catalogue()
    return _CAT


def _one(job):
    idx, v, mode = job
    try:
        from fragcheck import scenarios
        sc = _cat()[idx]
        r = scenarios.run_instance(sc, v, mode)
        r["cls"] = sc.cls
        return r
    except Exception:
        return {"scenario": f"#{idx}", "version": v, "mode": mode, "crash": traceback.format_exc()[-1200:], "mismatches": [],
                "queries": 0, "skipped": None, "cls": "?"}


_CANARY_DONE = False


def _canary():
    """Before fragment verdicts are used: the comparison must accept the right term for a real fragment and reject wrong ones
    (wrong opcode, operands in the other order, the two arms of an If exchanged, an operand evaluated twice)."""
    global _CANARY_DONE
    if _CANARY_DONE:
        return
    from vf.core import use_repo
    use_repo()
    import pyteal as pt
    from fragcheck import scenarios as sc
    from fragcheck.scenarios import Scenario, SEQ, C, OP

    def minus(term):
        def build(env, v, mode):
            x, cx = env.child("u")
            y, cy = env.child("u")
            return {"expr": pt.Minus(x, y), "term": term(cx, cy), "expect_error": None}
        return Scenario("canary/minus", "BinaryExpr", build)

    def if_(swap):
        def build(env, v, mode):
            c, cc = env.child("u")
            a, ca = env.child("u")
            b, cb = env.child("u")
            return {"expr": pt.If(c, a, b), "term": SEQ(C(cc), ("ifnz", C(cb if swap else ca), C(ca if swap else cb))), "expect_error": None}
        return Scenario("canary/if", "If", build)
    good = [minus(lambda cx, cy: SEQ(C(cx), C(cy), OP("-"))), if_(False)]
    bad = [minus(lambda cx, cy: SEQ(C(cx), C(cy), OP("+"))), minus(lambda cx, cy: SEQ(C(cy), C(cx), OP("-"))),
           minus(lambda cx, cy: SEQ(C(cx), C(cx), C(cy), OP("-"))), if_(True)]
    for g in good:
        r = sc.run_instance(g, 6, "Application")
        if r["mismatches"] or r.get("skipped") or not r["queries"]:
            raise RuntimeError(f"fragcheck canary: the right term for {g.name} is not accepted: {r}")
    for b in bad:
        r = sc.run_instance(b, 6, "Application")
        if not r["mismatches"]:
            raise RuntimeError(f"fragcheck canary: a wrong term for {b.name} is accepted: {r}")
    _CANARY_DONE = True


def run_fragcheck(report: Report, oid: str, classes=None, tier="quick"):
    _canary()
    cat = _cat()
    jobs = []
    for i, sc in enumerate(cat):
        if classes is not None and sc.cls not in classes:
            continue
        for v in sc.versions:
            for m in sc.modes:
                jobs.append((i, v, m))
    if os.environ.get("VERIF_SERIAL"):
        results = [_one(j) for j in jobs]
    else:
        with ProcessPoolExecutor(max_workers=16) as ex:
            results = list(ex.map(_one, jobs, chunksize=8))
    import pyteal
    nq = 0
    for r in results:
        nq += r.get("queries", 0)
        oid_full = f"{oid}/{r['scenario']}@v{r['version']}/{r['mode']}"
        fn = f"pyteal.{r['cls']}.__teal__"
        if r.get("crash"):
            report.ob(Ob(id=oid_full, function=fn, kind="P", status="error", detail="fragcheck crash", model=r["crash"]))
            continue
        if r.get("skipped"):
            continue
        mm = r["mismatches"]
        if any(m.startswith("UNKNOWN") or "UNKNOWN" in m for m in mm) and not [m for m in mm if "UNKNOWN" not in m]:
            status = "unknown"
        else:
            status = "refuted" if mm else "discharged"
        report.ob(Ob(id=oid_full, function=fn, kind="P", status=status, backend="z3-5.1 (fragcheck)",
                     detail=("fragment of the real __teal__ on opaque children == documented meaning, for all run-time states"
                             + (" [rejected at this version as documented]" if r.get("rejected") else "")),
                     model=mm[:4] if mm else None))
    report.extra.setdefault("fragcheck", {})[oid] = {"instances": len(results), "smt_queries": nq}
    return results
