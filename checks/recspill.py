"""Bounded stand-in for the recursion spill pass (compiler/subroutines.py spillLocalSlotsDuringRecursion) at EVERY version that has
subroutines (4..10; version 4 restores the spilled slots with `dig`, later versions with `uncover`) - C20 (and behaviour, C02 shape):

  arity     : 0 (the counter lives in a shared slot) | 1 | 2 | 3 arguments
  result    : uint64 | none (result through a shared slot)
  locals    : 0 | 1 | 2 routine-local ScratchVars written before the re-entrant call and read after it
  recursion : the routine calls itself | two routines of that form call each other
  settings  : default | scratch_slots=True | frame_pointers=False (v8+)

  F(n) = 1 if n == 0 else F(n-1) + addend(n),   addend(n) = 7 (no local) | 3n+1+E (one) | 3n+1+E + n+5 (two),  E = sum of the extra arguments

Oracle: compileTeal returns TEAL or raises a PyTeal error type (anything else is a crash); an accepted program approves exactly when
handed F(depth) as its second argument.
"""
import itertools

ARITIES = (0, 1, 2, 3)
DEPTHS = (0, 1, 3)


def ref(n, nlocals, extra):
    if n == 0:
        return 1
    add = 7 if nlocals == 0 else (3 * n + 1 + extra) + ((n + 5) if nlocals == 2 else 0)
    return ref(n - 1, nlocals, extra) + add


def build(pt, arity, ret, nlocals, mutual):
    cnt = pt.ScratchVar(pt.TealType.uint64)
    g = pt.ScratchVar(pt.TealType.uint64)
    subs = {}
    extras = [pt.Int(i + 1) for i in range(max(arity - 1, 0))]

    def call(which, args):
        f = subs[which]
        return f(*args) if ret == "uint64" else pt.Seq(f(*args), g.load())

    def body(which, args):
        nxt = ("B" if which == "A" else "A") if mutual else "A"
        n = args[0] if arity else cnt.load()
        e = pt.Int(0)
        for a in args[1:]:
            e = e + a
        keep, read = [], pt.Int(7)
        if nlocals >= 1:
            t1 = pt.ScratchVar(pt.TealType.uint64)
            keep.append(t1.store(n * pt.Int(3) + pt.Int(1) + e))
            read = t1.load()
        if nlocals == 2:
            t2 = pt.ScratchVar(pt.TealType.uint64)
            keep.append(t2.store(n + pt.Int(5)))
            read = read + t2.load()
        if arity:
            rec = call(nxt, [n - pt.Int(1)] + list(args[1:]))
        else:
            rec = pt.Seq(cnt.store(cnt.load() - pt.Int(1)), call(nxt, []))
        value = pt.If(n == pt.Int(0), pt.Int(1), rec + read)
        return pt.Seq(*keep, value if ret == "uint64" else g.store(value))

    def define(which):
        if arity == 0:
            def f():
                return body(which, [])
        elif arity == 1:
            def f(n):
                return body(which, [n])
        elif arity == 2:
            def f(n, a):
                return body(which, [n, a])
        else:
            def f(n, a, b):
                return body(which, [n, a, b])
        f.__name__ = which
        return pt.Subroutine(pt.TealType.uint64 if ret == "uint64" else pt.TealType.none)(f)
    subs["A"] = define("A")
    if mutual:
        subs["B"] = define("B")
    depth = pt.Btoi(pt.Txn.application_args[0])
    start = call("A", [depth] + extras) if arity else pt.Seq(cnt.store(depth), call("A", []))
    return pt.Return(start == pt.Btoi(pt.Txn.application_args[1]))


def jobs(tier):
    return list(itertools.product(ARITIES, ("uint64", "none"), (0, 1, 2), (False, True)))


def settings(version):
    s = [(None, None), (True, None)]
    if version >= 8:
        s.append((None, False))
    return s


def case(job):
    arity, ret, nlocals, mutual = job
    from vf.core import use_repo
    use_repo()
    import pyteal as pt
    from spec import avm
    out = {"job": list(job), "crash": None, "problems": [], "ran": 0, "rejected": 0}
    own = (pt.TealInputError, pt.TealCompileError, pt.TealTypeError, pt.TealInternalError)
    extra = sum(range(1, arity)) if arity else 0
    for version in range(4, 11):
        for ss, fp in settings(version):
            try:
                teal = pt.compileTeal(build(pt, arity, ret, nlocals, mutual), pt.Mode.Application, version=version, optimize=pt.OptimizeOptions(scratch_slots=ss, frame_pointers=fp))
            except own:
                out["rejected"] += 1
                continue
            except Exception as e:
                import traceback
                tb = traceback.extract_tb(e.__traceback__)
                where = next((f"{f.filename.split('/pyteal/', 1)[-1]}:{f.name}" for f in reversed(tb) if "/pyteal/" in f.filename), "?")
                out["crash"] = {"type": type(e).__name__, "message": str(e)[:160], "where": where, "version": version, "setting": [ss, fp]}
                return out
            for depth in DEPTHS:
                want = ref(depth, nlocals, extra)
                for claim, verdict in ((want, "approve"), (want + 1, "reject")):
                    try:
                        r = avm.run(teal, avm.Ctx(txn={"ApplicationArgs": [depth.to_bytes(8, "big"), claim.to_bytes(8, "big")]}))
                    except avm.Unsupported:
                        continue
                    out["ran"] += 1
                    if r.verdict != verdict:
                        out["problems"].append({"version": version, "setting": [ss, fp], "depth": depth,
                                                "what": f"F({depth}) is {want}; asked whether it is {claim} the program says {r.verdict} ({r.detail})", "teal": teal})
                        break
            if len(out["problems"]) > 3:
                return out
    return out
