"""E obligations for the argument-decoding glue of routed methods (property C09): the real
ASTBuilder.__decode_constructions_and_args is run for EVERY arity in a range (0..40 plain arguments x 0..4 transaction
arguments x with / without an output x scratch / frame-pointer flavour) on real ABI values, and the instruction list it returns
is compared structurally with the ARC-4 calling convention:

  * plain argument i (0-based among the non-transaction arguments) is decoded from ApplicationArgs[i + 1] - exactly the
    expression  arg.decode(Txn.application_args[i + 1])  - for i < 14, and for i = 14 when there are at most 15 of them
  * with more than 15, one tuple value is decoded from ApplicationArgs[15] and arguments 14.. are filled from its elements
    0.. in order (one store_into each, element index = i - 14)
  * transaction argument j of t is bound to group index  Txn.group_index() - (t - j); a specific transaction type is
    followed by an assertion on that transaction's type enum, the generic `txn` type by none
  * the order is: plain decodes, transaction bindings, de-tupling
The values are opaque (the expressions are compared as trees, no value is chosen), the arity range is enumerated: exhaustive
within the stated bound.
"""
import itertools
import re

APP_TYPES = ["Uint64", "String", "Bool", "Address", "Uint8", "DynamicBytes"]
TXN_TYPES = ["PaymentTransaction", "Transaction", "AssetTransferTransaction", "ApplicationCallTransaction"]


def case(job):
    a, t, with_out, fp = job
    from vf.core import use_repo
    use_repo()
    import pyteal as pt
    from pyteal import abi
    from pyteal.ast.router import ASTBuilder
    out = {"job": list(job), "problems": []}
    try:
        f = ASTBuilder._ASTBuilder__decode_constructions_and_args

        @pt.ABIReturnSubroutine
        def h_out(*, output: abi.Uint64):
            return output.set(pt.Int(1))

        @pt.ABIReturnSubroutine
        def h_void():
            return pt.Seq()
        app = [getattr(abi, APP_TYPES[i % len(APP_TYPES)])() for i in range(a)]
        txn = [getattr(abi, TXN_TYPES[j % len(TXN_TYPES)])() for j in range(t)]
        # declaration order: transaction arguments interleaved with the plain ones
        order, ai, ti = [], 0, 0
        while ai < a or ti < t:
            if ti < t and (ti * 3 <= ai or ai >= a):
                order.append(txn[ti]); ti += 1
            else:
                order.append(app[ai]); ai += 1
        ins, vals, proto = f(order, list(app), list(txn), h_out if with_out else h_void, fp)
        if vals is not order and list(vals) != order:
            out["problems"].append("returned argument list differs from the declared arguments")
        got = [str(x) for x in ins]
        n_head = a if a <= 15 else 14
        k = 0
        # plain decodes
        for i in range(n_head):
            want = str(app[i].decode(pt.Txn.application_args[i + 1]))
            if k >= len(got) or got[k] != want:
                out["problems"].append(f"plain argument {i}: expected {want[:90]}, got {(got[k] if k < len(got) else None)!r:.90}")
                return out
            k += 1
        if a > 15:
            if k >= len(got) or "(Txna ApplicationArgs 15)" not in got[k] or len(re.findall(r"ApplicationArgs \d+", got[k])) != 1:
                out["problems"].append(f"tuple of arguments 15..: expected one decode from ApplicationArgs 15, got {(got[k] if k < len(got) else None)!r:.120}")
                return out
            k += 1
        # transaction bindings
        for j in range(t):
            want = str(txn[j]._set_index(pt.Txn.group_index() - pt.Int(t - j)))
            if k >= len(got) or got[k] != want:
                out["problems"].append(f"transaction argument {j} of {t}: expected {want[:100]}, got {(got[k] if k < len(got) else None)!r:.100}")
                return out
            k += 1
            spec = txn[j].type_spec()
            if type(spec) is not abi.TransactionTypeSpec:
                x = ins[k] if k < len(ins) else None
                ok = isinstance(x, pt.Assert) and len(x.cond) == 1 and str(x.cond[0]) == str(txn[j].get().type_enum() == spec.txn_type_enum())
                if not ok:
                    out["problems"].append(f"transaction argument {j} ({spec}): expected a type-enum assertion, got {str(x)[:100]}")
                    return out
                k += 1
        # de-tupling
        if a > 15:
            for idx in range(a - 14):
                s = got[k] if k < len(got) else ""
                # element idx of the tuple is stored into plain argument 14 + idx: the store target is that argument's storage cell
                if k >= len(got):
                    out["problems"].append(f"de-tupling of argument {14 + idx} missing")
                    return out
                cell = str(app[14 + idx]._stored_value.load())
                m1, m2 = re.search(r"slot#\d+", cell), re.search(r"dig_from = (-?\d+)", cell)
                ok = (m1 is not None and s.startswith(f"(Store {m1.group(0)} ")) or (m2 is not None and f"bury_to = {m2.group(1)})" in s.split("(", 2)[1] + ")")
                if m2 is not None:
                    ok = s.startswith(f"(frame_bury (bury_to = {m2.group(1)})")
                if not ok:
                    out["problems"].append(f"de-tupling step {idx} does not store into argument {14 + idx} ({cell}): {s[:120]}")
                    return out
                k += 1
        if k != len(got):
            out["problems"].append(f"{len(got) - k} unexpected extra instruction(s): {got[k][:100]}")
        if fp and proto is None or (not fp and proto is not None):
            out["problems"].append("frame prototype present / absent against the requested flavour")
    except Exception as e:
        out["problems"].append(f"exception {type(e).__name__}: {str(e)[:200]}")
    return out


def jobs(tier):
    amax = 40 if tier != "quick" else 24
    return [(a, t, o, fp) for a in range(0, amax + 1) for t in range(0, 5) for o in (False, True) for fp in (False, True)]
