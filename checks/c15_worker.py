"""Worker of the C15 check (separate process: the source-map feature gate must be set before pyteal is imported)."""
import json
import os
import sys
import tempfile
import importlib.util

VERIF = os.path.dirname(os.path.dirname(os.path.abspath(__file__)))
sys.path.insert(0, VERIF)


def spec_vlq_encode(vals):
    """Base64 VLQ per the Source Map Revision 3 proposal (independent implementation)."""
    A = "ABCDEFGHIJKLMNOPQRSTUVWXYZabcdefghijklmnopqrstuvwxyz0123456789+/"
    out = ""
    for v in vals:
        x = (-v << 1) | 1 if v < 0 else v << 1
        while True:
            d = x & 31
            x >>= 5
            if x:
                d |= 32
            out += A[d]
            if not x:
                break
    return out


def spec_vlq_decode(s):
    A = "ABCDEFGHIJKLMNOPQRSTUVWXYZabcdefghijklmnopqrstuvwxyz0123456789+/"
    vals, cur, shift = [], 0, 0
    for ch in s:
        d = A.index(ch)
        cur |= (d & 31) << shift
        shift += 5
        if not d & 32:
            vals.append(-(cur >> 1) if cur & 1 else cur >> 1)
            cur = shift = 0
    return vals


def spec_decode_r3(js):
    """Independent decoder of a Revision-3 source map JSON -> {(target line, target column): (source file, source line, source column)}"""
    out = {}
    src = sline = scol = 0
    for gline, group in enumerate(js["mappings"].split(";")):
        gcol = 0
        if not group:
            continue
        for seg in group.split(","):
            f = spec_vlq_decode(seg)
            gcol += f[0]
            if len(f) >= 4:
                src += f[1]
                sline += f[2]
                scol += f[3]
                out[(gline, gcol)] = (js["sources"][src], sline, scol)
            else:
                out[(gline, gcol)] = (None, None, None)
    return out


def main():
    job = json.loads(sys.argv[1])
    sys.path.insert(0, job["repo"])
    from feature_gates import FeatureGates
    FeatureGates.set_sourcemap_enabled(True)
    import pyteal as pt
    from pyteal.compiler import sourcemap as SM
    from pyteal.compiler.compiler import Compilation
    from spec import progsem, proggen, avm
    out = {"problems": [], "n": 0, "vlq": 0}
    # ---- VLQ codec against the independent implementation --------------------------------------------------
    import random
    r = random.Random(job["seed"])
    cases = [[v] for v in range(-job["vlq_range"], job["vlq_range"] + 1)]
    cases += [[r.randrange(-2 ** 40, 2 ** 40) for _ in range(r.randrange(1, 6))] for _ in range(2000)]
    cases += [[0], [-1, 1], [15, 16, -15, -16, 31, 32, -32, 1023, 1024, 2 ** 31, -2 ** 31, 2 ** 63]]
    for vals in cases:
        out["vlq"] += 1
        try:
            e = SM._base64vlq_encode(*vals)
            d = SM._base64vlq_decode(e)
            if e != spec_vlq_encode(vals) or d != vals or SM._base64vlq_decode(spec_vlq_encode(vals)) != vals:
                out["problems"].append(f"VLQ {vals[:4]}: encode {e!r} (spec {spec_vlq_encode(vals)!r}), decode {d[:4]}")
                break
        except Exception as ex:
            out["problems"].append(f"VLQ {vals[:4]}: {type(ex).__name__}: {ex}")
            break
    # ---- programs -------------------------------------------------------------------------------------------------
    tmpdir = tempfile.mkdtemp(prefix="c15_")
    for item in job["items"]:
        seed, version = item
        try:
            prog = proggen.gen_prog(seed, version=version, features={"recursion": False})
            plain = pt.compileTeal(progsem.build(prog), pt.Mode.Application, version=version)
        except Exception:
            continue
        try:
            comp = Compilation(progsem.build(prog), pt.Mode.Application, version=version)
            res = comp.compile(with_sourcemap=True, teal_filename="p.teal", annotate_teal=True, annotate_teal_headers=False, annotate_teal_concise=True)
        except Exception as ex:
            out["problems"].append(f"seed {seed} v{version}: compile with source map raised {type(ex).__name__}: {str(ex)[:200]}")
            continue
        out["n"] += 1
        if res.teal != plain:
            out["problems"].append(f"seed {seed} v{version}: TEAL differs when a source map is requested")
            continue
        sm = res.sourcemap
        r3 = sm.r3_sourcemap
        lines = plain.split("\n")
        ent = sorted(r3.entries.keys())
        if [l for l, c in ent] != list(range(len(lines))):
            out["problems"].append(f"seed {seed} v{version}: map has {len(ent)} entries for {len(lines)} TEAL lines (or not one per line in order)")
            continue
        for (l, c), m in r3.entries.items():
            if m.source is None or not os.path.exists(m.source):
                out["problems"].append(f"seed {seed}: entry for TEAL line {l} points at missing file {m.source}")
                break
            with open(m.source) as f:
                nl = sum(1 for _ in f)
            if m.source_line is None or not (0 <= m.source_line < nl):
                out["problems"].append(f"seed {seed}: entry for TEAL line {l} points at line {m.source_line} of {m.source} ({nl} lines)")
                break
        # JSON round trip
        js = r3.to_json()
        try:
            back = SM.R3SourceMap.from_json(js, target=plain)
        except Exception as ex:
            out["problems"].append(f"seed {seed} v{version}: R3SourceMap.from_json raised {type(ex).__name__} on the map's own JSON: {str(ex)[:160]}")
            continue
        a = {k: (v.source, v.source_line, v.source_column) for k, v in r3.entries.items()}
        b = {k: (v.source, v.source_line, v.source_column) for k, v in back.entries.items()}
        if a != b:
            out["problems"].append(f"seed {seed} v{version}: Revision-3 JSON does not decode back to the same associations")
        c = spec_decode_r3(js)
        if a != c:
            k = next((k for k in a if a.get(k) != c.get(k)), None)
            out["problems"].append(f"seed {seed} v{version}: Revision-3 JSON decoded by an independent decoder differs from the map at TEAL position {k}: {a.get(k)} vs {c.get(k)}")
        # annotated teal minus comments
        ann = sm.annotated_teal or ""
        stripped = []
        try:
            for line in ann.split("\n") + lines:
                avm.tokenize_line(line)
        except ValueError as ex:
            out["problems"].append(f"seed {seed} v{version}: TEAL line does not lex: {ex}")
            continue
        for line in ann.split("\n"):
            toks = avm.tokenize_line(line) if not line.lstrip().startswith("#pragma") else [[line.split("//")[0].strip()]]
            stripped.append(" ".join(" ".join(t) for t in toks))
        want = []
        for line in lines:
            toks = avm.tokenize_line(line) if not line.lstrip().startswith("#pragma") else [[line.strip()]]
            want.append(" ".join(" ".join(t) for t in toks))
        if [s for s in stripped] != [w for w in want]:
            i = next((k for k, (x, y) in enumerate(zip(stripped, want)) if x != y), -1)
            out["problems"].append(f"seed {seed} v{version}: annotated TEAL without comments differs from the plain TEAL at line {i}: {stripped[i:i+1]} vs {want[i:i+1]}")
    # ---- Router.compile: the same program with / without source maps, and the same as compile_program ----------------------------------
    try:
        from pyteal import abi

        def mk_router():
            router = pt.Router("r15", pt.BareCallActions(no_op=pt.OnCompleteAction.create_only(pt.Approve()), opt_in=pt.OnCompleteAction.call_only(pt.Seq(pt.Log(pt.Bytes("o"))))),
                               clear_state=pt.Approve())

            @router.method
            def add(a: abi.Uint64, b: abi.Uint64, *, output: abi.Uint64):
                return output.set(a.get() + b.get())

            @router.method(no_op=pt.CallConfig.CALL, opt_in=pt.CallConfig.ALL)
            def note(s: abi.String):
                return pt.Log(s.get())
            return router
        for ver in (6, 8, 10):
            ra = mk_router().compile(version=ver, with_sourcemaps=False)
            rb = mk_router().compile(version=ver, with_sourcemaps=True, approval_filename="a.teal", clear_filename="c.teal", annotate_teal=True)
            pa, pc, _ = mk_router().compile_program(version=ver)
            out["n"] += 1
            if (ra.approval_teal, ra.clear_teal) != (rb.approval_teal, rb.clear_teal):
                out["problems"].append(f"Router.compile v{ver}: approval / clear-state TEAL differ when source maps are requested")
            if (ra.approval_teal, ra.clear_teal) != (pa, pc):
                out["problems"].append(f"Router.compile v{ver}: TEAL differs from Router.compile_program")
            for nm, teal, smap in (("approval", rb.approval_teal, rb.approval_sourcemap), ("clear", rb.clear_teal, rb.clear_sourcemap)):
                if smap is None:
                    out["problems"].append(f"Router.compile v{ver}: no {nm} source map although requested")
                    continue
                ent = sorted(smap.r3_sourcemap.entries.keys())
                if [l for l, c in ent] != list(range(len(teal.split("\n")))):
                    out["problems"].append(f"Router.compile v{ver}: {nm} map has {len(ent)} entries for {len(teal.split(chr(10)))} TEAL lines")
                ann = smap.annotated_teal or ""
                st = [" ".join(" ".join(t) for t in (avm.tokenize_line(x) if not x.lstrip().startswith("#pragma") else [[x.split("//")[0].strip()]])) for x in ann.split("\n")]
                wt = [" ".join(" ".join(t) for t in (avm.tokenize_line(x) if not x.lstrip().startswith("#pragma") else [[x.strip()]])) for x in teal.split("\n")]
                if st != wt:
                    out["problems"].append(f"Router.compile v{ver}: annotated {nm} TEAL without comments differs from the plain TEAL")
    except Exception as ex:
        out["problems"].append(f"Router.compile scenario raised {type(ex).__name__}: {str(ex)[:200]}")
    # ---- attribution of constants to (file, line) ---------------------------------------------------------------------
    src = os.path.join(tmpdir, "usermod.py")
    consts = [900001 + 7 * i for i in range(12)]
    body = ["import pyteal as pt", "", "def program():", "    return pt.Seq("]
    line_of = {}
    for i, c in enumerate(consts):
        if i % 3 == 0:
            body.append(f"        pt.Pop(pt.Int({c})),")
            line_of[c] = len(body)
        elif i % 3 == 1:
            body.append("        pt.Pop(")
            body.append(f"            pt.Int({c}) + pt.Int(1)")
            line_of[c] = len(body)
            body.append("        ),")
        else:
            body.append(f"        pt.If(pt.Int(1)).Then(pt.Pop(pt.Int({c}))),")
            line_of[c] = len(body)
    # named constants that exist before the user's statement is written (module-level OnComplete / TxnType objects), as the FIRST thing their
    # statement pushes, each on its own line after an unrelated statement
    enum_line = {}
    for text, teal_tok in (("pt.Pop(pt.OnComplete.DeleteApplication == pt.Txn.on_completion()),", "int DeleteApplication"),
                           ("pt.Pop(pt.TxnType.AssetTransfer == pt.Txn.type_enum()),", "int axfer"),
                           ("pt.Seq(pt.InnerTxnBuilder.Begin(), pt.InnerTxnBuilder.SetField(pt.TxnField.on_completion, pt.OnComplete.OptIn)),", "int OptIn")):
        body.append(f"        pt.Pop(pt.Int({555000 + len(enum_line)})),")
        body.append("        " + text)
        enum_line[teal_tok] = len(body)
    body += ["        pt.Approve(),", "    )", ""]
    with open(src, "w") as f:
        f.write("\n".join(body))
    spec = importlib.util.spec_from_file_location("usermod", src)
    mod = importlib.util.module_from_spec(spec)
    spec.loader.exec_module(mod)
    try:
        res = Compilation(mod.program(), pt.Mode.Application, version=8).compile(with_sourcemap=True)
        r3 = res.sourcemap.r3_sourcemap
        tl = res.teal.split("\n")
        dec = spec_decode_r3(r3.to_json())
        for c in consts:
            idx = [i for i, l in enumerate(tl) if l.strip() == f"int {c}"]
            if len(idx) != 1:
                out["problems"].append(f"constant {c} not found exactly once in TEAL")
                continue
            m = r3.entries[(idx[0], 0)]
            if os.path.realpath(m.source or "") != os.path.realpath(src) or m.source_line + 1 != line_of[c]:
                out["problems"].append(f"constant written on {src}:{line_of[c]} is attributed to {m.source}:{(m.source_line or -1) + 1}")
            d = dec.get((idx[0], 0))
            if d is None or os.path.realpath(d[0] or "") != os.path.realpath(src) or d[1] + 1 != line_of[c]:
                out["problems"].append(f"Revision-3 JSON attributes the constant written on {src}:{line_of[c]} to {d}")
        for tok, ln in enum_line.items():
            idx = [i for i, l in enumerate(tl) if l.strip() == tok]
            if len(idx) != 1:
                out["problems"].append(f"named constant {tok!r} not found exactly once in TEAL (harness expectation)")
                continue
            m = r3.entries[(idx[0], 0)]
            if os.path.realpath(m.source or "") != os.path.realpath(src) or m.source_line + 1 != ln:
                out["problems"].append(f"named constant {tok!r} written on {src}:{ln} is attributed to {m.source}:{(m.source_line if m.source_line is not None else -2) + 1}")
        if len(set(v[0] for v in dec.values())) < 2:
            out["problems"].append("attribution scenario did not involve two source files (harness problem)")
        out["n"] += 1
    except Exception as ex:
        out["problems"].append(f"attribution scenario raised {type(ex).__name__}: {str(ex)[:200]}")
    # ---- the same literal on several lines, constants assembled into blocks: every load site keeps its own line ----------
    try:
        src2 = os.path.join(tmpdir, "usermod2.py")
        body = ["import pyteal as pt", "", "def program():", "    return pt.Seq("]
        sites = []      # (marker text in the TEAL comment, source line) in program order
        for i in range(9):
            lit, mark = [("pt.Int(777)", "777"), ("pt.Bytes('dup')", '"dup"'), ("pt.Int(123456)", "123456")][i % 3]
            if i % 2:
                body.append("        pt.Pop(")
                body.append(f"            {lit}")
                sites.append((mark, len(body)))
                body.append("        ),")
            else:
                body.append(f"        pt.Pop({lit}),")
                sites.append((mark, len(body)))
        body += ["        pt.Approve(),", "    )", ""]
        with open(src2, "w") as f:
            f.write("\n".join(body))
        spec2 = importlib.util.spec_from_file_location("usermod2", src2)
        mod2 = importlib.util.module_from_spec(spec2)
        spec2.loader.exec_module(mod2)
        for ver in (4, 8):
            res = Compilation(mod2.program(), pt.Mode.Application, version=ver, assemble_constants=True).compile(with_sourcemap=True)
            r3 = res.sourcemap.r3_sourcemap
            tl = res.teal.split("\n")
            loads = [i for i, l in enumerate(tl) if "//" in l and l.split("//")[0].split()[0] in ("intc", "intc_0", "intc_1", "intc_2", "intc_3", "bytec", "bytec_0", "bytec_1", "bytec_2", "bytec_3", "pushint", "pushbytes")
                     and l.split("//", 1)[1].strip() in ("777", '"dup"', "123456")]
            if len(loads) != len(sites):
                out["problems"].append(f"assembled-constants scenario v{ver}: {len(loads)} constant-load lines for {len(sites)} literals (harness expectation)")
                continue
            for (mark, line), ti in zip(sites, loads):
                if tl[ti].split("//", 1)[1].strip() != mark:
                    out["problems"].append(f"assembled-constants scenario v{ver}: TEAL line {ti} is {tl[ti]!r}, expected a load of {mark}")
                    break
                m = r3.entries.get((ti, 0))
                if m is None or os.path.realpath(m.source or "") != os.path.realpath(src2) or m.source_line + 1 != line:
                    out["problems"].append(f"with assembled constants (v{ver}) the literal {mark} written on usermod2.py:{line} (TEAL line {ti}) is attributed to line {(m.source_line if m else -2) + 1}")
                    break
            out["n"] += 1
    except Exception as ex:
        out["problems"].append(f"assembled-constants attribution scenario raised {type(ex).__name__}: {str(ex)[:200]}")
    import shutil
    shutil.rmtree(tmpdir, ignore_errors=True)
    print("RESULT " + json.dumps(out))


if __name__ == "__main__":
    main()
