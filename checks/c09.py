"""C09 Routed methods receive ARC-4 arguments and log ARC-4 results."""

import random
import traceback
from concurrent.futures import ProcessPoolExecutor

from vf.core import Report, Bounded, Violation, Ob

LEVEL = "other"
ABI_TYPES = ["uint64", "string", "bool", "byte[2]", "(uint8,string)", "address", "uint16[]", "uint8", "bool[3]", "(bool,bool,uint16)"]
TXN_TYPES = {"txn": None, "pay": 1, "keyreg": 2, "acfg": 3, "axfer": 4, "afrz": 5, "appl": 6}
REF_TYPES = ["account", "asset", "application"]


def gen_signature(r: random.Random, big):
    n = r.choice([0, 1, 2, 3, 5]) if not big else r.choice([14, 15, 16, 17, 20])
    params = []
    for _ in range(n):
        c = r.random()
        if c < 0.72:
            params.append(("abi", r.choice(ABI_TYPES)))
        elif c < 0.86:
            params.append(("txn", r.choice(list(TXN_TYPES))))
        else:
            params.append(("ref", r.choice(REF_TYPES)))
    if big and r.random() < 0.6:
        # reference and dynamic parameters inside the tuple that packs the 15th and later arguments, followed by further parameters
        plain = [p for p in params if p[0] != "txn"][:14]
        while len(plain) < 14:
            plain.append(("abi", r.choice(ABI_TYPES)))
        tail = [("ref", r.choice(REF_TYPES)) if r.random() < 0.5 else ("abi", r.choice(ABI_TYPES)) for _ in range(r.randrange(2, 5))]
        tail[r.randrange(0, len(tail) - 1)] = ("ref", r.choice(REF_TYPES))
        params = [p for p in params if p[0] == "txn"][:2] + plain + tail
    ret = r.choice([None, None, "uint64", "string", "(uint8,string)", "bool"])
    return params, ret


def method_case(job):
    seed, version, big = job
    from vf.core import use_repo
    use_repo()
    import hashlib
    import pyteal as pt
    from pyteal import abi
    from algosdk import abi as sabi
    from spec import avm
    from checks import abi_e2e as A
    r = random.Random(seed)
    out = {"seed": seed, "version": version, "big": big, "problems": [], "ran": 0}
    try:
        params, ret = gen_signature(r, big)
        ns = {"pt": pt, "abi": abi}
        names, body = [], []
        for i, (kind, t) in enumerate(params):
            ts = abi.type_spec_from_algosdk(sabi.ABIType.from_string(t) if kind == "abi" else t)
            ns[f"T{i}"] = ts.annotation_type()
            names.append(f"p{i}: T{i}")
            if kind == "abi":
                body.append(f"pt.Log(p{i}.encode())")
            elif kind == "txn":
                body.append(f"pt.Log(pt.Concat(pt.Itob(p{i}.index()), pt.Itob(p{i}.get().type_enum())))")
            elif t == "account":
                body.append(f"pt.Log(p{i}.address())")
            elif t == "asset":
                body.append(f"pt.Log(pt.Itob(p{i}.asset_id()))")
            else:
                body.append(f"pt.Log(pt.Itob(p{i}.application_id()))")
        retv = retenc = None
        if ret is not None:
            rt = sabi.ABIType.from_string(ret)
            retv = A.gen_value(rt, r)
            retenc = A.sdk_encode(rt, retv)
            ns["RT"] = abi.type_spec_from_algosdk(rt).annotation_type()
            ns["RETENC"] = retenc
            names.append("*, output: RT")
            body.append("output.decode(pt.Bytes(RETENC))")
        src = f"def meth({', '.join(names)}):\n    return pt.Seq({', '.join(body)})\n"
        exec(compile(src, "<c09>", "exec", dont_inherit=True), ns)
        handler = pt.ABIReturnSubroutine(ns["meth"])
        sig_types = ",".join(t for _, t in params)
        sig = f"meth({sig_types}){ret or 'void'}"
        if handler.method_signature() != sig:
            out["problems"].append(f"method_signature {handler.method_signature()!r} != {sig!r}")
        router = pt.Router("r", pt.BareCallActions())
        router.add_method_handler(handler, method_config=pt.MethodConfig(no_op=pt.CallConfig.CALL))
        approval, clear, contract = router.compile_program(version=version)
        sel = hashlib.new("sha512_256", sig.encode()).digest()[:4]
        cm = [m for m in contract.methods if m.name == "meth"]
        if len(contract.methods) != 1 or not cm or cm[0].get_selector() != sel or cm[0].get_signature() != sig:
            out["problems"].append(f"contract description does not list meth with signature {sig}")
        # ---- build the call -------------------------------------------------------------------------
        plain_vals, plain_types, expected_logs = [], [], []
        accounts, assets, apps = [], [], []
        txn_params = [(i, t) for i, (k, t) in enumerate(params) if k == "txn"]
        group = []
        for _, t in txn_params:
            te = TXN_TYPES[t] if TXN_TYPES[t] is not None else r.choice([1, 4, 6])
            group.append({"TypeEnum": te, "Sender": bytes([9]) * 32})
        gi = len(group)
        tcount = 0
        for i, (kind, t) in enumerate(params):
            if kind == "abi":
                st = sabi.ABIType.from_string(t)
                v = A.gen_value(st, r)
                plain_vals.append(A._sdk_val(st, v))
                plain_types.append(st)
                expected_logs.append(A.sdk_encode(st, v))
            elif kind == "txn":
                idx = tcount
                tcount += 1
                expected_logs.append(idx.to_bytes(8, "big") + group[idx]["TypeEnum"].to_bytes(8, "big"))
            else:
                if t == "account":
                    if r.random() < 0.3:
                        ref, val = 0, bytes([1]) * 32          # 0 = the sender
                    else:
                        accounts.append(bytes([0x40 + len(accounts)]) * 32)
                        ref, val = len(accounts), accounts[-1]
                    expected_logs.append(val)
                elif t == "asset":
                    assets.append(1000 + len(assets))
                    ref = len(assets) - 1
                    expected_logs.append(assets[-1].to_bytes(8, "big"))
                else:
                    if r.random() < 0.3:
                        ref, val = 0, 77                          # 0 = the current application
                    else:
                        apps.append(2000 + len(apps))
                        ref, val = len(apps), apps[-1]
                    expected_logs.append(val.to_bytes(8, "big"))
                plain_vals.append(ref)
                plain_types.append(sabi.ABIType.from_string("uint8"))
        if len(plain_types) > 15:
            head_t, head_v = plain_types[:14], plain_vals[:14]
            tt = sabi.TupleType(plain_types[14:])
            app_args = [sel] + [t.encode(v) for t, v in zip(head_t, head_v)] + [tt.encode(plain_vals[14:])]
        else:
            app_args = [sel] + [t.encode(v) for t, v in zip(plain_types, plain_vals)]
        if retenc is not None:
            expected_logs.append(bytes.fromhex("151f7c75") + retenc)
        me = {"ApplicationArgs": app_args, "OnCompletion": 0, "ApplicationID": 77, "Sender": bytes([1]) * 32, "TypeEnum": 6,
              "GroupIndex": gi, "Accounts": accounts, "Assets": assets, "Applications": apps}
        ctx = avm.Ctx(gtxn=group + [me], txn=me, globals={"CurrentApplicationID": 77})
        res = avm.run(approval, ctx)
        out["ran"] += 1
        if res.verdict != "approve" or res.logs != expected_logs:
            out["problems"].append(f"{sig}: expected approve with {len(expected_logs)} logs, got {res.verdict} ({res.detail}); first difference: "
                                   f"{next(((i, a.hex()[:40], b.hex()[:40]) for i, (a, b) in enumerate(zip(expected_logs, res.logs)) if a != b), (len(expected_logs), len(res.logs)))}")
            out["approval"] = approval
        # transaction type enforcement: a wrong type in the group must make the call fail
        for j, (_, t) in enumerate(txn_params):
            if TXN_TYPES[t] is None:
                continue
            g2 = [dict(x) for x in group]
            g2[j]["TypeEnum"] = 6 if TXN_TYPES[t] != 6 else 1
            res2 = avm.run(approval, avm.Ctx(gtxn=g2 + [me], txn=me, globals={"CurrentApplicationID": 77}))
            out["ran"] += 1
            if res2.verdict == "approve":
                out["problems"].append(f"{sig}: transaction parameter {j} of type {t} accepted a transaction of another type")
    except Exception as e:
        if isinstance(e, avm.Unsupported):
            out["skipped"] = str(e)
        else:
            out["problems"].append(f"exception {type(e).__name__}: {str(e)[:300]}")
            out["trace"] = traceback.format_exc()[-800:]
    return out


REG_ACTIONS = ("plain", "override", "decorator-name", "decorator", "described", "refused-never", "refused-duplicate", "refused-not-abi")


def registration_case(job):
    """A history of registration calls (successful and refused ones the caller catches): the contract returned by compile_program lists
    exactly the methods the program dispatches on, in registration order, under the names/selectors it dispatches on."""
    actions, version = job
    from vf.core import use_repo
    use_repo()
    import re
    import pyteal as pt
    from pyteal import abi
    from spec import avm
    out = {"actions": list(actions), "version": version, "problems": [], "ran": 0}
    try:
        router = pt.Router("r", pt.BareCallActions(no_op=pt.OnCompleteAction.create_only(pt.Approve())))
        expected = []   # signatures the program must dispatch on, in order
        for i, a in enumerate(actions):
            ns = {"pt": pt, "abi": abi}
            exec(compile(f"def m{i}(a: abi.Uint64, *, output: abi.Uint64):\n    return output.set(a.get() + pt.Int({i + 1}))\n", "<c09r>", "exec", dont_inherit=True), ns)
            fn = ns[f"m{i}"]
            try:
                if a == "plain":
                    router.add_method_handler(pt.ABIReturnSubroutine(fn)); expected.append((f"m{i}(uint64)uint64", i))
                elif a == "override":
                    router.add_method_handler(pt.ABIReturnSubroutine(fn), overriding_name=f"renamed{i}"); expected.append((f"renamed{i}(uint64)uint64", i))
                elif a == "decorator-name":
                    router.method(fn, name=f"dec{i}"); expected.append((f"dec{i}(uint64)uint64", i))
                elif a == "decorator":
                    router.method(fn); expected.append((f"m{i}(uint64)uint64", i))
                elif a == "described":
                    router.add_method_handler(pt.ABIReturnSubroutine(fn), description="text"); expected.append((f"m{i}(uint64)uint64", i))
                elif a == "refused-never":
                    router.add_method_handler(pt.ABIReturnSubroutine(fn), method_config=pt.MethodConfig())
                    out["problems"].append("a method that is never executable was accepted")
                elif a == "refused-duplicate":
                    if expected:
                        nm = expected[0][0].split("(")[0]
                        router.add_method_handler(pt.ABIReturnSubroutine(fn), overriding_name=nm)
                        out["problems"].append("re-registration of an existing signature was accepted")
                elif a == "refused-not-abi":
                    router.add_method_handler(fn)
                    out["problems"].append("a plain function was accepted by add_method_handler")
            except pt.TealInputError:
                if not a.startswith("refused"):
                    out["problems"].append(f"registration {a} was refused")
        approval, clear, contract = router.compile_program(version=version)
        dispatched = re.findall(r'^method "([^"]+)"', approval, flags=re.M)
        listed = [m.get_signature() for m in contract.methods]
        want = [s for s, _ in expected]
        if listed != want:
            out["problems"].append(f"contract lists {listed}, registered (and dispatched on) {want}")
        if sorted(set(dispatched)) != sorted(set(want)):
            out["problems"].append(f"program dispatches on {sorted(set(dispatched))}, registered {want}")
        import hashlib
        for m in contract.methods:
            if m.get_selector() != hashlib.new("sha512_256", m.get_signature().encode()).digest()[:4]:
                out["problems"].append(f"selector of {m.get_signature()} in the contract is not the hash of its signature")
        # every listed method is callable through its listed selector and returns its own result
        for sig, i in expected:
            sel = hashlib.new("sha512_256", sig.encode()).digest()[:4]
            me = {"ApplicationArgs": [sel, (5).to_bytes(8, "big")], "OnCompletion": 0, "ApplicationID": 77, "TypeEnum": 6}
            res = avm.run(approval, avm.Ctx(txn=me, globals={"CurrentApplicationID": 77}))
            out["ran"] += 1
            if res.verdict != "approve" or res.logs != [bytes.fromhex("151f7c75") + (5 + i + 1).to_bytes(8, "big")]:
                out["problems"].append(f"calling {sig} by its selector: {res.verdict} {res.detail} logs {[l.hex() for l in res.logs]}")
    except Exception as e:
        out["problems"].append(f"exception {type(e).__name__}: {str(e)[:300]}")
    return out


def registration_jobs(tier):
    import itertools
    seqs = [p for n in (1, 2) for p in itertools.product(REG_ACTIONS, repeat=n)]
    if tier != "quick":
        seqs += list(itertools.product(REG_ACTIONS, repeat=3))
    else:
        seqs += [p for i, p in enumerate(itertools.product(REG_ACTIONS, repeat=3)) if i % 7 == 0]
    return [(list(p), [6, 8, 10][i % 3]) for i, p in enumerate(seqs)]


def run(report: Report, tier, seed):
    from vf.core import use_repo
    use_repo()
    import pyteal as pt
    from pyteal.ast.abi.method_return import MethodReturn
    from pyteal import config
    report.trust("algosdk.abi (reference codec, Method selectors)", "spec/avm.py", "ARC-4 calling convention as written in checks/c09.py (14 + tuple packing, reference indices, preceding group transactions)")
    report.assume("the decode glue (__decode_constructions_and_args) is run for every arity in a stated range on opaque values and compared structurally with the ARC-4 convention (E: exhaustive within the range, "
                  "not a proof for all arities); __de_abify_* / wrap_handler (call, result logging, approve) and run-time behaviour: bounded stand-in over generated signatures")
    ok = config.RETURN_HASH_PREFIX == bytes.fromhex("151f7c75") and config.METHOD_ARG_NUM_CUTOFF == 15
    report.ob(Ob(id="O9.3/constants", function="pyteal.config", kind="E", status="discharged" if ok else "refuted", backend="enumeration(2)",
                 detail="RETURN_HASH_PREFIX == 0x151f7c75 and METHOD_ARG_NUM_CUTOFF == 15 (ARC-4)",
                 model=None if ok else [config.RETURN_HASH_PREFIX.hex(), config.METHOD_ARG_NUM_CUTOFF]))
    from . import router_glue
    gj = router_glue.jobs(tier)
    with ProcessPoolExecutor(max_workers=16) as ex:
        gr = list(ex.map(router_glue.case, gj, chunksize=8))
    gbad = [r for r in gr if r["problems"]]
    amax = max(j[0] for j in gj)
    report.ob(Ob(id="O9.1/decode-glue-follows-arc4-for-every-arity", function="pyteal.ast.router.ASTBuilder.__decode_constructions_and_args", kind="E",
                 status="refuted" if gbad else "discharged", backend=f"enumeration({len(gj)} arities: 0..{amax} plain x 0..4 transaction arguments x output x scratch / frame pointers; values opaque)",
                 detail="plain argument i decoded from ApplicationArgs[i+1]; beyond 15 one tuple from ApplicationArgs[15] then de-tupled in order into arguments 14..; transaction argument j of t bound to "
                        "GroupIndex - (t - j) with a type-enum assertion for specific types; order plain, transactions, de-tupling; nothing else",
                 model=[(b["job"], b["problems"][0]) for b in gbad[:3]] or None))
    n = 60 if tier == "quick" else 800
    jobs = [(seed * 7919 + i, [6, 7, 8, 9, 10][i % 5], i % 4 == 0) for i in range(n)]
    with ProcessPoolExecutor(max_workers=16) as ex:
        res = list(ex.map(method_case, jobs, chunksize=2))
    bad = [r for r in res if r["problems"]]
    report.bounded.append(Bounded(function="Router-generated method glue + ABIReturnSubroutine.method_signature / contract description",
                                  contract="each parameter bound to the caller's ARC-4 value (15th+ packed as a tuple), transaction parameters = preceding group transactions with type enforced, reference parameters via foreign arrays; non-void result logged once as 0x151f7c75 ++ encoding; contract lists the dispatched selector",
                                  bound=f"{n} generated signatures (seed {seed}; 0..20 parameters, ABI / transaction / reference kinds in any position, void and non-void) x versions 6..10",
                                  cases=sum(r["ran"] for r in res), distinct_nontrivial=len(jobs), failures=len(bad)))
    rj = registration_jobs(tier)
    with ProcessPoolExecutor(max_workers=16) as ex:
        rr = list(ex.map(registration_case, rj, chunksize=4))
    rbad = [r for r in rr if r["problems"]]
    report.bounded.append(Bounded(function="Router.add_method_handler / Router.method / compile_program contract description",
                                  contract="the contract lists exactly the successfully registered methods, in order, under the signatures the program dispatches on; each is callable through its listed selector; refused registrations leave no trace",
                                  bound=f"all histories of <= 2 registration actions over {len(REG_ACTIONS)} kinds (plain / overriding name / decorator / described / three refused kinds), {'every 7th' if tier == 'quick' else 'all'} of length 3, versions 6, 8, 10",
                                  cases=len(rr), distinct_nontrivial=len(rr), failures=len(rbad)))
    report.extra["explanation"] = "E: decode glue over every arity in a range (values opaque), constants; B: generated method signatures executed on the spec AVM, registration histories"
    report.settle_refuted(lambda fn, obs: ({"input": {"glue": gbad[0]["job"]}, "what": gbad[0]["problems"][0]} if gbad else None))
    for b in rbad[:3]:
        report.violation(Violation(key=f"registration:{b['actions']}", what=f"registration history {b['actions']} v{b['version']}: {b['problems'][0]}"[:400],
                                   replay={"registration": [b["actions"], b["version"]], "problems": b["problems"][:3]}, confirmed_native=True))
    for b in bad[:3]:
        report.violation(Violation(key=f"method:{b['seed']}:{b['version']}", what=b["problems"][0][:400],
                                   replay={"input": {"seed": b["seed"], "version": b["version"], "big": b["big"]}, "problems": b["problems"][:3], "approval": b.get("approval")},
                                   confirmed_native=True))


def replay(data):
    nat = ((data.get("replay") or {}).get("native") or {}).get("input") or {}
    if nat.get("glue"):
        from . import router_glue
        out = router_glue.case(tuple(nat["glue"]))
        print(out["problems"][:2])
        return 1 if out["problems"] else 0
    reg = (data.get("replay") or {}).get("registration")
    if reg:
        out = registration_case((reg[0], reg[1]))
        print(out["problems"][:3])
        return 1 if out["problems"] else 0
    inp = (data.get("replay") or {}).get("input")
    if not inp:
        return 1
    out = method_case((inp["seed"], inp["version"], inp["big"]))
    print(out["problems"][:3])
    return 1 if out["problems"] else 0
