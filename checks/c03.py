"""C03 Compile options change cost and shape, never behaviour."""
from __future__ import annotations

from vf.core import Report, Bounded, Violation
from vf.runner import run_contracts
from . import e2e
from .frag import run_fragcheck

LEVEL = "other"
KNOWN_KEY = "O3.4:store-elsewhere+adjacent-store-load"


def specs_for(tier, seed):
    n = 60 if tier == "quick" else 600
    out = []
    for i in range(n):
        v0 = [4, 5, 6, 7, 8][i % 5]
        # the same program description is compiled at its own version and at later ones, under every option pair
        for v in sorted({v0, 8, 9, 10} if tier == "quick" else set(range(v0, 11))):
            opts = [{"scratch_slots": a, "frame_pointers": b} for a in (True, False) for b in ((True, False) if v >= 8 else (None,))]
            # version-dependent defaults: nothing given, and each flag given alone
            opts += [{}] + [{"scratch_slots": a} for a in (True, False)] + ([{"frame_pointers": b} for b in (True, False)] if v >= 8 else [])
            out.append({"seed": seed * 100003 + 52000 + i, "version": v, "gen_version": v0, "mode": "Application", "size": 3,
                        "features": {"recursion": i % 2 == 0}, "options": opts})
    return out


def run(report: Report, tier, seed):
    report.trust("spec/avm.py + spec/progsem.py (oracle)", "fragcheck spec terms do not mention version / options (version-parametric fragment contracts)")
    report.assume("version / frame-pointer independence of single constructs is the corollary of the fragment contracts (C01) being proved at every listed version against a meaning that does not mention options",
                  "the optimiser (apply_global_optimizations) and whole-program option independence are checked by a bounded stand-in only")
    # P: option-default functions
    run_contracts(report, [("contracts.c03_options", "OptimizeScratchSlots", "O3.2a"),
                           ("contracts.c03_options", "UseFramePointers", "O3.2b"),
                           ("contracts.c03_optimizer", "HasLoadDependencies", "O3.5"),
                           ("contracts.c03_optimizer", "ApplySlotToStack", "O3.4"),
                           ("contracts.c03_optimizer", "RemoveExtraneousSlotAccess", "O3.6"),
                           ("contracts.c03_optimizer", "CollectUnoptimizedSlots", "O3.7")])
    from . import opt_native
    oc, of = opt_native.check_has_load_dependencies()
    report.bounded.append(Bounded(function="pyteal.compiler.optimizer.optimizer._has_load_dependencies", contract="True iff another load of the slot exists anywhere in the routine",
                                  bound="all two-block routines with <= 3 + 2 ops over {load s, store s, load t, pop} x every (block, position)", cases=oc, distinct_nontrivial=oc, failures=len(of)))
    specs = specs_for(tier, seed)
    res = e2e.sweep(specs)
    keys, ran, nontrivial = set(), 0, 0
    fails, known = [], []
    for s, r in zip(specs, res):
        ran += r["ran"]
        if r["key"] and (r["key"], s["version"]) not in keys:
            keys.add((r["key"], s["version"]))
            nontrivial += 1 if r["nontrivial"] else 0
        if r["mismatches"]:
            only_stack = all(m["kind"] == "stack" for m in r["mismatches"])
            opt_on_only = all(e2e.optimizer_on(m["options"], s["version"]) for m in r["mismatches"])
            rec = {"input": {"spec": s}, "mismatches": r["mismatches"][:3], "program": r.get("program"), "teal": r["teals"]}
            if opt_on_only and r.get("known_multistore"):      # exact attribution: vanishes when the multiply-stored slots are withheld (e2e.repaired_optimizer)
                known.append(rec)
            else:
                fails.append(rec)
    report.bounded.append(Bounded(
        function="pyteal.compileTeal under every (scratch_slots, frame_pointers, version) setting",
        contract="observable outcome, empty stack at exit and final contents of user-numbered slots identical for all settings (each equals the description's meaning)",
        bound=f"{len(specs)} (program, version) pairs from {len({s['seed'] for s in specs})} generated programs (seed {seed}) x all option pairs x 2 contexts",
        cases=ran, distinct_nontrivial=nontrivial, failures=len(fails) + len(known)))
    # ABI subroutines (by-reference parameters, output keyword): the same generated signature under every option setting of its version
    from . import abisub
    from .abi_e2e import pool_map
    aj = []
    for (sd, v, _o) in abisub.jobs(tier, seed + 5)[: (40 if tier == "quick" else 400)]:
        for o in ([None, {"scratch_slots": True}, {"scratch_slots": False}] + ([{"frame_pointers": True}, {"frame_pointers": False}, {"frame_pointers": False, "scratch_slots": False}] if v >= 8 else [])):
            aj.append((sd, v, o))
    ar = pool_map(abisub.case, aj)
    abad = [r for r in ar if r["problems"]]
    report.bounded.append(Bounded(function="ABIReturnSubroutine calls under every option setting", contract="each setting behaves as the description (hence all settings alike); stack and frame discipline hold",
                                  bound=f"{len(aj)} (signature, version, option setting) triples", cases=sum(r["ran"] for r in ar), distinct_nontrivial=len(aj), failures=len(abad)))
    for b in abad[:1]:
        report.violation(Violation(key=f"abisub:{b['seed']}:{b['version']}:{b['opts']}", what=f"ABI subroutine under options {b['opts']} at v{b['version']}: {b['problems'][0]}"[:400],
                                   replay={"abisub": [b["seed"], b["version"], b["opts"]]}, confirmed_native=True))
    from . import opt_scenarios
    from concurrent.futures import ProcessPoolExecutor
    sj = opt_scenarios.jobs(tier)
    with ProcessPoolExecutor(max_workers=16) as ex:
        sr = list(ex.map(opt_scenarios.case, sj, chunksize=4))
    sbad = [r for r in sr if r["problems"]]
    report.bounded.append(Bounded(
        function="slot optimiser exclusion rules (collect_unoptimized_slots + option plumbing in Compilation)",
        contract="an adjacent store/load pair on an auto / reserved / low-id slot, observed later directly, from another routine, through a DynamicScratchVar or by reference, behaves the same under every setting (hand-written expected logs and final slot content)",
        bound=f"{len(opt_scenarios.KINDS)} slot kinds x {len(opt_scenarios.PLACES)} placements x {len(opt_scenarios.OBSERVERS)} observers x versions x 9 option settings",
        cases=sum(r["ran"] for r in sr), distinct_nontrivial=len(sj), failures=len(sbad)))
    from . import recur_scenarios
    rj = recur_scenarios.jobs(tier)
    with ProcessPoolExecutor(max_workers=16) as ex:
        rr = list(ex.map(recur_scenarios.case, rj, chunksize=1))
    rbad = [r for r in rr if r["problems"]]
    report.bounded.append(Bounded(
        function="mutually / self recursive routines under every back end (spillLocalSlotsDuringRecursion vs frame pointers)",
        contract="every (version, scratch_slots, frame_pointers) setting computes the Python recurrence, hence all settings agree; a local written before the re-entrant call is intact after it",
        bound=f"{len(recur_scenarios.KINDS)}^2 caller/callee kinds (plain value / plain none / ABI output / ABI void) + self recursion, x 2 kinds of local, x versions 6..10 x 9 option settings x depths {recur_scenarios.DEPTHS}",
        cases=sum(r["ran"] for r in rr), distinct_nontrivial=len(rj), failures=len(rbad)))
    for b in rbad[:2]:
        p0 = b["problems"][0]
        report.violation(Violation(key=f"recursion:{b['job']}:{p0.get('setting')}", what=f"recursion scenario {b['job']} at v{p0.get('version')} under (scratch_slots, frame_pointers)={p0.get('setting')}: {p0['what']}"[:400],
                                   replay={"recursion": b["job"], "problems": [{k: v for k, v in p.items() if k != "teal"} for p in b["problems"][:3]]}, confirmed_native=True))
    report.extra["explanation"] = ("P: option-default functions and the optimiser's removal precondition (pyvc); "
                                   "B: whole-program option independence on generated programs")

    def search(fn, obs):
        if "_apply_slot_to_stack" in fn:
            if {o.id for o in obs} == {"O3.4/removed-slots-are-stored-nowhere-else"}:
                return known[0] if known else opt_native.multistore_witness()      # clause (d): the recorded finding's own witness
            # any other clause of that contract: the witness has to come from the harnesses that exercise the optimiser natively
            if sbad:
                return {"input": {"scenario": sbad[0]["job"]}, "what": sbad[0]["problems"][0]["what"]}
            return fails[0] if fails else None
        if "collect_unoptimized_slots" in fn:
            return {"input": {"scenario": sbad[0]["job"]}, "what": sbad[0]["problems"][0]["what"]} if sbad else None
        if "_has_load_dependencies" in fn:
            return {"input": of[0]} if of else None
        return fails[0] if fails else None

    report.settle_undecided(search)
    report.settle_refuted(search)
    if of and not any("_has_load_dependencies" in v.what for v in report.violations):
        report.violation(Violation(key=f"opt-native:{of[0]['block1']}:{of[0]['block2']}", what=f"_has_load_dependencies wrong on {of[0]}", replay={"input": of[0]}, confirmed_native=True))
    # the refuted optimiser obligation and its bounded witnesses are one finding
    # the recorded finding is exactly: clause (d) of the _apply_slot_to_stack contract fails and nothing else of that contract does
    D_CLAUSE = "O3.4/removed-slots-are-stored-nowhere-else"
    for v in report.violations:
        ids = [x["id"] for x in ((v.replay or {}).get("refuted") or [])] if isinstance(v.replay, dict) else []
        if ids and all(i.startswith("O3.4/") for i in ids):
            if ids == [D_CLAUSE]:
                v.key = KNOWN_KEY
            else:
                v.key = next(i for i in ids if i != D_CLAUSE)
    if known and not any(v.key == KNOWN_KEY for v in report.violations):
        k = known[0]
        report.violation(Violation(key=KNOWN_KEY, what="optimised program leaves extra values on the stack: " + k["mismatches"][0]["what"][:200],
                                   replay=k, confirmed_native=True))
    for b in sbad[:3]:
        report.violation(Violation(key=f"scenario:{b['job']}:{b['problems'][0]['setting']}", what=f"slot scenario {b['job']} under (scratch_slots, frame_pointers)={b['problems'][0]['setting']}: {b['problems'][0]['what']}"[:400],
                                   replay={"scenario": b["job"], "problems": b["problems"][:2]}, confirmed_native=True))
    if fails:
        f = fails[0]
        report.violation(Violation(key=f"bounded:{f['input']['spec']['seed']}:{f['input']['spec']['version']}",
                                   what=f"behaviour depends on compile options: {f['mismatches'][0]}"[:400], replay=f, confirmed_native=True))


def replay(data):
    r = data.get("replay") or {}
    nat = r.get("native") or r
    if "abisub" in r:
        from . import abisub
        out = abisub.case(tuple(r["abisub"]))
        print(out["problems"][:2])
        return 1 if out["problems"] else 0
    if "recursion" in r:
        from . import recur_scenarios
        out = recur_scenarios.case(tuple(r["recursion"]))
        print([{k: v for k, v in p.items() if k != "teal"} for p in out["problems"][:2]])
        return 1 if out["problems"] else 0
    if "scenario" in r:
        from . import opt_scenarios
        out = opt_scenarios.case(tuple(r["scenario"]))
        print(out["problems"][:2])
        return 1 if out["problems"] else 0
    spec = (nat.get("input") or {}).get("spec")
    if not spec:
        print("no concrete input; refuted:", [x["id"] for x in r.get("refuted", [])])
        return 1
    out = e2e.one_case(spec)
    for m in out["mismatches"]:
        print("MISMATCH", m)
    return 1 if out["mismatches"] else 0
