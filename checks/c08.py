"""C08 Router dispatches a call to its handler iff the registration allows it."""
from __future__ import annotations

import itertools
import random
import traceback
from concurrent.futures import ProcessPoolExecutor

from vf.core import Report, Bounded, Violation, Ob

LEVEL = "other"
OCS = ["no_op", "opt_in", "close_out", "update_application", "delete_application"]
OC_NUM = {"no_op": 0, "opt_in": 1, "close_out": 2, "clear_state": 3, "update_application": 4, "delete_application": 5}


def allowed(cfg: dict, oc, create):
    """Specification: does the registration allow this (OnCompletion value, creation status)?  z3 formula."""
    import z3
    alts = []
    for name in OCS:
        c = cfg[name]  # 0 never 1 call 2 create 3 all
        if c == 0:
            continue
        st = {1: z3.Not(create), 2: create, 3: z3.BoolVal(True)}[c]
        alts.append(z3.And(oc == OC_NUM[name], st))
    return z3.Or(*alts) if alts else z3.BoolVal(False)


def prove_guards(report: Report):
    """O8.1 / O8.2 (E x P): the run-time guard built by the real code, for every configuration (exhaustive),
    is non-zero exactly on the allowed (OnCompletion, create) pairs, for all uint64 values (z3)."""
    import z3
    import pyteal as pt
    from pyteal.ast.router import CallConfig, MethodConfig
    from spec.exprsym import sym, NotInFragment
    oc, appid = z3.Ints("OnCompletion ApplicationID")
    env = {"OnCompletion": oc, "ApplicationID": appid}
    # the approval program runs only for OnCompletion in {NoOp, OptIn, CloseOut, UpdateApplication, DeleteApplication}
    # (ClearState runs the clear-state program; larger values are not valid transactions)
    rng = [z3.Or(oc == 0, oc == 1, oc == 2, oc == 4, oc == 5), appid >= 0, appid < 2 ** 64]
    create = appid == 0
    # O8.1
    for cc in CallConfig:
        cond = cc.approval_condition_under_config()
        want = {0: z3.BoolVal(False), 1: z3.Not(create), 2: create, 3: z3.BoolVal(True)}[int(cc)]
        s = z3.Solver()
        s.set("timeout", 10000)
        s.add(*rng)
        s.add((sym(cond, env) != 0) != want)
        r = s.check()
        report.ob(Ob(id=f"O8.1/CallConfig.{cc.name}", function="pyteal.ast.router.CallConfig.approval_condition_under_config", kind="P",
                     status="discharged" if r == z3.unsat else ("refuted" if r == z3.sat else "unknown"), backend="z3-5.1 (exprsym)",
                     detail="guard != 0 <=> creation status allowed, for all application ids", model=str(s.model()) if r == z3.sat else None))
    # O8.2: 4^5 configurations
    bad, unknown, n, ms = [], [], 0, 0.0
    for combo in itertools.product(range(4), repeat=5):
        cfg = dict(zip(OCS, combo))
        mc = MethodConfig(**{k: CallConfig(v) for k, v in cfg.items()})
        n += 1
        try:
            cond = mc.approval_cond()
            val = sym(cond, env)
        except NotInFragment as e:
            unknown.append((combo, str(e)))
            continue
        s = z3.Solver()
        s.set("timeout", 10000)
        s.add(*rng)
        s.add((val != 0) != allowed(cfg, oc, create))
        r = s.check()
        if r == z3.sat:
            bad.append((combo, str(s.model())))
        elif r != z3.unsat:
            unknown.append((combo, "solver unknown"))
        # shortcuts 0 / 1 are ints: is_never must agree
        if mc.is_never() != all(v == 0 for v in combo):
            bad.append((combo, "is_never() disagrees"))
    report.ob(Ob(id="O8.2/MethodConfig.approval_cond/all-1024-configurations", function="pyteal.ast.router.MethodConfig.approval_cond", kind="P",
                 status="refuted" if bad else ("unknown" if unknown else "discharged"), backend="z3-5.1 (exprsym) x enumeration(4^5)",
                 detail=f"for each of the {n} configurations: guard != 0 <=> (OnCompletion, create) allowed, for all uint64 OnCompletion / ApplicationID",
                 model=(bad or unknown)[:3] or None))
    # O8.3 clear_state rejection
    probs = []
    for v in (1, 2, 3):
        try:
            MethodConfig(clear_state=CallConfig(v))
            probs.append(f"clear_state={v} accepted")
        except pt.TealInputError:
            pass
    report.ob(Ob(id="O8.3/MethodConfig.clear_state-rejected", function="pyteal.ast.router.MethodConfig.__post_init__", kind="E",
                 status="refuted" if probs else "discharged", backend="enumeration(3)", detail="a MethodConfig may not register clear_state", model=probs or None))
    return bad


# ---- whole router, bounded ------------------------------------------------------------------------------------
def bare_handler(pt, tag: bytes, kind: int):
    """the four documented forms of a bare-call action: a none-typed expression (with / without its own exit), a Subroutine(none) without
    parameters, a void ABIReturnSubroutine without parameters"""
    if kind == 0:
        return pt.Seq(pt.Log(pt.Bytes(tag)))
    if kind == 1:
        return pt.Seq(pt.Log(pt.Bytes(tag)), pt.Approve())

    def h():
        return pt.Log(pt.Bytes(tag))
    h.__name__ = "bare_" + "".join(ch if ch.isalnum() else "_" for ch in tag.decode())
    return pt.Subroutine(pt.TealType.none)(h) if kind == 2 else pt.ABIReturnSubroutine(h)


# directed registrations for the first method / the bare actions (the generator's uniform choice reaches these with probability 5^-5)
DIRECTED = [None, "all:3", "all:1", "all:2", "default", "bare-all:3", "bare-all:1", "bare-all:2"] + [f"single:{oc}:{c}" for oc in range(5) for c in (1, 2, 3)]


def router_case(job):
    seed, version = job[0], job[1]
    directed = job[2] if len(job) > 2 else None
    from vf.core import use_repo
    use_repo()
    import pyteal as pt
    from pyteal import abi
    from spec import avm
    import hashlib
    r = random.Random(seed)
    out = {"seed": seed, "version": version, "directed": directed, "problems": [], "ran": 0}
    try:
        # bare actions
        bare_cfg = {}
        kwargs = {}
        for name in OCS:
            c = r.choice([0, 0, 1, 2, 3])
            if directed and directed.startswith("bare-all:"):
                c = int(directed.split(":")[1])
            bare_cfg[name] = c
            if c:
                tag = f"bare:{name}".encode()
                kwargs[name] = pt.OnCompleteAction(action=bare_handler(pt, tag, r.randrange(4)), call_config=pt.CallConfig(c))
        clear_kind = r.choice(["none", "approve", "logreject"])
        clear = {"none": None, "approve": pt.Seq(pt.Log(pt.Bytes("clear")), pt.Approve()),
                 "logreject": pt.Reject()}[clear_kind]
        router = pt.Router("r", pt.BareCallActions(**kwargs), clear_state=clear) if clear is not None else pt.Router("r", pt.BareCallActions(**kwargs))
        methods, unregistered = [], []
        for mi in range(r.randrange(0, 4) if not directed or directed.startswith("bare") else r.randrange(1, 4)):
            cfg = {name: r.choice([0, 0, 1, 2, 3]) for name in OCS}
            if all(v == 0 for v in cfg.values()):
                cfg["no_op"] = r.choice([1, 2, 3])
            if mi == 0 and directed and directed.startswith("all:"):
                cfg = {name: int(directed.split(":")[1]) for name in OCS}
            if mi == 0 and directed and directed.startswith("single:"):
                _, k, c = directed.split(":")
                cfg = {name: (int(c) if i == int(k) else 0) for i, name in enumerate(OCS)}
            if mi == 0 and directed == "default":
                cfg = {name: (1 if name == "no_op" else 0) for name in OCS}
            name = f"m{mi}"
            ns = {"pt": pt, "abi": abi}
            exec(compile(f"def {name}():\n    return pt.Log(pt.Bytes('method:{name}'))\n", "<m>", "exec", dont_inherit=True), ns)
            route = r.choice(["handler", "decorator", "override", "decorator-name"])
            pyname = name
            if route in ("override", "decorator-name") and not (mi == 0 and directed == "default"):
                # registered under another name than the Python function's: the program must dispatch on the registered name
                name = f"x{mi}"
                cfgs = {k: pt.CallConfig(v) for k, v in cfg.items()}
                if route == "override":
                    router.add_method_handler(pt.ABIReturnSubroutine(ns[pyname]), overriding_name=name, method_config=pt.MethodConfig(**cfgs))
                else:
                    router.method(ns[pyname], name=name, **{k: v for k, v in cfgs.items() if cfg[k]})
            elif mi == 0 and directed == "default":
                router.method(ns[name]) if r.random() < 0.5 else router.add_method_handler(pt.ABIReturnSubroutine(ns[name]))
            elif route == "handler":
                router.add_method_handler(pt.ABIReturnSubroutine(ns[name]), method_config=pt.MethodConfig(**{k: pt.CallConfig(v) for k, v in cfg.items()}))
            else:
                # the decorator route: only the OnCompletion keywords that are allowed are given; the others take the decorator's defaults (never)
                given = {k: pt.CallConfig(v) for k, v in cfg.items() if v}
                router.method(ns[name], **given)
            sel = hashlib.new("sha512_256", f"{name}()void".encode()).digest()[:4]
            methods.append((name, sel, cfg, pyname))
            if pyname != name:
                unregistered.append(hashlib.new("sha512_256", f"{pyname}()void".encode()).digest()[:4])
        approval, clear_teal, contract = router.compile_program(version=version)
        listed = sorted(m.name for m in contract.methods)
        if listed != sorted(m[0] for m in methods):
            out["problems"].append(f"contract lists {listed}, registered {[m[0] for m in methods]}")
        for m in contract.methods:
            exp = [x for x in methods if x[0] == m.name]
            if exp and m.get_selector() != exp[0][1]:
                out["problems"].append(f"selector of {m.name} in contract differs from sha512/256 prefix")
        # all calls
        calls = [("bare", None)] + [("method", m) for m in methods] + [("unknown", b"\xde\xad\xbe\xef"), ("short", b"\x01")] + [("unknown", u) for u in unregistered]
        for kind, m in calls:
            for oc in (0, 1, 2, 4, 5):  # ClearState never reaches the approval program
                for appid in (0, 7):
                    args = [] if kind == "bare" else ([m[1]] if kind == "method" else [m])
                    ctx = avm.Ctx(txn={"ApplicationArgs": args, "OnCompletion": oc, "ApplicationID": appid})
                    res = avm.run(approval, ctx)
                    out["ran"] += 1
                    create = appid == 0
                    if kind == "bare":
                        name = {0: "no_op", 1: "opt_in", 2: "close_out", 4: "update_application", 5: "delete_application"}.get(oc)
                        c = bare_cfg.get(name, 0) if name else 0
                        ok = c == 3 or (c == 1 and not create) or (c == 2 and create)
                        want = ("approve", [f"bare:{name}".encode()]) if ok else None
                    elif kind == "method":
                        name = {0: "no_op", 1: "opt_in", 2: "close_out", 4: "update_application", 5: "delete_application"}.get(oc)
                        c = m[2].get(name, 0) if name else 0
                        ok = c == 3 or (c == 1 and not create) or (c == 2 and create)
                        want = ("approve", [f"method:{m[3]}".encode()]) if ok else None
                    else:
                        want = None
                    got = (res.verdict, res.logs) if res.verdict == "approve" else None
                    if want != got:
                        out["problems"].append(f"{kind} {m[0] if kind == 'method' else ''} oc={oc} appid={appid}: expected {want} got {(res.verdict, res.logs, res.detail)}")
        # clear-state program
        res = avm.run(clear_teal, avm.Ctx(txn={"OnCompletion": 3, "ApplicationID": 7}))
        want = {"none": ("reject", []), "approve": ("approve", [b"clear"]), "logreject": ("reject", [])}[clear_kind]
        got = (res.verdict if res.verdict != "fail" else "reject", res.logs if res.verdict == "approve" else [])
        if got != want:
            out["problems"].append(f"clear-state program ({clear_kind}): expected {want} got {(res.verdict, res.logs)}")
        if out["problems"]:
            out["approval"] = approval
    except Exception as e:
        if isinstance(e, avm.Unsupported):
            out["skipped"] = str(e)
        else:
            out["problems"].append(f"exception {type(e).__name__}: {e}")
            out["trace"] = traceback.format_exc()[-800:]
    return out


def collision_case(job):
    """Two different method signatures with the same 4-byte selector (sha512/256 prefix 01c0f79c): a router cannot dispatch both, so the
    second registration must be refused - by every registration route, in either order."""
    route, order, version = job
    from vf.core import use_repo
    use_repo()
    import pyteal as pt
    out = {"job": list(job), "problem": None}
    names = ["m8916", "m12207"][::order]
    try:
        router = pt.Router("r", pt.BareCallActions())
        for i, nm in enumerate(names):
            ns = {"pt": pt}
            exec(compile(f"def {nm if route != 'override' else 'impl' + str(i)}():\n    return pt.Log(pt.Bytes('{nm}'))\n", "<m>", "exec", dont_inherit=True), ns)
            fn = ns[nm if route != "override" else "impl" + str(i)]
            try:
                if route == "handler":
                    router.add_method_handler(pt.ABIReturnSubroutine(fn), method_config=pt.MethodConfig(no_op=pt.CallConfig.CALL, opt_in=pt.CallConfig.ALL if i else pt.CallConfig.NEVER))
                elif route == "decorator":
                    router.method(fn, no_op=pt.CallConfig.CALL)
                else:
                    router.add_method_handler(pt.ABIReturnSubroutine(fn), overriding_name=nm, method_config=pt.MethodConfig(no_op=pt.CallConfig.ALL))
            except pt.TealInputError:
                if i == 0:
                    out["problem"] = f"the first registration ({nm}) was refused"
                return out
        router.compile_program(version=version)
        out["problem"] = f"{names[0]}()void and {names[1]}()void have the same selector 01c0f79c and both registrations were accepted: calls to the second can only reach the first"
    except (pt.TealInputError, pt.TealInternalError, pt.TealCompileError) as e:
        return out
    except Exception as e:
        out["problem"] = f"exception {type(e).__name__}: {str(e)[:160]}"
    return out


def run(report: Report, tier, seed):
    report.trust("spec/exprsym.py (meaning of ==, !=, &&, ||, txn reads over mathematical uint64)", "spec/avm.py",
                 "registration semantics `allowed(config, OnCompletion, create)` written from the documentation", "hashlib sha512/256 for selectors")
    report.assume("handler bodies are opaque: they are observed through a unique log line",
                  "approval_construction / to_cond_node / program_construction are covered by the whole-router bounded stand-in, not yet by their own contracts")
    bad = prove_guards(report)
    jobs = [(seed * 7919 + i, [6, 7, 8, 9, 10][i % 5], None) for i in range(40 if tier == "quick" else 600)]
    jobs += [(seed * 7919 + 1000 + i, [6, 8, 10, 7, 9][(i + k) % 5], d) for k in range(1 if tier == "quick" else 5) for i, d in enumerate(DIRECTED) if d]
    with ProcessPoolExecutor(max_workers=16) as ex:
        res = list(ex.map(router_case, jobs, chunksize=2))
    rb = [r for r in res if r["problems"]]
    report.bounded.append(Bounded(function="Router.compile_program (approval + clear-state) on the spec AVM",
                                  contract="handler H, and only H, runs exactly when the call matches H's registration; every other call is rejected; clear-state runs the given action or rejects; contract lists exactly the registered methods",
                                  bound=f"{len(jobs)} generated routers (seed {seed}; 0..3 methods, bare actions per OnCompletion in every documented handler form (expression with / without its own exit, Subroutine, void ABIReturnSubroutine), arbitrary CallConfigs; plus directed registrations: uniform ALL/CALL/CREATE, the default MethodConfig, each single OnCompletion x CallConfig, uniform bare actions) x all calls (bare / each selector / unknown / short selector) x OnCompletion 0..5 x app id zero / non-zero, versions 6..10",
                                  cases=sum(r["ran"] for r in res), distinct_nontrivial=len(jobs), failures=len(rb)))
    cj = [(rt, o, v) for rt in ("handler", "decorator", "override") for o in (1, -1) for v in (6, 10)]
    with ProcessPoolExecutor(max_workers=12) as ex:
        cr = list(ex.map(collision_case, cj))
    cbad = [r for r in cr if r["problem"]]
    report.bounded.append(Bounded(function="Router registration of two signatures with the same selector", contract="the second registration is refused",
                                  bound="one colliding pair (m8916()void / m12207()void) x 3 registration routes x both orders x versions 6, 10", cases=len(cr), distinct_nontrivial=len(cr), failures=len(cbad)))
    for b in cbad[:1]:
        report.violation(Violation(key=f"collision:{b['job'][0]}", what=b["problem"][:400], replay={"input": {"collision": b["job"]}}, confirmed_native=True))
    report.extra["explanation"] = "E x P: guards of all 4 + 1024 configurations proved for all uint64 inputs; B: whole routers on the spec AVM"
    report.settle_refuted(lambda fn, obs: ({"input": {"seed": rb[0]["seed"], "version": rb[0]["version"], "directed": rb[0].get("directed")}, "problems": rb[0]["problems"][:3]} if rb else None))
    if rb and not any(o.status == "refuted" for o in report.obs):
        b = rb[0]
        report.violation(Violation(key=f"router:{b['seed']}:{b['version']}", what=f"router dispatch differs from registration: {b['problems'][0]}"[:400],
                                   replay={"input": {"seed": b["seed"], "version": b["version"], "directed": b.get("directed")}, "problems": b["problems"][:3], "approval": b.get("approval")}, confirmed_native=True))


def replay(data):
    r = data.get("replay") or {}
    nat = r.get("native") or r
    inp = nat.get("input")
    if not inp:
        print("no concrete input;", [x["id"] for x in r.get("refuted", [])])
        return 1
    if inp.get("collision"):
        out = collision_case(tuple(inp["collision"]))
        print(out["problem"])
        return 1 if out["problem"] else 0
    out = router_case((inp["seed"], inp["version"], inp.get("directed")))
    print(out["problems"][:3])
    return 1 if out["problems"] else 0
