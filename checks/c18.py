"""C18 Comments, pragmas, nonces and names never change the code."""

import random
import re
from concurrent.futures import ProcessPoolExecutor

from vf.core import Report, Bounded, Violation, Ob
from .frag import run_fragcheck

LEVEL = "other"
NASTY = ["plain", "two\nlines", "int 0\nreturn", "a // b", "x; err", 'q"uote', "back\\slash", "tab\there", "cr\rint 0", "", "üñí", "l0", "main_l1:", "#pragma version 1",
         "trail\n\n", "trail\n   ", "\n", "\n\nlead", "   ", "mid\n\nmid"]


def strip(t):
    """Remove annotations from a program description."""
    if isinstance(t, tuple):
        if t and t[0] == "comment":
            return strip(t[2])
        if t and t[0] == "nonce":
            return strip(t[3])
        if t and t[0] == "assert":
            return ("assert", [strip(c) for c in t[1]], None)
        return tuple(strip(x) for x in t)
    if isinstance(t, list):
        return [strip(x) for x in t]
    return t


def annotate(t, r: random.Random, depth=0):
    """Insert annotations at random statement positions."""
    if isinstance(t, tuple) and t:
        k = t[0]
        if k == "seq":
            return ("seq", [annotate(x, r, depth + 1) for x in t[1]])
        if k in ("ifs",):
            return ("ifs", t[1], annotate(t[2], r, depth + 1), annotate(t[3], r, depth + 1) if t[3] is not None else None)
        if k == "while":
            return ("while", t[1], annotate(t[2], r, depth + 1))
        if k == "assert":
            return ("assert", t[1], r.choice(NASTY))
        if k in ("store", "pop", "log", "gput", "calls") and r.random() < 0.5:
            return ("comment", r.choice(NASTY), t)
    return t


def normalise(teal: str):
    """Executable instruction stream: comment lines dropped, trailing comments dropped, labels renamed canonically."""
    from spec import avm
    ops = []
    labels = {}
    prog = avm.parse(teal)
    inv = {}
    for name, idx in prog.labels.items():
        inv.setdefault(idx, []).append(name)
    canon = {}
    for idx in sorted(inv):
        for name in inv[idx]:
            canon[name] = f"L{len(canon)}"
    out = []
    for i, (m, im, ln) in enumerate(prog.ops):
        for name in inv.get(i, []):
            out.append(canon[name] + ":")
        if m in ("b", "bz", "bnz", "callsub"):
            out.append(f"{m} {canon.get(im[0], '?' + im[0])}")
        else:
            out.append(" ".join([m] + list(im)))
    for idx in sorted(inv):
        if idx >= len(prog.ops):
            out += [canon[n] + ":" for n in inv[idx]]
    return out


def case(job):
    seed, version = job
    from vf.core import use_repo
    use_repo()
    import pyteal as pt
    from spec import progsem, proggen, avm
    out = {"seed": seed, "version": version, "problems": [], "ran": 0}
    try:
        r = random.Random(seed)
        base = proggen.gen_prog(seed, version=version, features={"comments": False, "recursion": False})
        plain = progsem.Prog(strip(base.main), {n: progsem.Sub(s.name, s.params, s.ret, s.locals, strip(s.body)) for n, s in base.subs.items()},
                             base.gvars, base.mode)
        ann = progsem.Prog(annotate(plain.main, r), {n: progsem.Sub(s.name, s.params, s.ret, s.locals, annotate(s.body, r)) for n, s in plain.subs.items()},
                           base.gvars, base.mode, display_names={n: r.choice(NASTY) for n in plain.subs})
        mode = pt.Mode.Application
        try:
            t0 = pt.compileTeal(progsem.build(plain), mode, version=version)
        except Exception as e:
            out["skipped"] = f"plain program does not compile: {type(e).__name__}"
            return out
        try:
            t1 = pt.compileTeal(progsem.build(ann), mode, version=version)
        except (pt.TealInputError, pt.TealCompileError) as e:
            # an annotation text may be rejected at construction (e.g. a line break in CommentExpr), that is allowed
            out["skipped"] = f"annotation rejected: {e}"
            return out
        out["ran"] += 1
        try:
            n0, n1 = normalise(t0), normalise(t1)
        except Exception as e:
            out["problems"].append(f"annotated program does not parse as TEAL: {e}")
            out["teal"] = t1
            return out
        if n0 != n1:
            i = next((k for k, (a, b) in enumerate(zip(n0, n1)) if a != b), min(len(n0), len(n1)))
            what = f"instruction streams differ at #{i}: plain {n0[i:i + 2]} vs annotated {n1[i:i + 2]} (lengths {len(n0)}/{len(n1)})"
            # does the difference come from the scratch-slot optimiser (a comment op between `store s` and `load s` hides the pair)?
            off = pt.OptimizeOptions(scratch_slots=False)
            u0 = normalise(pt.compileTeal(progsem.build(plain), mode, version=version, optimize=off))
            u1 = normalise(pt.compileTeal(progsem.build(ann), mode, version=version, optimize=off))
            if u0 == u1 and is_known_blocked_pair(t1, n0, n1):
                out["known_optimizer"] = what
            else:
                out["problems"].append(what)
            out["teal"] = t1
            out["names"] = ann.display_names
    except Exception as e:
        import traceback
        out["problems"].append(f"exception {type(e).__name__}: {e}")
        out["trace"] = traceback.format_exc()[-600:]
    return out


def _canon_slots(stream):
    """slot numbers renamed by first appearance (removing a slot's accesses renumbers the later ones)"""
    ren, out = {}, []
    for line in stream:
        parts = line.split()
        if len(parts) == 2 and parts[0] in ("store", "load") and parts[1].isdigit():
            out.append(f"{parts[0]} s{ren.setdefault(parts[1], len(ren))}")
        else:
            out.append(line)
    return out


def is_known_blocked_pair(t1: str, n0, n1):
    """The recorded finding, exactly: `store s`, then only comment lines, then `load s` - the comment op between them hides the pair from
    the slot optimiser, which would otherwise have removed the slot's accesses.  True iff removing the accesses of some of those slots
    from the annotated stream gives the plain stream (up to slot renumbering); any other difference is a new violation."""
    lines = [l.strip() for l in t1.split("\n")]
    blocked = set()
    for i, l in enumerate(lines):
        p = l.split("//")[0].split()
        if len(p) == 2 and p[0] == "store":
            j, seen_comment = i + 1, False
            while j < len(lines) and (lines[j].startswith("//") or not lines[j]):
                seen_comment = seen_comment or lines[j].startswith("//")
                j += 1
            q = lines[j].split("//")[0].split() if j < len(lines) else []
            if seen_comment and q == ["load", p[1]]:
                blocked.add(p[1])
    if not blocked:
        return False
    # not every hidden pair would have been removed (the slot may be loaded elsewhere): some non-empty subset must explain the difference
    import itertools
    want = _canon_slots(n0)
    for k in range(1, min(len(blocked), 8) + 1):
        for sub in itertools.combinations(sorted(blocked), k):
            n1x = [l for l in n1 if not (l.split()[0] in ("store", "load") and len(l.split()) == 2 and l.split()[1] in sub)]
            if _canon_slots(n1x) == want:
                return True
    return False


COMMENT_ONLY_KINDS = {"comment-only-arm-in-loop": [1], "comment-only-else-in-loop": [2], "comment-only-cond-arm": [1], "comment-only-loop-body": []}


def comment_only_program(pt, kind, annotated, text):
    """a branch / arm / body that consists of nothing but the annotation (its un-annotated form is an empty Seq).  Logs the loop counter
    at which it leaves the loop (COMMENT_ONLY_KINDS[kind]) and then "end"."""
    i = pt.ScratchVar(pt.TealType.uint64)
    note = pt.Comment(text) if annotated else pt.Seq()
    c2 = i.load() % pt.Int(2) == pt.Int(0)
    tail = pt.Seq(pt.Log(pt.Itob(i.load())), pt.Break())
    if kind == "comment-only-arm-in-loop":
        body = pt.If(c2).Then(note).Else(tail)
    elif kind == "comment-only-else-in-loop":
        body = pt.If(c2).Then(tail).Else(note)
    elif kind == "comment-only-cond-arm":
        body = pt.Cond([c2, note], [pt.Int(1), tail])
    else:
        body = note
    return pt.Seq(i.store(pt.Int(0)), pt.While(i.load() < pt.Int(5)).Do(pt.Seq(i.store(i.load() + pt.Int(1)), body)), pt.Log(pt.Bytes("end")), pt.Approve())


def comment_only_exec(job):
    """the same programs, executed: the annotated program must still do what it says"""
    kind, version = job
    from vf.core import use_repo
    use_repo()
    import pyteal as pt
    from spec import avm
    out = {"job": list(job), "problem": None}
    try:
        want = [n.to_bytes(8, "big") for n in COMMENT_ONLY_KINDS[kind]] + [b"end"]
        for annotated in (False, True):
            teal = pt.compileTeal(comment_only_program(pt, kind, annotated, "note"), pt.Mode.Application, version=version)
            r = avm.run(teal, avm.Ctx())
            if r.verdict != "approve" or r.logs != want:
                out["problem"] = f"{kind} ({'with' if annotated else 'without'} the comment) at v{version}: {r.verdict} {r.detail} logs {[l.hex() for l in r.logs]}, expected {[w.hex() for w in want]}"
                out["teal"] = teal
                break
    except Exception as e:
        out["problem"] = f"exception {type(e).__name__}: {str(e)[:160]}"
    return out


def remove_comment_only_blocks(teal: str):
    """The recorded finding `comment-only-block-keeps-its-jumps`, exactly: a block that holds nothing but comment lines is not elided like
    an empty block - it stays in the program as `L: // ... ; b M`, reached only by jumps.  This rewrites the text the way eliding it would:
    every jump to L goes to M, the block is deleted, and a `b X` that now directly precedes `X:` is dropped.  A block is only touched when
    control cannot FALL into it (the instruction before it is b / return / err / retsub), so the rewrite preserves behaviour.
    Returns (rewritten text, number of blocks removed)."""
    lines = [l for l in teal.split("\n")]
    removed = 0
    changed = True
    while changed:
        changed = False
        code = [(i, l.strip()) for i, l in enumerate(lines) if l.strip()]
        for k, (i, l) in enumerate(code):
            if not (l.endswith(":") and " " not in l and not l.startswith("//")):
                continue
            # labels of this block
            labs, j = [l[:-1]], k + 1
            while j < len(code) and code[j][1].endswith(":") and " " not in code[j][1]:
                labs.append(code[j][1][:-1]); j += 1
            ncom = 0
            while j < len(code) and code[j][1].startswith("//"):
                ncom += 1; j += 1
            if not ncom or j >= len(code) or not code[j][1].startswith("b "):
                continue
            target = code[j][1].split()[1]
            if target in labs:
                continue
            # what precedes the block: must not fall through
            p = k - 1
            while p >= 0 and code[p][1].startswith("//"):
                p -= 1
            prev = code[p][1].split("//")[0].split() if p >= 0 else []
            if not prev or prev[0] not in ("b", "return", "err", "retsub"):
                continue
            dead = {code[x][0] for x in range(k, j + 1)}
            new = []
            for x, ln in enumerate(lines):
                if x in dead:
                    continue
                t = ln.strip().split("//")[0].split()
                if len(t) == 2 and t[0] in ("b", "bz", "bnz") and t[1] in labs:
                    ln = ln.replace(t[1], target)
                new.append(ln)
            lines, removed, changed = new, removed + 1, True
            break
    # the comment-only block is the fall-through arm of a conditional branch:  bnz X; // ...; b M; X:   ==   bz M; X:
    changed = True
    while changed:
        changed = False
        code = [(i, l.strip()) for i, l in enumerate(lines) if l.strip()]
        for k, (i, l) in enumerate(code):
            t = l.split("//")[0].split()
            if not (len(t) == 2 and t[0] in ("bz", "bnz")):
                continue
            j, ncom = k + 1, 0
            while j < len(code) and code[j][1].startswith("//"):
                ncom += 1; j += 1
            if not ncom or j >= len(code) or not code[j][1].startswith("b "):
                continue
            m = code[j][1].split()[1]
            q, labs = j + 1, []
            while q < len(code) and code[q][1].endswith(":") and " " not in code[q][1]:
                labs.append(code[q][1][:-1]); q += 1
            if t[1] not in labs:
                continue
            dead = {code[x][0] for x in range(k + 1, j + 1)}
            lines[i] = lines[i].replace(t[0] + " " + t[1], ("bz" if t[0] == "bnz" else "bnz") + " " + m)
            lines = [ln for x, ln in enumerate(lines) if x not in dead]
            removed, changed = removed + 1, True
            break
    # a jump to the very next instruction
    changed = True
    while changed:
        changed = False
        code = [(i, l.strip()) for i, l in enumerate(lines) if l.strip() and not l.strip().startswith("//")]
        for k, (i, l) in enumerate(code[:-1]):
            t = l.split("//")[0].split()
            if len(t) == 2 and t[0] == "b":
                j = k + 1
                labs = []
                while j < len(code) and code[j][1].endswith(":") and " " not in code[j][1]:
                    labs.append(code[j][1][:-1]); j += 1
                if t[1] in labs:
                    del lines[i]
                    changed = True
                    break
    return "\n".join(lines), removed


def drop_unreferenced_labels(stream):
    used = {l.split()[1] for l in stream if l.split()[0] in ("b", "bz", "bnz", "callsub") and len(l.split()) == 2}
    out, ren = [], {}
    for l in stream:
        if l.endswith(":") and " " not in l:
            if l[:-1] not in used:
                continue
            ren[l[:-1]] = f"K{len(ren)}"
    for l in stream:
        if l.endswith(":") and " " not in l:
            if l[:-1] in ren:
                out.append(ren[l[:-1]] + ":")
            continue
        t = l.split()
        out.append(f"{t[0]} {ren.get(t[1], t[1])}" if len(t) == 2 and t[0] in ("b", "bz", "bnz", "callsub") else l)
    return out


def is_known_comment_only_block(t0: str, t1: str):
    try:
        t1x, removed = remove_comment_only_blocks(t1)
        return removed > 0 and drop_unreferenced_labels(normalise(t1x)) == drop_unreferenced_labels(normalise(t0))
    except Exception:
        return False


PROBE_KINDS = ("comment", "assert", "assert2", "subname", "nested-comment", "after-approve", "after-reject", "after-err", "after-sub-return", "before-approve",
               "comment-only-arm-in-loop", "comment-only-else-in-loop", "comment-only-cond-arm", "comment-only-loop-body")


def probe(job):
    """one annotation construct x one adversarial text x one version: the instruction stream equals that of the unannotated program"""
    kind, text, version = job
    from vf.core import use_repo
    use_repo()
    import pyteal as pt
    out = {"job": list(job), "problem": None, "ran": 0, "known_comment_only": None}

    def build(annotated):
        x = pt.ScratchVar(pt.TealType.uint64)
        cond = pt.Txn.fee() < pt.Int(5000)
        if kind == "comment":
            body = pt.Comment(text, x.store(pt.Int(3))) if annotated else x.store(pt.Int(3))
            return pt.Seq(body, pt.Return(x.load()))
        if kind == "nested-comment":
            inner = x.store(pt.Int(3))
            body = pt.Comment(text, pt.Comment(text, inner)) if annotated else inner
            return pt.Seq(pt.If(cond).Then(body).Else(x.store(pt.Int(4))), pt.Return(x.load()))
        if kind == "assert":
            return pt.Seq(pt.Assert(cond, comment=text) if annotated else pt.Assert(cond), pt.Return(pt.Int(1)))
        if kind == "assert2":
            a = pt.Assert(cond, pt.Txn.fee() > pt.Int(0), comment=text) if annotated else pt.Assert(cond, pt.Txn.fee() > pt.Int(0))
            return pt.Seq(a, pt.Return(pt.Int(1)))
        if kind in ("after-approve", "after-reject", "after-err", "before-approve"):
            # an annotation next to an exit op inside a branch that is followed by more code
            ex = {"after-approve": pt.Approve, "after-reject": pt.Reject, "after-err": pt.Err, "before-approve": pt.Approve}[kind]()
            arm = ex if not annotated else (pt.Seq(pt.Comment(text), ex) if kind == "before-approve" else pt.Seq(ex, pt.Comment(text)))
            # (two shapes: the arm is followed by straight-line code / by another conditional, which changes the block order)
            if version % 2 == 0:
                return pt.Seq(pt.If(cond).Then(arm), x.store(pt.Int(3)), pt.Log(pt.Itob(x.load())), pt.Approve())
            return pt.Seq(pt.If(cond).Then(pt.Seq(pt.Log(pt.Bytes("k")), arm)), pt.If(pt.Txn.fee() > pt.Int(7)).Then(pt.Log(pt.Bytes("j"))), pt.Reject())
        if kind.startswith("comment-only"):
            return comment_only_program(pt, kind, annotated, text)
        if kind == "after-sub-return":
            def g(a):
                r = pt.Return(a + pt.Int(1))
                return pt.Seq(pt.If(a > pt.Int(5)).Then(pt.Seq(r, pt.Comment(text)) if annotated else r), pt.If(a == pt.Int(0)).Then(pt.Log(pt.Bytes("zero"))), pt.Return(a))
            sub = pt.Subroutine(pt.TealType.uint64)(g)
            return pt.Return(sub(pt.Int(2)))
        if kind == "subname":
            def f(a):
                return a + pt.Int(1)
            f.__name__ = text if annotated else "f"
            sub = pt.Subroutine(pt.TealType.uint64)(f)
            return pt.Return(sub(pt.Int(2)))
        raise ValueError(kind)
    try:
        try:
            t0 = pt.compileTeal(build(False), pt.Mode.Application, version=version)
        except (pt.TealInputError, pt.TealCompileError, pt.TealInternalError, pt.TealTypeError):
            return out      # the construct itself is not available at this version
        try:
            t1 = pt.compileTeal(build(True), pt.Mode.Application, version=version)
        except (pt.TealInputError, pt.TealCompileError, pt.TealInternalError, pt.TealTypeError):
            return out      # an annotation text may be rejected
        out["ran"] = 1
        try:
            n0, n1 = normalise(t0), normalise(t1)
        except Exception as e:
            out["problem"] = f"annotated program does not lex as TEAL: {e}"
            out["teal"] = t1
            return out
        if n0 != n1:
            i = next((k for k, (a, b) in enumerate(zip(n0, n1)) if a != b), min(len(n0), len(n1)))
            what = f"instruction streams differ at #{i}: plain {n0[i:i + 2]} vs annotated {n1[i:i + 2]} (lengths {len(n0)}/{len(n1)})"
            if is_known_comment_only_block(t0, t1):
                out["known_comment_only"] = what
            else:
                out["problem"] = what
                out["teal"] = t1
    except Exception as e:
        out["problem"] = f"exception {type(e).__name__}: {str(e)[:200]}"
    return out


# ---- annotations around a store/load pair the slot optimiser removes ------------------------------------------------------------
PLACES = ("before-pair", "between", "after-pair", "later-same-block", "later-block", "earlier-block", "inside-stored-value")
ANNOTS = ("comment-op", "comment-wrap", "assert-comment")


def placement_jobs():
    return [(pl, an, v, ss) for pl in PLACES for an in ANNOTS for (v, ss) in ((8, True), (9, None), (10, None), (10, True), (7, None))]


def placement_case(job):
    """An annotation at each position relative to `x.store(e); x.load()`: the optimiser's decision must not depend on it."""
    place, annot, version, ss = job
    from vf.core import use_repo
    use_repo()
    import pyteal as pt
    out = {"job": list(job), "problem": None, "known": None, "ran": 0}

    def build(annotated):
        x = pt.ScratchVar(pt.TealType.uint64)
        cond = pt.Txn.fee() < pt.Int(5000)

        def ann(stmt=None):
            # the annotated variant of `stmt` (or a stand-alone annotation when there is no statement to carry it)
            if annot == "assert-comment":
                a = pt.Assert(cond, comment="note") if annotated else pt.Assert(cond)
                return [a] + ([stmt] if stmt is not None else [])
            if not annotated:
                return [stmt] if stmt is not None else []
            if annot == "comment-wrap" and stmt is not None:
                return [pt.Comment("note", stmt)]
            return [pt.Comment("note")] + ([stmt] if stmt is not None else [])
        store, use = x.store(pt.Txn.fee() + pt.Int(7)), pt.Pop(x.load())
        pre, mid, post, late, later_block, earlier_block = [], [], [], [], [], []
        if place == "before-pair":
            pre = ann()
        elif place == "between":
            mid = ann()
        elif place == "after-pair":
            post = ann()
        elif place == "later-same-block":
            late = ann(pt.Log(pt.Bytes("z")))
        elif place == "later-block":
            later_block = ann(pt.Log(pt.Bytes("w")))
        elif place == "earlier-block":
            earlier_block = ann(pt.Log(pt.Bytes("e")))
        elif place == "inside-stored-value":
            if annot == "assert-comment":
                return None
            store = x.store(pt.Comment("note", pt.Txn.fee() + pt.Int(7)) if annotated else pt.Txn.fee() + pt.Int(7))
        return pt.Seq(pt.If(cond).Then(pt.Seq(*(earlier_block or [pt.Log(pt.Bytes("e"))]))) if place == "earlier-block" else pt.Log(pt.Bytes("s")),
                      *pre, store, *mid, use, *post, pt.Log(pt.Bytes("y")), *(late or []),
                      pt.If(cond).Then(pt.Seq(*(later_block or [pt.Log(pt.Bytes("w"))]))), pt.Approve())
    try:
        if build(False) is None:
            return out
        kw = {"optimize": pt.OptimizeOptions(scratch_slots=ss)} if ss is not None else {}
        t0 = pt.compileTeal(build(False), pt.Mode.Application, version=version, **kw)
        t1 = pt.compileTeal(build(True), pt.Mode.Application, version=version, **kw)
        out["ran"] = 1
        n0, n1 = normalise(t0), normalise(t1)
        if n0 != n1:
            i = next((k for k, (a, b) in enumerate(zip(n0, n1)) if a != b), min(len(n0), len(n1)))
            what = f"instruction streams differ at #{i}: plain {n0[i:i + 2]} vs annotated {n1[i:i + 2]} (lengths {len(n0)}/{len(n1)})"
            if is_known_blocked_pair(t1, n0, n1):
                out["known"] = what
            else:
                out["problem"] = what
                out["teal"] = t1
    except Exception as e:
        out["problem"] = f"exception {type(e).__name__}: {str(e)[:200]}"
    return out


def run(report: Report, tier, seed):
    report.trust("fragcheck spec terms for Comment / Nonce / Pragma / Assert(comment) (annotation = child's meaning)", "spec/avm.py TEAL line grammar (used to normalise)")
    report.assume("per-construct part is proved on opaque children (fragcheck); text-level injection (label comments, comment ops) is checked on generated programs with adversarial texts (bounded stand-in)")
    run_fragcheck(report, "O18.frag", classes={"Comment", "Nonce", "Pragma", "Assert"}, tier=tier)
    n = 80 if tier == "quick" else 900
    jobs = [(seed * 7919 + 100 + i, [2, 3, 4, 5, 6, 7, 8, 9, 10][i % 9]) for i in range(n)]
    with ProcessPoolExecutor(max_workers=16) as ex:
        res = list(ex.map(case, jobs, chunksize=4))
    bad = [r for r in res if r["problems"]]
    known = [r for r in res if r.get("known_optimizer")]
    report.bounded.append(Bounded(function="compileTeal with / without annotations", contract="instruction streams identical apart from comment lines and label spellings",
                                  bound=f"{n} generated programs (seed {seed}) annotated at random statement positions with adversarial texts (line breaks, //, ;, quotes, label look-alikes) incl. subroutine names",
                                  cases=sum(r["ran"] for r in res), distinct_nontrivial=len({r['seed'] for r in res if r['ran']}), failures=len(bad) + len(known)))
    pj = [(k, t, v) for k in PROBE_KINDS for t in NASTY for v in range(2, 11)]
    with ProcessPoolExecutor(max_workers=16) as ex:
        pr = list(ex.map(probe, pj, chunksize=16))
    pbad = [r for r in pr if r["problem"]]
    pknown = [r for r in pr if r.get("known_comment_only")]
    report.bounded.append(Bounded(function="one annotation construct in a fixed small program", contract="instruction stream identical to the unannotated program (or the text is rejected)",
                                  bound=f"{len(PROBE_KINDS)} constructs (Comment, nested Comment, Assert comment with 1 / 2 conditions, subroutine name, a Comment right after / before an exit op inside a branch) x {len(NASTY)} adversarial texts x versions 2..10",
                                  cases=sum(r["ran"] for r in pr), distinct_nontrivial=len(pj), failures=len(pbad) + len(pknown)))
    if pknown:
        k0 = pknown[0]
        report.violation(Violation(key="comment-only-block-keeps-its-jumps", what=f"annotation probe {k0['job']}: {k0['known_comment_only']}"[:400],
                                   replay={"input": {"probe": k0["job"]}}, confirmed_native=True))
    plj = placement_jobs()
    with ProcessPoolExecutor(max_workers=16) as ex:
        plr = list(ex.map(placement_case, plj, chunksize=4))
    plbad = [r for r in plr if r["problem"]]
    report.bounded.append(Bounded(function="annotation placed around a store/load pair that the slot optimiser removes", contract="the optimiser's decision (hence the instruction stream) does not depend on the annotation",
                                  bound=f"{len(PLACES)} positions relative to the pair x {len(ANNOTS)} annotation forms x 5 (version, scratch_slots) settings", cases=sum(r["ran"] for r in plr),
                                  distinct_nontrivial=len(plj), failures=len(plbad) + sum(1 for r in plr if r["known"])))
    for b in plbad[:2]:
        report.violation(Violation(key=f"placement:{b['job'][0]}:{b['job'][1]}", what=f"annotation {b['job'][1]} at position {b['job'][0]} (v{b['job'][2]}, scratch_slots={b['job'][3]}): {b['problem']}"[:400],
                                   replay={"input": {"placement": b["job"]}, "teal": b.get("teal")}, confirmed_native=True))
    if not known:
        known = [{"known_optimizer": r["known"], "seed": None, "version": r["job"][2], "placement": r["job"]} for r in plr if r["known"]]
    if known:
        k = known[0]
        report.violation(Violation(key="comment-blocks-slot-optimisation", what="with the slot optimiser on, " + k["known_optimizer"],
                                   replay={"input": ({"placement": k["placement"]} if k.get("placement") else {"seed": k["seed"], "version": k["version"]}), "names": k.get("names")}, confirmed_native=True))
    report.extra["explanation"] = "P: annotation constructs via fragcheck; B: text-level invariance on generated programs"
    report.settle_refuted(lambda fn, obs: ({"input": {"probe": pbad[0]["job"]}, "what": pbad[0]["problem"]} if pbad else None))
    if pbad and not any(o.status == "refuted" for o in report.obs):
        b = pbad[0]
        report.violation(Violation(key=f"probe:{b['job'][0]}:{b['job'][2]}", what=f"annotation probe {b['job']}: {b['problem']}"[:400],
                                   replay={"input": {"probe": b["job"]}, "teal": b.get("teal")}, confirmed_native=True))
    seen = set()
    for b in bad:
        names = b.get("names") or {}
        key = "label-comment:line-break-in-subroutine-name" if any(("\n" in v or "\r" in v) for v in names.values()) else f"annot:{b['seed']}:{b['version']}"
        if key in seen:
            continue
        seen.add(key)
        report.violation(Violation(key=key, what=b["problems"][0][:400], replay={"input": {"seed": b["seed"], "version": b["version"]}, "names": names, "teal": b.get("teal")},
                                   confirmed_native=True))


def replay(data):
    r = data.get("replay") or {}
    inp = (r.get("native") or {}).get("input") or r.get("input")
    if not inp:
        return 1
    if "probe" in inp:
        out = probe(tuple(inp["probe"]))
        print(out["problem"] or out.get("known_comment_only"))
        return 1 if out["problem"] else 0
    if "placement" in inp:
        out = placement_case(tuple(inp["placement"]))
        print(out["problem"] or out["known"])
        return 1 if (out["problem"] or out["known"]) else 0
    out = case((inp["seed"], inp["version"]))
    print(out["problems"] or out.get("known_optimizer"))
    return 1 if (out["problems"] or out.get("known_optimizer")) else 0
