"""C11 Compilation is deterministic and independent of process history."""

import json
import os
import subprocess
import sys
from concurrent.futures import ThreadPoolExecutor

from vf.core import Report, Bounded, Violation, Ob, VERIF, REPO

LEVEL = "other"


def run_worker(job, hashseed):
    env = dict(os.environ, PYTHONHASHSEED=str(hashseed), PYTHONDONTWRITEBYTECODE="1", VERIF_REPO=REPO)
    p = subprocess.run([sys.executable, "-B", os.path.join(VERIF, "checks", "c11_worker.py"), json.dumps(dict(job, repo=REPO))],
                       capture_output=True, text=True, env=env, timeout=900)
    for line in p.stdout.splitlines():
        if line.startswith("RESULT "):
            return json.loads(line[7:])
    raise RuntimeError(f"worker failed: {p.stderr[-800:]}")


def setorder_obligations(report):
    from . import setorder
    sites = setorder.audit(REPO)
    allow = {(a["file"], a["function"], a["how"], a["expr"]): a["reason"] for a in setorder.load_allow(VERIF)}
    seen = set()
    for s in sites:
        key = (s["file"], s["function"], s["how"], s["expr"])
        seen.add(key)
        ok = key in allow
        report.ob(Ob(id=f"O11.3/{s['file']}:{s['function']}:{s['how']}:{s['expr']}", function=f"{s['file']}::{s['function']}", kind="F",
                     status="discharged" if ok else "refuted", backend="frame-checker (AST audit of set iterations)",
                     detail=("classified order-insensitive: " + allow[key]) if ok else
                     "iteration over a set whose order is not fixed by sorted() and is not classified as order-insensitive: the emitted TEAL may depend on hash seeds / object addresses",
                     model=None if ok else s))
    report.ob(Ob(id="O11.3/audit-ran", function="pyteal compile path", kind="F", status="discharged" if sites else "unknown",
                 backend="frame-checker", detail=f"{len(sites)} set-iteration sites found on the compile path (vacuity guard: must be > 0)"))


def run(report: Report, tier, seed):
    setorder_obligations(report)
    from vf.runner import run_contracts
    from vf.core import use_repo
    use_repo()
    # the slot numbering is a function of the slots' (id, reserved) pairs alone: it cannot depend on set iteration order
    run_contracts(report, [("contracts.c10_assign", "AssignSlots", "O11.4")])
    report.trust("python subprocesses with explicit PYTHONHASHSEED as independent fresh processes")
    report.assume("P: the slot numbering (region contract on assignScratchSlotsToSubroutines) fills the gaps left by requested ids in ascending id order - a function of the (id, reserved) pairs, not of "
                  "set iteration order; F: every other set iteration on the compile path is audited syntactically",
                  "no reads-frame / restore-on-all-exits contracts: independence of process history is explored by comparing digests of compiled TEAL across histories, hash seeds and repetitions (bounded stand-in)")
    n = 24 if tier == "quick" else 200
    items = [["gen", seed * 100003 + 88000 + i, [4, 6, 8, 9, 10][i % 5]] for i in range(n)] + \
            [["abi", k, v] for k in range(2) for v in (6, 8, 10)] + [["router", k, v] for k in range(1) for v in (6, 8, 10)] + \
            [["collide", k, v] for k in range(3) for v in (5, 6, 10)] + [["routerfail", k, v] for k in range(2) for v in (7, 8, 10)] + [["siblings", k, v] for k in range(2) for v in (5, 8)] + [["query", k, v] for k in range(2) for v in (6, 8, 10)] + [["sharedopts", k, v] for k in range(2) for v in (6, 10)]
    histories = {
        "fresh": [],
        "after-successful": ["ok", "router", "tmpl"],
        "after-failing": ["fail-type", "fail-sub", "fail-body"],
        "mixed": ["ok", "fail-sub", "router", "fail-body", "tmpl"],
    }
    jobs = []
    # reference: one fresh process per item group, hash seed 0
    jobs.append(("reference", {"items": items, "history": [], "repeat_same_object": True, "rebuild": True}, 0))
    for hs in ([1, 12345] if tier == "quick" else [1, 2, 3, 12345, 999999]):
        jobs.append((f"hashseed={hs}", {"items": items, "history": []}, hs))
    for name, h in histories.items():
        if name == "fresh":
            continue
        jobs.append((f"history={name}", {"items": items, "history": h, "fail_first": True}, 0))
    # different item order (other programs compiled earlier in the process)
    jobs.append(("reversed-order", {"items": items[::-1], "history": []}, 7))
    jobs.append(("history=own-failed-compile", {"items": [i for i in items if i[0] == "routerfail"], "history": [], "fail_first": True}, 0))
    with ThreadPoolExecutor(max_workers=8) as ex:
        results = list(ex.map(lambda j: run_worker(j[1], j[2]), jobs))
    ref = results[0]
    problems = {}
    ncmp = 0
    # repetition within the reference process
    for k, d in ref.items():
        if len(set(d)) != 1:
            kind = json.loads(k)[0]
            problems.setdefault(f"repeat:{kind}", []).append((k, "recompiling the same object / rebuilding the same source gives different TEAL", d))
    for (name, job, hs), res in zip(jobs[1:], results[1:]):
        for k, d in res.items():
            ncmp += 1
            if d[0] != ref[k][0]:
                kind = json.loads(k)[0]
                problems.setdefault(f"{name.split('=')[0]}:{kind}", []).append((k, f"differs from the fresh-process result under {name}", [ref[k][0], d[0]]))
    report.bounded.append(Bounded(function="compileTeal / Router.compile_program digests across processes and histories",
                                  contract="byte-identical TEAL for the same source: any hash seed, any earlier API activity (successful or failing compilations, router builds), any order, repeated compilation of the same object",
                                  bound=f"{len(items)} programs (generated, ABI subroutine, router) x {len(jobs)} process scenarios (hash seeds, 3 histories, reversed order, in-process repetition)",
                                  cases=ncmp + len(ref), distinct_nontrivial=len(items), failures=sum(len(v) for v in problems.values())))
    report.sample({"scenarios": [j[0] for j in jobs]})
    report.extra["explanation"] = "F: audit of unordered iterations on the compile path (syntactic, stated inference rules); B: digests across processes / histories"
    report.settle_refuted(None)
    for key, lst in problems.items():
        k, why, d = lst[0]
        report.violation(Violation(key=key, what=f"{why}: item {k} ({len(lst)} item(s) affected)", replay={"item": k, "digests": d, "scenario": key}, confirmed_native=True))


def replay(data):
    print(data.get("what"))
    return 1
