"""C02 Subroutine calls behave as function calls, incl. recursion."""
from __future__ import annotations

from vf.core import Report, Bounded, Violation
from vf.runner import run_contracts
from . import e2e

LEVEL = "proof"
KINDS = ("outcome", "asm")  # the stack-hygiene clause belongs to C03 / C05

FEATURES = {"subs": True, "recursion": True, "loops": True, "bytes": False, "wide": False, "cond": False, "comments": False}


def specs_for(tier, seed):
    n = 48 if tier == "quick" else 400
    out = []
    for i in range(n):
        v = [4, 5, 6, 7, 8, 9, 10][i % 7]
        opts = [{}]
        if v >= 8:
            opts.append({"frame_pointers": False})
        if i % 3 == 0:
            opts.append({"scratch_slots": True} if v < 9 else {"scratch_slots": False})
        out.append({"seed": seed * 100003 + i, "version": v, "mode": "Application", "features": FEATURES, "size": 2,
                    "options": opts})
    return out


def bounded(report, tier, seed):
    known_opt = []
    specs = specs_for(tier, seed)
    res = e2e.sweep(specs)
    keys = set()
    fails = []
    nontrivial = 0
    ran = 0
    for s, r in zip(specs, res):
        ran += r["ran"]
        if r["key"] and r["key"] not in keys:
            keys.add(r["key"])
            nontrivial += 1 if r["nontrivial"] else 0
        mm = [m for m in r["mismatches"] if m["kind"] in KINDS]
        if mm and r.get("known_multistore"):
            # the recorded optimiser finding (known_findings O3.4), attributed exactly by e2e.repaired_optimizer
            known_opt.append({"input": {"spec": s}, "mismatches": mm[:2], "teal": r["teals"]})
        elif mm:
            fails.append({"input": {"spec": s}, "mismatches": mm[:3], "program": r.get("program"),
                          "teal": r["teals"]})
    report.bounded.append(Bounded(
        function="pyteal.compileTeal on generated programs with subroutines / recursion, executed on the spec AVM",
        contract="observable outcome == direct evaluation of the program description (function-call semantics: fresh locals per activation)",
        bound=f"{len(specs)} generated programs (seed {seed}), versions 4..10, default / frame_pointers=False / scratch_slots toggled, 2 contexts",
        cases=ran, distinct_nontrivial=nontrivial, failures=len(fails) + len(known_opt)))
    if known_opt:
        k = known_opt[0]
        report.violation(Violation(key="O3.4:store-elsewhere+adjacent-store-load", what="with the slot optimiser on, a multiply-stored slot is removed and the program computes something else: " + k["mismatches"][0]["what"][:200],
                                   replay=k, confirmed_native=True))
    return fails


def run(report: Report, tier, seed):
    report.trust("spec/symavm.py (load, store, cover, uncover, dig, swap, pop on an array stack of symbolic height)",
                 "spec/avm.py + spec/progsem.py (concrete oracle of the bounded stand-in and of replay)",
                 "pyvc encoding of the Python subset", "z3 5.1 / cvc5 1.0.3")
    report.assume(
        "callee summary at a call site: pops its n arguments, pushes r in {0,1} results where r = 1 iff the callee returns a value or carries an ABI output, leaves the caller's stack below untouched, may clobber every scratch slot",
        "builtin contract: sorted(set of ints) is the strictly increasing enumeration of the set",
        "O10.2(e): assigned local slot ids lie in [0,256) and are pairwise distinct (proved under C10)",
        "requires: a TealComponent references at most one subroutine (only `callsub X` does)",
        "A4 L-call (meta-lemma): the per-call-site contract + AVM frame discipline give caller-state preservation for whole programs",
        "graph_search is under contract (pyvc): True iff `end` is reachable from `start` by >= 1 edges; reachability is the least fixed point of the two closure rules, whose induction principle "
        "is used once, instantiated with the final visited set (hypothesis lfp-induction); node equality is object identity",
        "not yet under contract (bounded only): SubroutineEval.evaluate, frame.py, the comprehension in findRecursionPoints that calls graph_search per call edge (exhaustive small call graphs)")
    run_contracts(report, [("contracts.c02_spill", "Spill", "O2.4"), ("contracts.c02_graph", "GraphSearch", "O2.3")])
    from .frag import run_fragcheck
    run_fragcheck(report, "O2.1", classes={"SubroutineCall", "Return"}, tier=tier)
    fails = bounded(report, tier, seed)
    from . import abisub
    from .abi_e2e import pool_map
    ares = pool_map(abisub.case, abisub.jobs(tier, seed))
    abad = [r for r in ares if r["problems"]]
    report.bounded.append(Bounded(function="ABIReturnSubroutine calls with mixed parameter kinds", contract="by-value, by-reference (caller sees the writes), ABI and ABI-output parameters deliver / return the documented values in both calling conventions",
                                  bound=f"{len(ares)} generated signatures (0..4 parameters of Expr / ScratchVar / abi.Uint64 / abi.String / abi.Tuple kinds, with and without output) x versions 6..10 x frame-pointer / optimiser settings",
                                  cases=sum(r["ran"] for r in ares), distinct_nontrivial=len(ares), failures=len(abad)))
    if abad:
        b = abad[0]
        fails = [{"input": {"abisub": [b["seed"], b["version"], b["opts"]]}, "mismatches": [{"what": b["problems"][0]}], "teal": b.get("teal")}] + fails
    from . import recur_scenarios
    rr = pool_map(recur_scenarios.case, recur_scenarios.jobs(tier))
    rr += pool_map(recur_scenarios.byref_case, recur_scenarios.byref_jobs())
    rbad = [r for r in rr if r["problems"]]
    report.bounded.append(Bounded(function="mutually / self recursive routines of every pair of kinds (plain value / plain none / ABI output / ABI void)",
                                  contract="the call returns the value of the Python recurrence and a local written before the re-entrant call is intact after it, in both calling conventions",
                                  bound=f"{len(rr)} (caller kind, callee kind, kind of local, self/mutual) scenarios x versions 6..10 x 9 option settings x depths {recur_scenarios.DEPTHS}; plus recursion through a by-reference parameter (refused when built, or right)",
                                  cases=sum(r["ran"] for r in rr), distinct_nontrivial=len(rr), failures=len(rbad)))
    if rbad:
        b = rbad[0]
        fails = [{"input": {"recursion": b["job"]}, "mismatches": [{"what": f"recursion scenario {b['job']} v{b['problems'][0].get('version')} {b['problems'][0].get('setting')}: {b['problems'][0]['what']}"}]}] + fails
    from . import recspill
    sp = pool_map(recspill.case, recspill.jobs(tier))
    spbad = [r for r in sp if r["problems"] or r["crash"]]
    report.bounded.append(Bounded(function="recursive routines of arity 0..3 at every version with subroutines (v4 restores spilled slots with dig, later versions with uncover)",
                                  contract="the call returns the value of the Python recurrence; locals written before the re-entrant call are intact after it",
                                  bound=f"arity {recspill.ARITIES} x result uint64/none x 0..2 live locals x self/mutual x versions 4..10 x 2-3 option settings x depths {recspill.DEPTHS}",
                                  cases=sum(r["ran"] for r in sp), distinct_nontrivial=len(sp), failures=len(spbad)))
    if spbad:
        b = spbad[0]
        w = b["problems"][0] if b["problems"] else {"version": b["crash"]["version"], "setting": b["crash"]["setting"], "what": f"{b['crash']['type']}: {b['crash']['message']}"}
        fails = [{"input": {"recspill": b["job"]}, "mismatches": [{"what": f"recursive routine {b['job']} (arity, result, locals, mutual) v{w['version']} {w['setting']}: {w['what']}"}]}] + fails
    # the recorded optimiser finding O3.4, shown on a fixed program and attributed exactly (disappears when the multiply-stored slot is withheld)
    from . import opt_native
    w34 = opt_native.o34_witness("result")
    report.bounded.append(Bounded(function="slot optimiser on a slot that is stored twice and loaded once right after a store", contract="the subroutine returns its result",
                                  bound="one fixed program (the example of known_findings O3.4)", cases=1, distinct_nontrivial=1, failures=1 if w34 else 0))
    if w34:
        report.violation(Violation(key="O3.4:store-elsewhere+adjacent-store-load", what=w34["what"][:400], replay=w34, confirmed_native=True))
    from vf.core import use_repo
    use_repo()
    from . import graph_native
    gc, gf = graph_native.check(tier, seed)
    report.bounded.append(Bounded(function="pyteal.compiler.subroutines.findRecursionPoints", contract="callee is a re-entry point of caller iff the caller is reachable from the callee",
                                  bound="all call graphs with <= 3 routines x every key order (exhaustive) + sampled 4-routine graphs", cases=gc, distinct_nontrivial=gc, failures=len(gf)))
    if gf:
        report.violation(Violation(key=f"recursion-points:{gf[0]['edges']}:{gf[0]['order']}", what=f"findRecursionPoints: {gf[0]['what']} on call graph edges {gf[0]['edges']} (key order {gf[0]['order']})",
                                   replay={"input": {"graph": gf[0]}}, confirmed_native=True))
    report.sample({"obligation": "O2.4/callsite/stack-after-restore",
                   "meaning": "after `before; callsub f; after` the stack is base ++ result(f) for symbolic numArgs, len(slots), version"})

    def search(fn, obs):
        if "graph" in fn:
            return {"input": {"graph": gf[0]}, "what": gf[0]["what"]} if gf else None
        return fails[0] if fails else None

    report.settle_undecided(search)
    report.settle_refuted(search)
    if fails and not any(o.status == "refuted" for o in report.obs):
        f = fails[0]
        report.violation(Violation(key=(f"bounded:{f['input']['spec']['seed']}:{f['input']['spec']['version']}" if "spec" in f["input"] else (f"abisub:{f['input']['abisub']}" if "abisub" in f["input"] else f"recursion:{f['input']['recursion']}")),
                                   what=f"compiled program differs from its description: {f['mismatches'][0]['what'][:300]}",
                                   replay=f, confirmed_native=True))


def replay(data):
    r = data.get("replay") or {}
    nat = r.get("native") or r
    if (nat.get("input") or {}).get("o34"):
        from . import opt_native
        w = opt_native.o34_witness(nat["input"]["o34"])
        print(w["what"] if w else "not reproduced")
        return 1 if w else 0
    if (nat.get("input") or {}).get("abisub"):
        from . import abisub
        out = abisub.case(tuple(nat["input"]["abisub"]))
        print(out["problems"])
        return 1 if out["problems"] else 0
    if (nat.get("input") or {}).get("recursion"):
        from . import recur_scenarios
        j = tuple(nat["input"]["recursion"])
        out = recur_scenarios.byref_case(j) if len(j) == 2 else recur_scenarios.case(j)
        print([{k: v for k, v in p.items() if k != "teal"} for p in out["problems"][:2]])
        return 1 if out["problems"] else 0
    if (nat.get("input") or {}).get("recspill"):
        from . import recspill
        out = recspill.case(tuple(nat["input"]["recspill"]))
        print(out["crash"], [p["what"] for p in out["problems"][:2]])
        return 1 if (out["problems"] or out["crash"]) else 0
    spec = (nat.get("input") or {}).get("spec")
    if not spec:
        print("no concrete input in replay file; refuted obligations:", [x["id"] for x in r.get("refuted", [])])
        return 1
    out = e2e.one_case(spec)
    for m in out["mismatches"]:
        print("MISMATCH", m)
    print("replayed seed", spec["seed"], "version", spec["version"], "->", "violation reproduced" if out["mismatches"] else "no mismatch")
    return 1 if out["mismatches"] else 0
