"""C01 Compiled TEAL computes what the PyTeal expression denotes."""
from __future__ import annotations

from vf.core import Report, Bounded, Violation, Ob
from vf.runner import run_contracts
from . import e2e
from .frag import run_fragcheck

LEVEL = "proof"
KINDS = ("outcome", "asm")  # the stack-hygiene clause belongs to C03 / C05


def specs_for(tier, seed):
    n = 96 if tier == "quick" else 1200
    out = []
    for i in range(n):
        v = [2, 3, 4, 5, 6, 7, 8, 9, 10][i % 9]
        mode = "Signature" if i % 5 == 4 else "Application"
        out.append({"seed": seed * 100003 + 7000 + i, "version": v, "mode": mode, "size": 3,
                    "features": {"subs": i % 3 == 0, "recursion": False}, "options": [{}]})
    return out


def bounded(report, tier, seed):
    known_opt = []
    specs = specs_for(tier, seed)
    res = e2e.sweep(specs)
    keys, fails, nontrivial, ran = set(), [], 0, 0
    for s, r in zip(specs, res):
        ran += r["ran"]
        if r["key"] and r["key"] not in keys:
            keys.add(r["key"])
            nontrivial += 1 if r["nontrivial"] else 0
        mm = [m for m in r["mismatches"] if m["kind"] in KINDS]
        if mm and r.get("known_multistore"):
            # the recorded optimiser finding (known_findings O3.4), attributed exactly by e2e.repaired_optimizer
            known_opt.append({"input": {"spec": s}, "mismatches": mm[:2], "teal": r["teals"]})
        elif mm:
            fails.append({"input": {"spec": s}, "mismatches": mm[:3], "program": r.get("program"), "teal": r["teals"]})
    report.bounded.append(Bounded(
        function="pyteal.compileTeal (whole pipeline) on generated programs, executed on the spec AVM",
        contract="verdict, return value, ordered logs / state writes == direct evaluation of the program description",
        bound=f"{len(specs)} generated programs (seed {seed}), versions 2..10, both modes, 2 transaction contexts",
        cases=ran, distinct_nontrivial=nontrivial, failures=len(fails) + len(known_opt)))
    if known_opt:
        k = known_opt[0]
        report.violation(Violation(key="O3.4:store-elsewhere+adjacent-store-load", what="with the slot optimiser on, a multiply-stored slot is removed and the program computes something else: " + k["mismatches"][0]["what"][:200],
                                   replay=k, confirmed_native=True))
    return fails


def run(report: Report, tier, seed):
    report.trust("spec/langspec.py (op arities), fragcheck/core.py (meaning of control ops: bnz/bz via isnz, assert, err, return, retsub, stack plumbing; all other ops uninterpreted)",
                 "spec terms of fragcheck/scenarios.py (documented meaning of each construct)",
                 "spec/avm.py + spec/progsem.py (oracle of the bounded stand-in)", "z3 5.1")
    report.assume(
        "A1 L-frag (meta-lemma, not mechanised): if every __teal__ satisfies the fragment contract, the composed graph has the composed semantics",
        "parametricity: a construct observes its children only through type_of / has_return / __teal__ (opaque proxies; class-dependent branches are enumerated as separate scenarios)",
        "control domain enumerated, not symbolic: child types x has_return x pending exits (0..2) x listed versions x modes; fragment scenarios use operator arities 2,3,5 - "
        "the linking of the children for EVERY arity is proved separately (pyvc contracts on TealBlock.FromOp, NaryExpr.__teal__, Seq.__teal__, Cond.__teal__: children chained in order, operator blocks where documented, nothing else written)",
        "flattenBlocks is under a pyvc contract that requires wf_blocks; sortBlocks is under a pyvc contract that ensures it (duplicate-free, closed under successors, start listed, end last); "
        "L-flat (per-block lowering => trace equivalence of graph and list) is a meta-lemma",
        "NormalizeBlocks, deferred-expression splice: covered here only by bounded stand-ins")
    run_fragcheck(report, "O1.frag", tier=tier)
    run_contracts(report, [("contracts.c01_flatten", "FlattenBlocks", "O1.26"), ("contracts.c01_sort", "SortBlocks", "O1.27"),
                           ("contracts.c01_link", "FromOp", "O1.20"), ("contracts.c01_link", "NaryTeal", "O1.21"), ("contracts.c01_link", "SeqTeal", "O1.22"), ("contracts.c01_link", "CondTeal", "O1.23"),
                           ("contracts.c01_substring", "SubstringConst", "O1.14a"), ("contracts.c01_substring", "ExtractConst", "O1.14b"),
                           ("contracts.c01_substring", "SuffixConst", "O1.14c")])
    from . import substring_native
    from . import ir_native
    nmax = 3 if tier == "quick" else 4
    fc, ff = ir_native.check_flatten(nmax)
    sc, sf = ir_native.check_sort(nmax)
    report.bounded.append(Bounded(function="pyteal.compiler.flatten.flattenBlocks", contract="from every block and condition class control reaches exactly the graph successor; labels unique and defined",
                                  bound=f"all block lists of <= {nmax} blocks (terminal / simple / conditional, every successor assignment)", cases=fc, distinct_nontrivial=fc, failures=len(ff)))
    report.bounded.append(Bounded(function="pyteal.compiler.sort.sortBlocks", contract="duplicate-free enumeration of the reachable blocks ending with `end`; TealInternalError iff end unreachable",
                                  bound=f"all graphs of <= {nmax} blocks x every terminal end block", cases=sc, distinct_nontrivial=sc, failures=len(sf)))
    fails = bounded(report, tier, seed)
    from . import shared_objs
    from concurrent.futures import ProcessPoolExecutor
    sj = shared_objs.jobs(tier)
    with ProcessPoolExecutor(max_workers=16) as ex:
        sr = list(ex.map(shared_objs.case, sj, chunksize=8))
    sdiff = [r for r in sr if r["differs"]]
    report.bounded.append(Bounded(function="compileTeal on programs that use one Expr object at several places", contract="same TEAL as the program built from separately constructed equal objects",
                                  bound=f"{len(shared_objs.TEMPLATES)} sharing templates x {len(shared_objs.STMTS)} statements x versions x slot optimiser on/off",
                                  cases=sum(r["ran"] for r in sr), distinct_nontrivial=len(sj), failures=len(sdiff)))
    for b in sdiff[:2]:
        report.violation(Violation(key=f"shared:{b['job'][0]}:{b['job'][1]}", what=f"sharing template {b['job']}: {b['differs']}"[:400], replay={"shared": b["job"]}, confirmed_native=True))

    # blocks that hold only comments (an arm / body consisting of nothing but Comment(...)): executed against their meaning
    from . import c18 as _c18
    cej = [(k, v) for k in _c18.COMMENT_ONLY_KINDS for v in (5, 6, 8, 10)]
    cer = [_c18.comment_only_exec(j) for j in cej]
    cebad = [r for r in cer if r["problem"]]
    report.bounded.append(Bounded(function="compileTeal on loops whose arm / body is nothing but a Comment", contract="the program logs what its description says",
                                  bound=f"{len(_c18.COMMENT_ONLY_KINDS)} shapes x versions 5, 6, 8, 10, with and without the comment", cases=2 * len(cer), distinct_nontrivial=len(cer), failures=len(cebad)))
    from . import opsugar
    on, obad = opsugar.check()
    report.ob(Ob(id="O1.28/operator-overloads-build-the-documented-expression", function="pyteal.ast.expr.Expr (__lt__ ... __rshift__, And, Or)", kind="E",
                 status="refuted" if obad else ("discharged" if on >= 200 else "unknown"), backend=f"enumeration({len(opsugar.BUILD)} overloaded operators x {len(opsugar.PAIRS)} asymmetric operand pairs, executed)",
                 detail="x OP y written with the Python operator computes what the operator means on uint64 (value, or failure on overflow / underflow / division by zero / shift >= 64)", model=obad[:4] or None))
    # the recorded optimiser finding O3.4, shown on a fixed program and attributed exactly (disappears when the multiply-stored slot is withheld)
    from . import opt_native
    w34 = opt_native.o34_witness("result")
    report.bounded.append(Bounded(function="slot optimiser on a slot that is stored twice and loaded once right after a store", contract="the subroutine returns its result",
                                  bound="one fixed program (the example of known_findings O3.4)", cases=1, distinct_nontrivial=1, failures=1 if w34 else 0))
    if w34:
        report.violation(Violation(key="O3.4:store-elsewhere+adjacent-store-load", what=w34["what"][:400], replay=w34, confirmed_native=True))
    def directed(obs):
        """native search aimed at the construct whose fragment obligation failed (same oracle as the sweep)"""
        feats = {"subs": False, "recursion": False}
        if any("/for/" in o.id or "/while/" in o.id or "loop" in o.id for o in obs):
            feats["loopheavy"] = True
        specs = [{"seed": seed * 7919 + 50000 + i, "version": [2, 6, 10][i % 3], "mode": "Application", "size": 3, "features": feats, "options": [{}]} for i in range(240)]
        for s, r in zip(specs, e2e.sweep(specs)):
            mm = [m for m in r["mismatches"] if m["kind"] in KINDS]
            if mm:
                return {"input": {"spec": s}, "mismatches": mm[:3], "program": r.get("program"), "teal": r["teals"]}
        return None

    def search(fn, obs):
        if "flattenBlocks" in fn or "c01_flatten" in fn:
            if ff:
                return {"input": {"block_list": ff[0]}, "what": ff[0]["what"]}
            if cebad:
                return {"input": {"comment_only": cebad[0]["job"]}, "what": cebad[0]["problem"]}
            return None
        if "sortBlocks" in fn or "c01_sort" in fn:
            return {"input": {"block_list": sf[0]}, "what": sf[0]["what"]} if sf else None
        if "substring" in fn:
            for o in obs:
                hit = substring_native.from_model(fn, o.model if isinstance(o.model, dict) else None)
                if hit:
                    return hit
            return None
        return fails[0] if fails else directed(obs)

    report.settle_undecided(search)
    report.settle_refuted(search)
    if cebad and not any(o.status == "refuted" for o in report.obs):
        report.violation(Violation(key=f"comment-only:{cebad[0]['job'][0]}", what=cebad[0]["problem"][:400], replay={"input": {"comment_only": cebad[0]["job"]}, "teal": cebad[0].get("teal")}, confirmed_native=True))
    for name, lst in (("flattenBlocks", ff), ("sortBlocks", sf)):
        if lst and not any(name in v.what for v in report.violations):
            report.violation(Violation(key=f"ir:{name}:{lst[0]['kinds']}:{lst[0]['succ']}", what=f"{name}: {lst[0]['what']}", replay={"input": {"block_list": lst[0]}}, confirmed_native=True))
    if fails and not any(o.status == "refuted" for o in report.obs):
        f = fails[0]
        report.violation(Violation(key=f"bounded:{f['input']['spec']['seed']}:{f['input']['spec']['version']}",
                                   what=f"compiled program differs from its description: {f['mismatches'][0]['what'][:300]}",
                                   replay=f, confirmed_native=True))


def replay(data):
    r = data.get("replay") or {}
    if r.get("shared"):
        from . import shared_objs
        out = shared_objs.case(tuple(r["shared"]))
        print(out)
        return 1 if out["differs"] else 0
    nat = r.get("native") or r
    if (nat.get("input") or {}).get("comment_only"):
        from . import c18 as _c18
        out = _c18.comment_only_exec(tuple(nat["input"]["comment_only"]))
        print(out["problem"])
        return 1 if out["problem"] else 0
    if (nat.get("input") or {}).get("o34"):
        from . import opt_native
        w = opt_native.o34_witness(nat["input"]["o34"])
        print(w["what"] if w else "not reproduced")
        return 1 if w else 0
    spec = (nat.get("input") or {}).get("spec")
    if not spec:
        print("no concrete input in replay file; refuted obligations:", [x["id"] for x in r.get("refuted", [])])
        return 1
    out = e2e.one_case(spec)
    for m in out["mismatches"]:
        print("MISMATCH", m)
    return 1 if out["mismatches"] else 0
