"""Bounded native stand-in for the optimiser's dependency test: exhaustive small graphs."""
import itertools


def check_has_load_dependencies():
    import pyteal as pt
    from pyteal.ir import TealSimpleBlock, TealOp, Op
    from pyteal.compiler.optimizer.optimizer import _has_load_dependencies
    s, t = pt.ScratchSlot(), pt.ScratchSlot()
    alphabet = [("load", s), ("store", s), ("load", t), ("pop", None)]
    cases, fails = 0, []
    for n1 in range(0, 4):
        for n2 in range(0, 3):
            for ops1 in itertools.product(range(4), repeat=n1):
                for ops2 in itertools.product(range(4), repeat=n2):
                    def mk(code):
                        m, sl = alphabet[code]
                        return TealOp(None, getattr(Op, m), sl) if sl is not None else TealOp(None, Op.pop)
                    b1 = TealSimpleBlock([mk(c) for c in ops1])
                    b2 = TealSimpleBlock([mk(c) for c in ops2])
                    b1.setNextBlock(b2)
                    for cur, ncur in ((b1, n1), (b2, n2)):
                        for pos in range(ncur):
                            cases += 1
                            want = any(alphabet[c] == ("load", s) and not (blk is cur and i == pos)
                                       for blk, ops in ((b1, ops1), (b2, ops2)) for i, c in enumerate(ops))
                            try:
                                got = _has_load_dependencies(cur, b1, s, pos)
                            except Exception as e:
                                got = f"{type(e).__name__}"
                            if got != want:
                                fails.append({"block1": [alphabet[c][0] + ("" if alphabet[c][1] is None else (" s" if alphabet[c][1] is s else " t")) for c in ops1],
                                              "block2": [alphabet[c][0] + ("" if alphabet[c][1] is None else (" s" if alphabet[c][1] is s else " t")) for c in ops2],
                                              "cur_block": 1 if cur is b1 else 2, "pos": pos, "expected": want, "got": got})
                                if len(fails) > 3:
                                    return cases, fails
    return cases, fails


def multistore_witness():
    """Native witness of the recorded finding O3.4 (clause (d) of the _apply_slot_to_stack contract): the example of known_findings.json,
    run on the tree under test.  Returns a replayable record if the optimised program leaves a value on the stack, else None."""
    from vf.core import use_repo
    use_repo()
    import pyteal as pt
    from spec import avm
    s = pt.ScratchVar(pt.TealType.uint64)
    prog = pt.Seq(s.store(pt.Int(1)), s.store(pt.Int(2)), pt.Pop(s.load()), pt.Int(7))
    try:
        t_on = pt.compileTeal(prog, pt.Mode.Application, version=8, optimize=pt.OptimizeOptions(scratch_slots=True))
        t_off = pt.compileTeal(prog, pt.Mode.Application, version=8, optimize=pt.OptimizeOptions(scratch_slots=False))
    except Exception:
        return None
    r_on, r_off = avm.run(t_on, avm.Ctx()), avm.run(t_off, avm.Ctx())
    if r_off.verdict == "approve" and not r_off.final_stack and (r_on.verdict != "approve" or r_on.final_stack):
        return {"input": {"program": "Seq(s.store(Int(1)), s.store(Int(2)), Pop(s.load()), Int(7))", "version": 8, "scratch_slots": True},
                "what": f"optimised program ends with {r_on.final_stack!r} below the result ({r_on.verdict}); unoptimised program ends clean", "teal": t_on}
    return None
