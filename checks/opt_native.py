"""Bounded native stand-in for the optimiser's dependency test: exhaustive small graphs."""
import itertools


def check_has_load_dependencies():
    import pyteal as pt
    from pyteal.ir import TealSimpleBlock, TealOp, Op
    from pyteal.compiler.optimizer.optimizer import _has_load_dependencies
    s, t = pt.ScratchSlot(), pt.ScratchSlot()
    alphabet = [("load", s), ("store", s), ("load", t), ("pop", None)]
    cases, fails = 0, []
    for n1 in range(0, 4):
        for n2 in range(0, 3):
            for ops1 in itertools.product(range(4), repeat=n1):
                for ops2 in itertools.product(range(4), repeat=n2):
                    def mk(code):
                        m, sl = alphabet[code]
                        return TealOp(None, getattr(Op, m), sl) if sl is not None else TealOp(None, Op.pop)
                    b1 = TealSimpleBlock([mk(c) for c in ops1])
                    b2 = TealSimpleBlock([mk(c) for c in ops2])
                    b1.setNextBlock(b2)
                    for cur, ncur in ((b1, n1), (b2, n2)):
                        for pos in range(ncur):
                            cases += 1
                            want = any(alphabet[c] == ("load", s) and not (blk is cur and i == pos)
                                       for blk, ops in ((b1, ops1), (b2, ops2)) for i, c in enumerate(ops))
                            try:
                                got = _has_load_dependencies(cur, b1, s, pos)
                            except Exception as e:
                                got = f"{type(e).__name__}"
                            if got != want:
                                fails.append({"block1": [alphabet[c][0] + ("" if alphabet[c][1] is None else (" s" if alphabet[c][1] is s else " t")) for c in ops1],
                                              "block2": [alphabet[c][0] + ("" if alphabet[c][1] is None else (" s" if alphabet[c][1] is s else " t")) for c in ops2],
                                              "cur_block": 1 if cur is b1 else 2, "pos": pos, "expected": want, "got": got})
                                if len(fails) > 3:
                                    return cases, fails
    return cases, fails


def multistore_witness():
    """Native witness of the recorded finding O3.4 (clause (d) of the _apply_slot_to_stack contract): the example of known_findings.json,
    run on the tree under test.  Returns a replayable record if the optimised program leaves a value on the stack, else None."""
    from vf.core import use_repo
    use_repo()
    import pyteal as pt
    from spec import avm
    s = pt.ScratchVar(pt.TealType.uint64)
    prog = pt.Seq(s.store(pt.Int(1)), s.store(pt.Int(2)), pt.Pop(s.load()), pt.Int(7))
    try:
        t_on = pt.compileTeal(prog, pt.Mode.Application, version=8, optimize=pt.OptimizeOptions(scratch_slots=True))
        t_off = pt.compileTeal(prog, pt.Mode.Application, version=8, optimize=pt.OptimizeOptions(scratch_slots=False))
    except Exception:
        return None
    r_on, r_off = avm.run(t_on, avm.Ctx()), avm.run(t_off, avm.Ctx())
    if r_off.verdict == "approve" and not r_off.final_stack and (r_on.verdict != "approve" or r_on.final_stack):
        return {"input": {"program": "Seq(s.store(Int(1)), s.store(Int(2)), Pop(s.load()), Int(7))", "version": 8, "scratch_slots": True},
                "what": f"optimised program ends with {r_on.final_stack!r} below the result ({r_on.verdict}); unoptimised program ends clean", "teal": t_on}
    return None


def o34_witness(kind):
    """Deterministic witness of the recorded optimiser finding O3.4, attributed exactly (checks/e2e.repaired_optimizer).
       kind 'stack'  : main routine - a value stays on the stack at exit (C03 / C05)
       kind 'result' : a frame-pointer subroutine returns the leftover instead of its result (C01 / C02; version 9 default options)
    Returns a replayable record when the tree shows the finding and the wrapper makes it disappear, else None."""
    from vf.core import use_repo
    use_repo()
    import pyteal as pt
    from spec import avm
    from .e2e import repaired_optimizer

    def build():
        s = pt.ScratchVar(pt.TealType.uint64)
        if kind == "stack":
            return pt.Seq(s.store(pt.Int(1)), s.store(pt.Int(2)), pt.Pop(s.load()), pt.Log(pt.Itob(pt.Int(15))), pt.Approve()), 8, {"optimize": pt.OptimizeOptions(scratch_slots=True)}

        @pt.Subroutine(pt.TealType.uint64)
        def f(x):
            return pt.Seq(s.store(pt.Int(1)), s.store(pt.Int(2)), pt.Pop(s.load()), x + pt.Int(5))
        return pt.Seq(pt.Log(pt.Itob(f(pt.Int(10)))), pt.Approve()), 9, {}

    def outcome(teal):
        r = avm.run(teal, avm.Ctx())
        return (r.verdict, [l.hex() for l in r.logs], len(r.final_stack))
    want = ("approve", [(15).to_bytes(8, "big").hex()], 0)
    try:
        prog, version, kw = build()
        got = outcome(pt.compileTeal(prog, pt.Mode.Application, version=version, **kw))
        if got == want:
            return None
        prog, version, kw = build()
        with repaired_optimizer() as ro:
            teal2 = pt.compileTeal(prog, pt.Mode.Application, version=version, **kw)
        if not ro.withheld or outcome(teal2) != want:
            return None       # something else is wrong: not this finding (the sweeps / contracts report it)
    except Exception:
        return None
    src = ("Seq(s.store(Int(1)), s.store(Int(2)), Pop(s.load()), Log(Itob(Int(15))), Approve()) with scratch_slots=True at v8" if kind == "stack" else
           "f(x) = Seq(s.store(Int(1)), s.store(Int(2)), Pop(s.load()), x + Int(5)); Log(Itob(f(Int(10)))) at v9, default options")
    return {"input": {"o34": kind, "program": src}, "what": f"{src}: (verdict, logs, values left on the stack) = {got}, expected {want}"}
