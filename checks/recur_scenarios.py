"""Bounded stand-in for recursion under every back end (C02 / C03): two mutually recursive routines of every pair of *kinds*, each
keeping a local alive across the re-entrant call, compiled under every (version, scratch_slots, frame_pointers) setting.

  kinds     : plain-value (Subroutine(uint64)) | plain-none (Subroutine(none), result through a shared slot) |
              abi-output (ABIReturnSubroutine with `output`) | abi-void (ABIReturnSubroutine without result, shared slot)
  locals    : ScratchVar | abi.Uint64 temp (a frame cell when frame pointers are on) | ScratchVar that is also passed by reference to a helper
  shape     : A(n) = 1 if n == 0 else B(n-1) + (3n+1)       B(n) = 2 if n == 0 else 2*A(n-1) + (n+5)
              the addend is computed and stored BEFORE the call and read AFTER it, so it must survive the recursion
  self      : the same with A calling itself (A(n) = 1 if n == 0 else A(n-1) + (3n+1))
  settings  : versions 6..10 x OptimizeOptions(scratch_slots, frame_pointers) in {None, True, False}^2 (explicit frame pointers only from v8)

Oracle: the two recurrences evaluated in Python; every setting must log exactly A(depth) - hence all settings agree; and the emitted
TEAL of every setting must keep stack / type discipline (spec/tealcheck).
"""
import itertools

KINDS = ("plain-value", "plain-none", "abi-output", "abi-void")
LOCALS = ("scratchvar", "abi-temp", "scratchvar-byref")
DEPTHS = (0, 1, 2, 3, 5)


def ref_A(n, self_rec):
    if n == 0:
        return 1
    return (ref_A(n - 1, True) if self_rec else ref_B(n - 1)) + 3 * n + 1


def ref_B(n):
    if n == 0:
        return 2
    return 2 * ref_A(n - 1, False) + n + 5


def build(pt, abi, ka, kb, local_kind, self_rec):
    g = pt.ScratchVar(pt.TealType.uint64)       # shared result cell of the none-returning kinds (used by several routines: global)
    subs = {}

    def call(which, arg):
        """a uint64 expression: the result of calling routine `which` on arg"""
        kind = ka if which == "A" else kb
        f = subs[which]
        if kind == "plain-value":
            return f(arg)
        if kind in ("plain-none", "abi-void"):
            return pt.Seq(f(arg), g.load())
        tmp = abi.Uint64()
        return pt.Seq(tmp.set(f(arg)), tmp.get())

    @pt.Subroutine(pt.TealType.none)
    def bump(r: pt.ScratchVar):
        return r.store(r.load() + pt.Int(1))

    def body(which, n, out):
        other = "A" if (which == "B" or self_rec) else "B"
        if which == "A":
            base, addend, comb = pt.Int(1), n * pt.Int(3) + pt.Int(1), (lambda r, t: r + t)
        else:
            base, addend, comb = pt.Int(2), n + pt.Int(5), (lambda r, t: r * pt.Int(2) + t)
        if local_kind == "scratchvar":
            t = pt.ScratchVar(pt.TealType.uint64)
            keep, read = t.store(addend), t.load()
        elif local_kind == "scratchvar-byref":
            # the local's index is also handed to a (non-recursive) helper before the re-entrant call: it is still this routine's own cell
            t = pt.ScratchVar(pt.TealType.uint64)
            keep, read = pt.Seq(t.store(addend), bump(t)), t.load() - pt.Int(1)
        else:
            t = abi.Uint64()
            keep, read = t.set(addend), t.get()
        # the call is the LEFT operand: it runs before the local is read back
        value = pt.If(n == pt.Int(0), base, comb(call(other, n - pt.Int(1)), read))
        return pt.Seq(keep, out(value))

    def define(which, kind):
        if kind == "plain-value":
            def f(n):
                return body(which, n, lambda v: v)
            f.__name__ = which
            return pt.Subroutine(pt.TealType.uint64)(f)
        if kind == "plain-none":
            def f(n):
                return body(which, n, lambda v: g.store(v))
            f.__name__ = which
            return pt.Subroutine(pt.TealType.none)(f)
        if kind == "abi-output":
            def f(n: pt.Expr, *, output: abi.Uint64):
                return body(which, n, lambda v: output.set(v))
            f.__name__ = which
            return pt.ABIReturnSubroutine(f)

        def f(n: pt.Expr):
            return body(which, n, lambda v: g.store(v))
        f.__name__ = which
        return pt.ABIReturnSubroutine(f)
    subs["A"] = define("A", ka)
    if not self_rec:
        subs["B"] = define("B", kb)
    return pt.Seq(pt.Log(pt.Itob(call("A", pt.Btoi(pt.Txn.application_args[0])))), pt.Approve())


def jobs(tier):
    out = []
    for ka, kb in itertools.product(KINDS, KINDS):
        for lk in LOCALS:
            out.append((ka, kb, lk, False))
    for ka in KINDS:
        for lk in LOCALS:
            out.append((ka, ka, lk, True))
    return out


def settings(version):
    res = []
    for ss in (None, True, False):
        for fp in (None, True, False):
            if fp is True and version < 8:
                continue
            res.append((ss, fp))
    return res


def case(job):
    ka, kb, lk, self_rec = job
    from vf.core import use_repo
    use_repo()
    import pyteal as pt
    from pyteal import abi
    from spec import avm, tealcheck
    out = {"job": list(job), "problems": [], "ran": 0}
    own = (pt.TealInputError, pt.TealCompileError, pt.TealTypeError, pt.TealInternalError)
    # one expression object per job (a recursive ABI routine that stores its own result makes PyTeal re-evaluate the body until Python's
    # recursion limit the first time it is built - seconds - so the object is reused; the recursion depth is an application argument)
    try:
        prog = build(pt, abi, ka, kb, lk, self_rec)
    except Exception as e:
        out["problems"].append({"what": f"building the program: {type(e).__name__}: {str(e)[:160]}"})
        return out
    for version in (6, 7, 8, 9, 10):
        for ss, fp in settings(version):
            try:
                teal = pt.compileTeal(prog, pt.Mode.Application, version=version, optimize=pt.OptimizeOptions(scratch_slots=ss, frame_pointers=fp))
            except own as e:
                out["problems"].append({"version": version, "setting": [ss, fp], "what": f"rejected: {type(e).__name__}: {str(e)[:160]}"})
                continue
            except Exception as e:
                out["problems"].append({"version": version, "setting": [ss, fp], "what": f"exception {type(e).__name__}: {str(e)[:160]}"})
                continue
            pr = tealcheck.validate(teal, version, "Application")
            if pr:
                out["problems"].append({"version": version, "setting": [ss, fp], "what": f"illegal / ill-disciplined TEAL: {pr[:2]}", "teal": teal})
            for depth in DEPTHS:
                want = ref_A(depth, self_rec)
                try:
                    r = avm.run(teal, avm.Ctx(txn={"ApplicationArgs": [depth.to_bytes(8, "big")]}))
                except avm.Unsupported:
                    continue
                out["ran"] += 1
                got = int.from_bytes(r.logs[0], "big") if r.verdict == "approve" and len(r.logs) == 1 else (r.verdict, r.detail)
                if got != want:
                    out["problems"].append({"version": version, "depth": depth, "setting": [ss, fp], "what": f"A({depth}) is {want}, the program gives {got}", "teal": teal})
            if len(out["problems"]) > 6:
                return out
    return out


# ---- recursion with a by-reference parameter: rejected when built, or else right ----------------------------------------------------
def byref_jobs():
    return [(shape, v) for shape in ("self", "mutual", "own-local") for v in (6, 7, 8, 10)]


def _ref_own_local(n):
    g = [0]

    def down(k, acc):
        mine = [k]
        acc[0] += 1
        if k > 0:
            down(k - 1, mine)
        g[0] += mine[0]
    top = [100]
    down(n, top)
    return g[0] * 1000 + top[0]


def byref_case(job):
    """sum(n, acc): acc += n; if n > 0: sum(n - 1, acc)  (acc passed by reference through every level).  PyTeal refuses by-reference
    parameters in recursive routines; if a tree accepts the program it has to compute 1 + 2 + ... + n in the caller's variable."""
    shape, version = job
    from vf.core import use_repo
    use_repo()
    import pyteal as pt
    from spec import avm
    out = {"job": list(job), "problems": [], "ran": 0, "rejected": False}
    try:
        @pt.Subroutine(pt.TealType.none)
        def down(n, acc: pt.ScratchVar):
            keep = pt.ScratchVar(pt.TealType.uint64)
            nxt = down if shape == "self" else other
            return pt.Seq(keep.store(n * pt.Int(2)), acc.store(acc.load() + n), pt.If(n > pt.Int(0)).Then(nxt(n - pt.Int(1), acc)),
                          pt.Assert(keep.load() == n * pt.Int(2)))

        @pt.Subroutine(pt.TealType.none)
        def other(n, acc: pt.ScratchVar):
            return pt.Seq(acc.store(acc.load() + n), pt.If(n > pt.Int(0)).Then(down(n - pt.Int(1), acc)))
        total = pt.ScratchVar(pt.TealType.uint64)
        prog = pt.Seq(total.store(pt.Int(100)), down(pt.Btoi(pt.Txn.application_args[0]), total), pt.Log(pt.Itob(total.load())), pt.Approve())
        expect = lambda n: 100 + n * (n + 1) // 2
        if shape == "own-local":
            # each activation passes ITS OWN local by reference to the next one, which writes it while the caller's locals are spilled
            g = pt.ScratchVar(pt.TealType.uint64)

            @pt.Subroutine(pt.TealType.none)
            def deep(k, acc: pt.ScratchVar):
                mine = pt.ScratchVar(pt.TealType.uint64)
                return pt.Seq(mine.store(k), acc.store(acc.load() + pt.Int(1)), pt.If(k > pt.Int(0)).Then(deep(k - pt.Int(1), mine)), g.store(g.load() + mine.load()))
            prog = pt.Seq(g.store(pt.Int(0)), total.store(pt.Int(100)), deep(pt.Btoi(pt.Txn.application_args[0]), total),
                          pt.Log(pt.Itob(g.load() * pt.Int(1000) + total.load())), pt.Approve())
            expect = _ref_own_local
        for ss, fp in settings(version):
            try:
                teal = pt.compileTeal(prog, pt.Mode.Application, version=version, optimize=pt.OptimizeOptions(scratch_slots=ss, frame_pointers=fp))
            except (pt.TealInputError, pt.TealCompileError, pt.TealTypeError, pt.TealInternalError):
                out["rejected"] = True
                continue
            for n in (0, 1, 3, 5):
                r = avm.run(teal, avm.Ctx(txn={"ApplicationArgs": [n.to_bytes(8, "big")]}))
                out["ran"] += 1
                want = expect(n)
                got = int.from_bytes(r.logs[0], "big") if r.verdict == "approve" and len(r.logs) == 1 else (r.verdict, r.detail)
                if got != want:
                    out["problems"].append({"version": version, "setting": [ss, fp], "depth": n,
                                            "what": f"recursion with a by-reference parameter is accepted and leaves {got} in the caller's variable, expected {want}"})
                    break
    except Exception as e:
        out["problems"].append({"what": f"exception {type(e).__name__}: {str(e)[:160]}"})
    return out
