"""C07 ABI decoding and element access return the encoded components."""
from __future__ import annotations

import random

from vf.core import Report, Bounded, Violation
from vf.runner import run_contracts
from . import abi_e2e as A
from .c06 import jobs_for

LEVEL = "other"


def classify_oob(shape):
    """known-finding class of a non-failing out-of-range access, from the array's element type."""
    from algosdk import abi as sabi
    t = sabi.ABIType.from_string(shape)
    ct = t.child_type
    if isinstance(ct, sabi.BoolType):
        return "oob:bool-elements"
    if ct.is_dynamic():
        return "oob:dynamic-elements"
    if ct.byte_len() == 0:
        return "oob:zero-length-elements"
    return None


def run(report: Report, tier, seed):
    report.trust("algosdk.abi (reference codec)", "spec/avm.py")
    report.assume("decode / element access Expr layer is checked per generated shape, value and position (bounded stand-in); "
                  "_index_tuple is under contract (pyvc): for all type sequences and indices the returned decode expression addresses the bit / head / window the ARC-4 position function "
                  "assigns to the element (callees _consecutive_bool_type_spec_num and _bool_sequence_length by their proved contracts); the decode() / decode_bit() / ExtractUint16 "
                  "constructors are summarised as pure records; class facts: Bool instance <=> bool type spec, equal type specs agree on bool-ness / dynamic-ness / static length")
    run_contracts(report, [("contracts.c06_layout", "ConsecutiveThingNum", "O6.14"), ("contracts.c06_layout", "BoolSequenceLength", "O6.13"),
                           ("contracts.c07_index", "IndexTuple", "O7.1"), ("contracts.c06_uint", "UintDecode", "O7.9"),
                           ("contracts.c06_uint", "BoolDecode", "O7.10"), ("contracts.c06_uint", "UintDecodeLink", "O7.11")])
    jobs = jobs_for(tier, seed + 1)
    res = A.pool_map(A.decode_case, jobs)
    ran = sum(r["ran"] for r in res)
    bad, known = [], {}
    for r in res:
        other = []
        for p in r["problems"]:
            if p.get("kind") == "oob":
                k = classify_oob(r["shape"])
                if k:
                    known.setdefault(k, {"input": {"shape": r["shape"], "seed": r["seed"], "version": r["version"], "in_sub": r["in_sub"]}, "problem": p})
                    continue
            other.append(p)
        if other:
            bad.append(dict(r, problems=other))
    report.bounded.append(Bounded(function="abi decode() / tuple[i] / array[i] / get() / length()",
                                  contract="each accessed component equals the reference encoding of that component; out-of-range array indices make the program fail",
                                  bound=f"{len(jobs)} type shapes x every element position (constant and computed index) x out-of-range indices x versions 5..10 x both storage back-ends",
                                  cases=ran, distinct_nontrivial=len({j[0] for j in jobs}), failures=len(bad) + len(known)))
    nj = A.nt_jobs(tier)
    nr = A.pool_map(A.nt_case, nj)
    nbad = [r for r in nr if r["problems"]]
    report.bounded.append(Bounded(function="named-tuple field access by name, several named-tuple types alive in one program",
                                  contract="each field read equals the reference encoding of that component of the value of ITS type",
                                  bound=f"{len(A.NT_FAMILIES)} families of named-tuple types that reuse field names at different positions / with different types x {len(A.NT_ORDERS)} instantiation / read orders x versions x main routine / subroutine",
                                  cases=sum(r["ran"] for r in nr), distinct_nontrivial=len(nj), failures=len(nbad)))
    for b in nbad[:2]:
        report.violation(Violation(key=f"namedtuple:{b['job'][0]}:{b['job'][1]}", what=b["problems"][0][:400], replay={"input": {"namedtuple": b["job"]}, "teal": b.get("teal")}, confirmed_native=True))
    report.extra["explanation"] = "P: _index_tuple offset arithmetic (pyvc); B: decode/element access against algosdk on generated shapes"
    def srch(fn, obs):
        if fn.endswith("Uint.decode"):
            from checks.c06 import uint_class_replay
            w = uint_class_replay()
            if w:
                return w
        if fn.endswith("Bool.decode"):
            from checks.c06 import bool_codec_replay
            w = bool_codec_replay("decode")
            if w:
                return w
        if fn.endswith("uint.uint_decode"):
            from checks.c06 import uint_codec_replay
            w = uint_codec_replay("decode")
            if w:
                return w
        return (bad[0] if bad else None) and {"input": {k: bad[0][k] for k in ("shape", "seed", "version", "in_sub")}, "problems": bad[0]["problems"][:2]}
    report.settle_undecided(srch)
    report.settle_refuted(srch)
    for k, rec in known.items():
        report.violation(Violation(key=k, what=f"{rec['input']['shape']}: {rec['problem']['check']}: {rec['problem']['what']}"[:300],
                                   replay=rec, confirmed_native=True))
    if not any(o.status == "refuted" for o in report.obs):
        for b in bad[:3]:
            report.violation(Violation(key=f"decode:{b['shape']}:{b['problems'][0]['check']}", what=f"{b['shape']}: {str(b['problems'][0])[:300]}",
                                       replay={"input": {k: b[k] for k in ("shape", "seed", "version", "in_sub")}, "problems": b["problems"][:2]}, confirmed_native=True))


def replay(data):
    r = data.get("replay") or {}
    nat = r.get("native") or r
    inp = nat.get("input")
    if not inp:
        print("no concrete input;", [x["id"] for x in r.get("refuted", [])])
        return 1
    if inp.get("namedtuple"):
        out = A.nt_case(tuple(inp["namedtuple"]))
        print(out["problems"][:2])
        return 1 if out["problems"] else 0
    out = A.decode_case((inp["shape"], inp["seed"], inp["version"], inp["in_sub"]))
    print(out["problems"][:3])
    return 1 if out["problems"] else 0
