"""C12 assembleConstants changes how constants load, not their values."""
import os

import base64
import random
from concurrent.futures import ProcessPoolExecutor

from vf.core import Report, Bounded, Violation, Ob
from . import e2e

LEVEL = "other"


def check_indices(teal):
    """Every constant-load site: the value pushed equals the value of the pseudo-op form kept in the trailing comment."""
    from spec import avm
    import hashlib
    probs = []
    intc, bytec = [], []
    for line in teal.split("\n"):
        s = line.strip()
        if not s or s.startswith("#") or s.startswith("//"):
            continue
        try:
            toks = avm.tokenize_line(s)
        except ValueError as ex:
            probs.append(f"emitted line does not lex as TEAL: {s[:80]!r}: {ex}")
            continue
        if not toks:
            continue
        t = toks[0]
        m = t[0]
        if m == "intcblock":
            intc = [avm.parse_int_literal(x) if not x.startswith("TMPL_") else x for x in t[1:]]
            if len(set(map(str, intc))) != len(intc):
                probs.append("duplicate entries in intcblock")
            continue
        if m == "bytecblock":
            bytec = []
            j = 1
            while j < len(t):
                if t[j].startswith("TMPL_"):
                    bytec.append(t[j]); j += 1
                    continue
                b, k = avm.parse_bytes_literal(t[j:])
                bytec.append(b); j += k
            continue
        # the original literal is in the comment part: re-tokenise the raw comment
        if "//" not in s:
            continue
        head, _, orig = s.partition("//")
        try:
            orig_toks = avm.tokenize_line(orig.strip() if not orig.strip().startswith('"') else orig.strip())
            # comment text = original argument tokens of int/byte/addr/method
            orig_args = avm.tokenize_line("x " + orig)[0][1:] if orig.strip() else []
        except ValueError as ex:
            probs.append(f"original literal kept in the comment does not lex: {orig[:60]!r}: {ex}")
            continue
        def orig_int():
            a = orig_args[0]
            return a if a.startswith("TMPL_") else avm.parse_int_literal(a)
        if m in ("intc", "intc_0", "intc_1", "intc_2", "intc_3", "pushint"):
            if m == "pushint":
                got = t[1] if t[1].startswith("TMPL_") else avm.parse_int_literal(t[1])
            else:
                i = int(t[1]) if m == "intc" else int(m[-1])
                if i >= len(intc) or i > 255:
                    probs.append(f"{s}: index {i} outside the block / not encodable")
                    continue
                got = intc[i]
            if str(got) != str(orig_int()):
                probs.append(f"{s}: pushes {got}, pseudo-op form denotes {orig_int()}")
        elif m in ("bytec", "bytec_0", "bytec_1", "bytec_2", "bytec_3", "pushbytes"):
            if m == "pushbytes":
                got = t[1] if t[1].startswith("TMPL_") else avm.parse_bytes_literal(t[1:])[0]
            else:
                i = int(t[1]) if m == "bytec" else int(m[-1])
                if i >= len(bytec) or i > 255:
                    probs.append(f"{s}: index {i} outside the block / not encodable")
                    continue
                got = bytec[i]
            a = orig_args
            if not a:
                continue
            if a[0].startswith("TMPL_"):
                want = a[0]
            elif a[0].startswith('"') and len(a) == 1 and "(" in head + s and False:
                want = None
            else:
                want = None
                # which pseudo-op was it?  decide by syntax: addr (58 base32 chars), method ("sig" with parens), byte literal otherwise
                tok = a[0]
                try:
                    if tok.startswith('"') and tok.endswith(')"') or (tok.startswith('"') and "(" in tok and tok.endswith('"') and _looks_like_sig(tok)):
                        want_sig = hashlib.new("sha512_256", avm._unescape(tok[1:-1])).digest()[:4]
                        want_lit = avm._unescape(tok[1:-1])
                        want = (want_sig, want_lit)
                    elif len(tok) == 58 and tok.isalnum() and tok.upper() == tok:
                        raw = base64.b32decode(tok + "======")
                        want = raw[:32]
                    else:
                        want = avm.parse_bytes_literal(a)[0]
                except Exception as e:
                    probs.append(f"{s}: original literal does not parse: {e}")
                    continue
            ok = (got in want) if isinstance(want, tuple) else (got == want)
            if not ok:
                probs.append(f"{s}: pushes {got!r:.40}, pseudo-op form denotes {want!r:.60}")
    return probs


def _looks_like_sig(tok):
    body = tok[1:-1]
    return "(" in body and ")" in body and " " not in body


def many_constants_case(job):
    """Runs in a thread with a large stack and recursion limit: the recursion-depth limit of the compiler on long programs
    is a known finding of C20 and must not hide the constant-block behaviour beyond 255 entries."""
    import sys
    import threading
    res = {}

    def work():
        sys.setrecursionlimit(100000)
        res["out"] = _many_constants_case(job)
    threading.stack_size(512 * 1024 * 1024)
    t = threading.Thread(target=work)
    t.start()
    t.join()
    return res["out"]


def _many_constants_case(job):
    kind, n, version = job
    from vf.core import use_repo
    use_repo()
    import pyteal as pt
    from spec import avm
    r = random.Random(n * 31 + version)
    out = {"kind": kind, "n": n, "version": version, "problems": []}
    try:
        if kind == "ints":
            vals = [r.choice([i, 1000 + i, 2 ** 40 + i]) for i in range(n)]
            body = [pt.Log(pt.Itob(pt.Int(v) + pt.Int(v))) for v in vals[:30]] + [pt.Pop(pt.Int(v) + pt.Int(v)) for v in vals[30:]]
            want = [(2 * v).to_bytes(8, "big") for v in vals[:30]]
        else:
            vals = [bytes([i % 256, (i // 256) % 256, 7]) for i in range(n)]
            forms = [lambda b: pt.Bytes(b), lambda b: pt.Bytes("base16", b.hex()), lambda b: pt.Bytes("base64", base64.b64encode(b).decode()),
                     lambda b: pt.Bytes("base32", base64.b32encode(b).decode())]
            body = [pt.Log(pt.Concat(forms[i % 4](v), forms[(i + 1) % 4](v))) for i, v in enumerate(vals[:30])] + \
                   [pt.Pop(pt.Concat(forms[i % 4](v), forms[(i + 2) % 4](v))) for i, v in enumerate(vals[30:])]
            want = [v + v for v in vals[:30]]
        prog = pt.Seq(*body, pt.Approve())
        t0 = pt.compileTeal(prog, pt.Mode.Application, version=version, assembleConstants=False)
        t1 = pt.compileTeal(prog, pt.Mode.Application, version=version, assembleConstants=True)
        r0, r1 = avm.run(t0, avm.Ctx()), avm.run(t1, avm.Ctx())
        if r0.observable() != r1.observable() or r1.logs != want:
            out["problems"].append(f"behaviour differs with assembleConstants: {r1.verdict} {r1.detail}")
        out["problems"] += check_indices(t1)[:3]
    except Exception as e:
        name = type(e).__name__
        if name not in e2e.PYTEAL_ERRORS:
            out["problems"].append(f"exception {name}: {e}")
        else:
            out["rejected"] = str(e)[:100]
    return out


def gen_case(spec):
    r = e2e.one_case(spec)
    from vf.core import use_repo
    use_repo()
    import pyteal as pt
    from spec import progsem, proggen
    probs = []
    try:
        prog = proggen.gen_prog(spec["seed"], version=spec["version"], mode=spec["mode"], size=3)
        teal = pt.compileTeal(progsem.build(prog), pt.Mode.Application, version=spec["version"], assembleConstants=True)
        probs = check_indices(teal)
    except Exception:
        pass
    r["index_problems"] = probs[:3]
    return r


def spelling_case(job):
    """Constants whose pseudo-op ARGUMENT TEXT coincides although they are different kinds of literal (method "S" vs byte "S", a template
    name used as int and as bytes, an enum name vs the same text as bytes, an address vs its text as a string), and equal values under
    different spellings: every load site of the assembled program still pushes what its own pseudo-op form denotes."""
    order, repeat, version = job
    from vf.core import use_repo
    use_repo()
    import pyteal as pt
    from spec import avm
    out = {"job": list(job), "problems": []}
    try:
        import hashlib
        sig = "transfer(uint64,address)void" if order % 2 == 0 else "caf\u00e9(uint64,address)void"
        addr = "WSJHNPJ6YCLX5K4GUMQ4ISPK3ABMS3AL3F6CSVQTCUI5F4I65PWEMCWT3M"
        addr_raw = base64.b32decode(addr + "======")[:32]
        u = lambda n: n.to_bytes(8, "big")
        # (expression producing bytes, the bytes it must produce) - expectations written independently of PyTeal
        items = [(lambda: pt.MethodSignature(sig), hashlib.new("sha512_256", sig.encode()).digest()[:4]), (lambda: pt.Bytes(sig), sig.encode()),
                 (lambda: pt.Addr(addr), addr_raw), (lambda: pt.Bytes(addr), addr.encode()),
                 (lambda: pt.Bytes("pay"), b"pay"), (lambda: pt.Itob(pt.TxnType.Payment), u(1)), (lambda: pt.Bytes("NoOp"), b"NoOp"), (lambda: pt.Itob(pt.OnComplete.NoOp), u(0)),
                 (lambda: pt.Bytes("base16", "61"), b"a"), (lambda: pt.Bytes("a"), b"a"), (lambda: pt.Bytes("base64", "YQ=="), b"a"), (lambda: pt.Bytes("0x61"), b"0x61"),
                 (lambda: pt.Bytes("base16", "0x61"), b"a"), (lambda: pt.Itob(pt.Int(1)), u(1)), (lambda: pt.Bytes("1"), b"1"), (lambda: pt.Bytes("TMPL"), b"TMPL"),
                 (lambda: pt.Itob(pt.OnComplete.OptIn), u(1)), (lambda: pt.Bytes("OptIn"), b"OptIn")]
        if order < 0:
            # every named integer constant PyTeal can emit (`int pay`, `int OptIn`, ...), expectations from the AVM specification
            items = [(lambda n=n: pt.Itob(getattr(pt.OnComplete, n)), u(v)) for n, v in
                     (("NoOp", 0), ("OptIn", 1), ("CloseOut", 2), ("ClearState", 3), ("UpdateApplication", 4), ("DeleteApplication", 5))] + \
                    [(lambda n=n: pt.Itob(getattr(pt.TxnType, n)), u(v)) for n, v in
                     (("Unknown", 0), ("Payment", 1), ("KeyRegistration", 2), ("AssetConfig", 3), ("AssetTransfer", 4), ("AssetFreeze", 5), ("ApplicationCall", 6))]
        idx = list(range(len(items)))
        random.Random(order).shuffle(idx)
        idx = idx[:13]                        # the AVM allows 32 logs per program
        body, want = [], []
        for k in idx:
            for j in range(repeat):
                if j == 0:
                    body.append(pt.Log(items[k][0]()))
                    want.append(items[k][1])
                else:
                    body.append(pt.Pop(items[k][0]()))
        prog = pt.Seq(*body, pt.Approve())
        t0 = pt.compileTeal(prog, pt.Mode.Application, version=max(version, 5), assembleConstants=False)
        t1 = pt.compileTeal(prog, pt.Mode.Application, version=max(version, 5), assembleConstants=True)
        r0, r1 = avm.run(t0, avm.Ctx()), avm.run(t1, avm.Ctx())
        for name, rr in (("pseudo-op form", r0), ("assembled form", r1)):
            if rr.verdict != "approve" or rr.logs != want:
                k = next((i for i, (a, b) in enumerate(zip(rr.logs, want)) if a != b), min(len(rr.logs), len(want)))
                out["problems"].append(f"{name}: constant #{k} pushes {rr.logs[k].hex() if k < len(rr.logs) else None}, the literal denotes {want[k].hex() if k < len(want) else None} ({rr.verdict} {rr.detail})")
                break
        out["problems"] += check_indices(t1)[:3]
    except Exception as e:
        out["problems"].append(f"exception {type(e).__name__}: {str(e)[:200]}")
    return out


def lean_lemma(report):
    """re-check the side lemma with the installed Lean (seconds); absent/failed Lean => the obligation is undecided, not a violation"""
    import subprocess
    import shutil
    import time
    from vf.core import VERIF, Ob
    src = os.path.join(VERIF, "lemmas", "FilterPrefix.lean")
    t0 = time.time()
    if not shutil.which("lean"):
        st, detail = "unknown", "lean not on PATH"
    else:
        p = subprocess.run(["lean", src], capture_output=True, text=True, timeout=600)
        bad = p.returncode != 0 or "error" in p.stdout or "sorry" in p.stdout
        st, detail = ("unknown" if bad else "discharged"), (p.stdout + p.stderr)[-400:]
    report.ob(Ob(id="O12.2/lemma/filter-of-sorted-is-prefix", function="lemmas/FilterPrefix.lean (summary S4 of the byteBlock comprehension)", kind="P", status=st,
                 backend="lean 4 kernel", ms=(time.time() - t0) * 1000, detail="filter (key > t) of a list sorted by non-increasing key == takeWhile (key > t)  " + detail))


def run(report: Report, tier, seed):
    report.trust("TEAL literal grammar of spec/avm.py (values of int / byte / addr / method pseudo-ops and of constant blocks)", "spec/avm.py + spec/progsem.py")
    report.assume("under contract (pyvc): createConstantBlocks - every load site of the output denotes the value extract*Value returns for the op it replaces; indices address the emitted block; no KeyError/ValueError/IndexError",
                  "trusted callee summaries: extractIntValue / extractBytesValue / extractAddrValue / extractMethodSigValue return 'the value the literal denotes' (their literal decoding is the bounded part below)",
                  "summarised statements with a syntactic guard on the real source: sorted(d, key=lambda x: d[x], reverse=True) (duplicate-free, non-increasing), the two block comprehensions; "
                  "the prefix property of the byteBlock filter is lemma filter_eq_takeWhile_of_sorted, machine-checked in lemmas/FilterPrefix.lean",
                  "constant values are compared by an abstract identity (Python ==/hash on int, str, bytes); ENC(v) = '0x'+v.hex() for bytes, v itself for template names",
                  "bounded stand-ins: literal decoding, run-time equality of the two programs, option plumbing in compiler.py")
    from vf.runner import run_contracts
    from vf.core import use_repo
    use_repo()
    run_contracts(report, [("contracts.c12_constants", "CreateConstantBlocks", "O12.2")])
    lean_lemma(report)
    n = 60 if tier == "quick" else 700
    specs = [{"seed": seed * 100003 + 77000 + i, "version": [3, 4, 5, 6, 7, 8, 9, 10][i % 8], "mode": "Application", "size": 3,
              "options": [{}], "assemble": [False, True]} for i in range(n)]
    with ProcessPoolExecutor(max_workers=16) as ex:
        res = list(ex.map(gen_case, specs, chunksize=4))
        many = list(ex.map(many_constants_case, [(k, m, v) for k in ("ints", "bytes") for m in (3, 5, 6, 40, 130, 257, 300) for v in (3, 10)]))
        spj = [(o, rep, v) for o in list(range(6 if tier == "quick" else 40)) + [-1, -2] for rep in (1, 2, 3) for v in (3, 6, 10)]
        spr = list(ex.map(spelling_case, spj, chunksize=4))
        tj = template_jobs(tier)
        tr = list(ex.map(template_case, tj, chunksize=4))
    tbad = [r for r in tr if r["problems"]]
    report.bounded.append(Bounded(function="createConstantBlocks with template constants (Tmpl.Int / Tmpl.Bytes) next to literals", contract="both forms compile and log the same values once the templates are substituted",
                                  bound=f"{len(tj)} (number of literals, template frequency, literal frequency, version) settings: the template more / equally / less frequent than the literals, inside and outside the first four entries",
                                  cases=len(tr), distinct_nontrivial=len(tr), failures=len(tbad)))
    spbad = [r for r in spr if r["problems"]]
    report.bounded.append(Bounded(function="createConstantBlocks on constants whose literal text or value coincides across literal kinds", contract="every load site pushes the value its own pseudo-op form denotes",
                                  bound=f"18 literals (method / byte / addr / enum / int whose argument texts coincide across kinds, one value in several spellings) and all 13 named integer constants (OnComplete, TxnType), each executed and compared with its independently computed value, x {len(spj)} (order, repetition, version) settings",
                                  cases=len(spr), distinct_nontrivial=len(spr), failures=len(spbad)))
    # (a mismatch that e2e.repaired_optimizer attributes to the recorded slot-optimiser finding occurs with and without assembled
    #  constants alike: it is not a statement about constant assembly and is reported under C01/C02/C03/C05)
    bad = [(s, r) for s, r in zip(specs, res) if ([m for m in r["mismatches"] if m["kind"] in ("outcome", "asm")] and not r.get("known_multistore")) or r["index_problems"]]
    mbad = [m for m in many if m["problems"]]
    report.bounded.append(Bounded(function="compileTeal(assembleConstants=True) vs False", contract="same behaviour; every intc/bytec/pushint/pushbytes site pushes the value its pseudo-op form denotes",
                                  bound=f"{n} generated programs (seed {seed}) x versions 3..10", cases=sum(r["ran"] for r in res),
                                  distinct_nontrivial=len({r['key'] for r in res if r['key']}), failures=len(bad)))
    report.bounded.append(Bounded(function="createConstantBlocks on many repeated constants", contract="as above, with more than 4 and more than 255 distinct repeated constants and every byte-literal syntax",
                                  bound="3..300 distinct repeated int / byte constants x versions 3, 10", cases=len(many), distinct_nontrivial=len(many), failures=len(mbad)))
    report.sample({"site": "intc 5 // 1005", "check": "intcblock[5] == 1005"})

    def search(fn, obs):
        if tbad:
            return {"input": {"template": tbad[0]["job"]}, "what": tbad[0]["problems"][0]}
        if spbad:
            return {"input": {"spelling": spbad[0]["job"]}, "what": spbad[0]["problems"][0]}
        if mbad:
            m = mbad[0]
            return {"input": {"many": [m["kind"], m["n"], m["version"]]}, "what": m["problems"][0]}
        if bad:
            s0, r0 = bad[0]
            return {"input": {"spec": s0}, "what": (r0["index_problems"] or [m["what"] for m in r0["mismatches"]])[0]}
        return None
    report.settle_undecided(search)
    report.settle_refuted(search)
    if any(o.status == "refuted" for o in report.obs):
        bad, mbad, spbad = bad[:0], mbad[:0], spbad[:0]      # reported once, with the refuted obligation
    if any(o.status == "refuted" for o in report.obs):
        tbad = tbad[:0]
    for b in tbad[:2]:
        report.violation(Violation(key=f"template:{b['job']}", what=f"template constants {b['job']}: {b['problems'][0]}"[:400], replay={"kind": "template", "job": b["job"]}, confirmed_native=True))
    for b in spbad[:2]:
        report.violation(Violation(key=f"spelling:{b['job']}", what=f"coinciding literal texts {b['job']}: {b['problems'][0]}"[:400], replay={"kind": "spelling", "job": b["job"]}, confirmed_native=True))
    for s, r in bad[:2]:
        what = (r["index_problems"] or [m["what"] for m in r["mismatches"]])[0]
        report.violation(Violation(key=f"asm:{s['seed']}:{s['version']}", what=f"assembleConstants changes a value / behaviour: {what}"[:400],
                                   replay={"kind": "generated", "spec": s}, confirmed_native=True))
    seen = set()
    for m in mbad:
        key = f"many:{m['kind']}:{'>255' if m['n'] > 255 else '<=255'}"
        if key in seen:
            continue
        seen.add(key)
        report.violation(Violation(key=key, what=f"{m['n']} repeated {m['kind']} constants at v{m['version']}: {m['problems'][0]}"[:400],
                                   replay={"kind": "many", "job": [m["kind"], m["n"], m["version"]]}, confirmed_native=True))


def replay(data):
    r = data["replay"]
    nat = (r.get("native") or {}).get("input") if isinstance(r, dict) else None
    if nat:
        r = {"kind": "template", "job": nat["template"]} if "template" in nat else {"kind": "many", "job": nat["many"]} if "many" in nat else ({"kind": "spelling", "job": nat["spelling"]} if "spelling" in nat else {"kind": "generated", "spec": nat["spec"]})
    if "kind" not in r:
        print("no concrete input; refuted:", [x["id"] for x in r.get("refuted", [])])
        return 1
    if r["kind"] == "spelling":
        out = spelling_case(tuple(r["job"]))
        print(out["problems"][:3])
        return 1 if out["problems"] else 0
    if r["kind"] == "template":
        out = template_case(tuple(r["job"]))
        print(out["problems"][:3])
        return 1 if out["problems"] else 0
    if r["kind"] == "many":
        out = many_constants_case(tuple(r["job"]))
        print(out["problems"][:3])
        return 1 if out["problems"] else 0
    out = gen_case(r["spec"])
    print(out["index_problems"], out["mismatches"][:2])
    return 1 if (out["index_problems"] or out["mismatches"]) else 0


# ---- template constants next to literals ---------------------------------------------------------------------------------------
def template_jobs(tier):
    out = []
    for nlit in (0, 1, 3, 4, 5, 8):
        for (tf, lf) in ((1, 1), (2, 3), (3, 2), (2, 2), (4, 1)):
            for v in ((5, 6, 10) if tier == "quick" else (5, 6, 7, 8, 9, 10)):
                out.append((nlit, tf, lf, v))
    return out


def template_case(job):
    """Tmpl.Int / Tmpl.Bytes used `tf` times next to `nlit` distinct literals used `lf` times each (so that the template is more / equally /
    less frequent than the literals and falls inside or outside the first four block entries): both forms compile and behave alike."""
    nlit, tf, lf, version = job
    from vf.core import use_repo
    use_repo()
    import pyteal as pt
    from spec import avm
    out = {"job": list(job), "problems": []}
    try:
        ints = [200 + 37 * i for i in range(nlit)]           # >= 128: eligible for the block beyond the first four entries
        small = [3 + i for i in range(nlit)]
        byts = [bytes([65 + i, 66, 67]) for i in range(nlit)]
        body, want = [], []
        for rep in range(max(tf, lf)):
            if rep < tf:
                body += [pt.Log(pt.Itob(pt.Tmpl.Int("TMPL_X") + pt.Int(1))), pt.Log(pt.Concat(pt.Tmpl.Bytes("TMPL_B"), pt.Bytes("!")))]
                want += [(77 + 1).to_bytes(8, "big"), b"tb!"]
            if rep < lf:
                for a, s_, b in zip(ints, small, byts):
                    body += [pt.Pop(pt.Int(a) + pt.Int(s_)), pt.Pop(pt.Len(pt.Bytes(b)))]
        if len(want) > 30:
            return out
        prog = pt.Seq(*body, pt.Approve())
        ctx = lambda: avm.Ctx(tmpl={"TMPL_X": 77, "TMPL_B": b"tb"})
        t0 = pt.compileTeal(prog, pt.Mode.Application, version=version, assembleConstants=False)
        t1 = pt.compileTeal(prog, pt.Mode.Application, version=version, assembleConstants=True)
        r0, r1 = avm.run(t0, ctx()), avm.run(t1, ctx())
        for name, rr in (("pseudo-op form", r0), ("assembled form", r1)):
            if rr.verdict != "approve" or rr.logs != want:
                out["problems"].append(f"{name}: {rr.verdict} {rr.detail} logs {[l.hex() for l in rr.logs][:4]}, expected {[w.hex() for w in want][:4]}")
                break
        out["problems"] += check_indices(t1)[:3]
    except Exception as e:
        out["problems"].append(f"exception {type(e).__name__}: {str(e)[:200]}")
    return out
