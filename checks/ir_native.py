"""Bounded native stand-ins for the IR passes (sortBlocks, flattenBlocks): exhaustive small graphs built from the real
block classes, run through the real functions, and interpreted with the branch semantics of the AVM."""
import itertools


def all_graphs(n):
    """All well-formed block graphs with n blocks: kind per block in {terminal, simple, conditional}, successors any block."""
    kinds = ["T", "S", "C"]
    for ks in itertools.product(kinds, repeat=n):
        if ks[-1] != "T" and "T" not in ks:
            continue
        succ_choices = []
        for k in ks:
            if k == "T":
                succ_choices.append([()])
            elif k == "S":
                succ_choices.append([(j,) for j in range(n)])
            else:
                succ_choices.append([(a, b) for a in range(n) for b in range(n)])
        for succ in itertools.product(*succ_choices):
            yield ks, succ


def build(ks, succ):
    import pyteal as pt
    from pyteal.ir import TealSimpleBlock, TealConditionalBlock, TealOp, Op
    blocks = []
    for i, k in enumerate(ks):
        ops = [TealOp(None, Op.int, 1000 + i)]
        if k == "T":
            ops.append(TealOp(None, Op.return_))
            blocks.append(TealSimpleBlock(ops))
        elif k == "S":
            ops.append(TealOp(None, Op.pop))
            blocks.append(TealSimpleBlock(ops))
        else:
            blocks.append(TealConditionalBlock(ops))
    for i, (k, s) in enumerate(zip(ks, succ)):
        if k == "S":
            blocks[i].setNextBlock(blocks[s[0]])
        elif k == "C":
            blocks[i].setTrueBlock(blocks[s[0]])
            blocks[i].setFalseBlock(blocks[s[1]])
    return blocks


def successor_in_flat(flat, k, cls):
    """Run the flat component list from the marker op of block k for condition class cls; returns the index of the
    block whose marker is reached next, 'end' (ran off the end), or ('bad', why)."""
    from pyteal.ir import TealOp, TealLabel
    pos = None
    labels = {}
    for i, c in enumerate(flat):
        if isinstance(c, TealLabel):
            name = c.getLabelRef().getLabel()
            if name in labels:
                return ("bad", f"label {name} defined twice")
            labels[name] = i
        elif isinstance(c, TealOp) and str(c.getOp()) == "int" and c.args == [1000 + k]:
            pos = i
    if pos is None:
        return ("bad", "block code missing")
    i = pos + 1
    popped = 0
    steps = 0
    while i < len(flat):
        steps += 1
        if steps > 200:
            return ("bad", "loop without reaching a block")
        c = flat[i]
        if isinstance(c, TealLabel):
            i += 1
            continue
        m = str(c.getOp())
        if m == "int":
            return (c.args[0] - 1000, popped)
        if m in ("pop", "return"):
            if m == "return":
                return ("terminal", popped)
            i += 1
            continue
        if m in ("b", "bnz", "bz"):
            tgt = c.args[0].getLabel() if hasattr(c.args[0], "getLabel") else str(c.args[0])
            take = m == "b"
            if m == "bnz":
                popped += 1
                take = cls == "nz"
            if m == "bz":
                popped += 1
                take = cls == "z"
            if take:
                if tgt not in labels:
                    return ("bad", f"branch to undefined label {tgt}")
                i = labels[tgt]
            else:
                i += 1
            continue
        return ("bad", f"unexpected op {m}")
    return ("end", popped)


def check_flatten(n_max):
    """-> (cases, failures[list of dict])"""
    from pyteal.compiler.flatten import flattenBlocks
    cases, fails = 0, []
    for n in range(1, n_max + 1):
        for ks, succ in all_graphs(n):
            cases += 1
            blocks = build(ks, succ)
            try:
                flat = flattenBlocks(blocks)
            except Exception as e:
                fails.append({"kinds": ks, "succ": succ, "what": f"flattenBlocks raised {type(e).__name__}: {e}"})
                continue
            for k, (kind, s) in enumerate(zip(ks, succ)):
                for cls in ("nz", "z"):
                    got = successor_in_flat(flat, k, cls)
                    if kind == "T":
                        want = ("terminal", 0)
                    elif kind == "S":
                        want = (s[0], 0)
                    else:
                        want = (s[0] if cls == "nz" else s[1], 1)
                    if got != want:
                        fails.append({"kinds": ks, "succ": succ, "block": k, "class": cls, "what": f"after block {k} (condition {cls}) control reaches {got}, graph says {want}"})
                        break
                else:
                    continue
                break
            if len(fails) > 5:
                return cases, fails
    return cases, fails


def check_sort(n_max):
    """sortBlocks: order is duplicate-free, starts anywhere, contains exactly the blocks reachable from start, ends with `end`."""
    from pyteal.compiler.sort import sortBlocks
    import pyteal as pt
    cases, fails = 0, []
    for n in range(1, n_max + 1):
        for ks, succ in all_graphs(n):
            blocks = build(ks, succ)
            reach, st = set(), [0]
            while st:
                x = st.pop()
                if x in reach:
                    continue
                reach.add(x)
                st += list(succ[x])
            for end in range(n):
                if ks[end] != "T":
                    continue
                cases += 1
                try:
                    order = sortBlocks(blocks[0], blocks[end])
                    idx = [next(i for i, b in enumerate(blocks) if b is o) for o in order]
                    if end not in reach:
                        fails.append({"kinds": ks, "succ": succ, "end": end, "what": "end not reachable but no error"})
                    elif sorted(idx) != sorted(reach) or idx[-1] != end or len(set(idx)) != len(idx):
                        fails.append({"kinds": ks, "succ": succ, "end": end, "what": f"order {idx} is not a duplicate-free enumeration of the reachable blocks {sorted(reach)} ending with {end}"})
                except pt.TealInternalError:
                    if end in reach:
                        fails.append({"kinds": ks, "succ": succ, "end": end, "what": "end reachable but TealInternalError"})
                except Exception as e:
                    fails.append({"kinds": ks, "succ": succ, "end": end, "what": f"{type(e).__name__}: {e}"})
                if len(fails) > 5:
                    return cases, fails
    return cases, fails
