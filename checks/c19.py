"""C19 ABI assignability implies identical encoding."""


import itertools
import random

from vf.core import Report, Bounded, Violation, Ob

LEVEL = "other"


def universe(tier):
    from pyteal import abi
    leaves = [abi.BoolTypeSpec(), abi.ByteTypeSpec(), abi.Uint8TypeSpec(), abi.Uint16TypeSpec(), abi.Uint32TypeSpec(), abi.Uint64TypeSpec(),
              abi.AddressTypeSpec(), abi.StringTypeSpec(), abi.DynamicBytesTypeSpec(), abi.StaticBytesTypeSpec(1), abi.StaticBytesTypeSpec(32)]
    lvl1 = list(leaves)
    for t in leaves:
        lvl1 += [abi.StaticArrayTypeSpec(t, 1), abi.StaticArrayTypeSpec(t, 32), abi.DynamicArrayTypeSpec(t)]
    small = [abi.BoolTypeSpec(), abi.ByteTypeSpec(), abi.Uint8TypeSpec(), abi.Uint64TypeSpec(), abi.AddressTypeSpec(), abi.StringTypeSpec(),
             abi.StaticBytesTypeSpec(32), abi.DynamicBytesTypeSpec(), abi.StaticArrayTypeSpec(abi.ByteTypeSpec(), 32),
             abi.DynamicArrayTypeSpec(abi.Uint8TypeSpec())]
    tuples = [abi.TupleTypeSpec()] + [abi.TupleTypeSpec(a) for a in small] + [abi.TupleTypeSpec(a, b) for a in small for b in small]

    class NT1(abi.NamedTuple):
        x: abi.Field[abi.Uint64]
        y: abi.Field[abi.String]

    class NT2(abi.NamedTuple):
        p: abi.Field[abi.Uint64]
        q: abi.Field[abi.String]

    class NT3(abi.NamedTuple):
        x: abi.Field[abi.Byte]
        y: abi.Field[abi.DynamicBytes]

    named = [NT1().type_spec(), NT2().type_spec(), NT3().type_spec(),
             abi.TupleTypeSpec(abi.Uint64TypeSpec(), abi.StringTypeSpec()), abi.TupleTypeSpec(abi.Uint8TypeSpec(), abi.DynamicArrayTypeSpec(abi.ByteTypeSpec()))]
    refs = [abi.AccountTypeSpec(), abi.AssetTypeSpec(), abi.ApplicationTypeSpec()]
    txns = [abi.TransactionTypeSpec(), abi.PaymentTransactionTypeSpec(), abi.KeyRegisterTransactionTypeSpec(), abi.AssetConfigTransactionTypeSpec(),
            abi.AssetFreezeTransactionTypeSpec(), abi.AssetTransferTransactionTypeSpec(), abi.ApplicationCallTransactionTypeSpec()]
    nested = [abi.DynamicArrayTypeSpec(t) for t in tuples[:12]] + [abi.StaticArrayTypeSpec(t, 2) for t in tuples[:12]] + \
             [abi.DynamicArrayTypeSpec(abi.DynamicArrayTypeSpec(abi.ByteTypeSpec())), abi.DynamicArrayTypeSpec(abi.StringTypeSpec()),
              abi.DynamicArrayTypeSpec(abi.DynamicBytesTypeSpec()), abi.StaticArrayTypeSpec(abi.AddressTypeSpec(), 2),
              abi.StaticArrayTypeSpec(abi.StaticBytesTypeSpec(32), 2), abi.TupleTypeSpec(*named[:2]), abi.TupleTypeSpec(named[3], named[0])]
    u = lvl1 + tuples + named + refs + txns + nested
    if tier != "quick":
        u += [abi.TupleTypeSpec(a, b, c) for a in small[:6] for b in small[:6] for c in small[:6]]
    return u


def layout(ts):
    """Independent erasure: ARC-4 layout of a type (names and spellings removed); reference / transaction types by name."""
    from algosdk import abi as sabi
    s = str(ts)
    if s in ("account", "asset", "application", "txn", "pay", "keyreg", "acfg", "afrz", "axfer", "appl"):
        return ("special", s)

    def erase(t):
        if isinstance(t, sabi.ByteType):
            return "uint8"
        if isinstance(t, sabi.AddressType):
            return "uint8[32]"
        if isinstance(t, sabi.StringType):
            return "uint8[]"
        if isinstance(t, sabi.ArrayStaticType):
            return f"{erase(t.child_type)}[{t.static_length}]"
        if isinstance(t, sabi.ArrayDynamicType):
            return f"{erase(t.child_type)}[]"
        if isinstance(t, sabi.TupleType):
            return "(" + ",".join(erase(c) for c in t.child_types) + ")"
        return str(t)
    return ("abi", erase(sabi.ABIType.from_string(s)))


def convert(ta, tb, v):
    """The same logical value, in the python representation algosdk wants for type tb."""
    from algosdk import abi as sabi
    if isinstance(ta, sabi.StringType) and not isinstance(tb, sabi.StringType):
        return list(v.encode("utf-8"))
    if isinstance(ta, sabi.AddressType) and not isinstance(tb, sabi.AddressType):
        return list(bytes(v))
    if isinstance(ta, (sabi.ArrayStaticType, sabi.ArrayDynamicType)) and isinstance(tb, (sabi.ArrayStaticType, sabi.ArrayDynamicType)):
        return [convert(ta.child_type, tb.child_type, x) for x in v]
    if isinstance(ta, sabi.TupleType) and isinstance(tb, sabi.TupleType):
        return [convert(x, y, z) for x, y, z in zip(ta.child_types, tb.child_types, v)]
    return v


def accepts(a, b):
    """Specification: may a value of type a be handed over where b is expected?"""
    la, lb = layout(a), layout(b)
    if la[0] == "special" or lb[0] == "special":
        if la[0] != lb[0]:
            return False
        return la[1] == lb[1] or (lb[1] == "txn" and la[1] in ("pay", "keyreg", "acfg", "afrz", "axfer", "appl"))
    return la[1] == lb[1]


def run(report: Report, tier, seed):
    from vf.core import use_repo
    use_repo()
    import pyteal as pt
    from pyteal import abi
    from pyteal.ast.abi.util import type_spec_is_assignable_to
    from algosdk import abi as sabi
    from . import abi_e2e as A
    report.trust("algosdk.abi type-string parser and codec", "layout erasure in checks/c19.py (byte=uint8, address=uint8[32], string=uint8[], field names dropped)")
    report.assume("bounded universe of type terms (exhaustive over it); no structural-induction proof of type_spec_is_assignable_to yet (match statements are outside the pyvc subset)",
                  "A6: ARC-4 type strings are injective on layouts")
    U = universe(tier)
    bad = []
    n = npos = 0
    r = random.Random(seed)
    enc_checked = 0
    for a, b in itertools.product(U, U):
        n += 1
        try:
            res = type_spec_is_assignable_to(a, b)
        except Exception as e:
            bad.append((str(a), str(b), f"raised {type(e).__name__}: {e}"))
            continue
        if res:
            npos += 1
            if not accepts(a, b):
                bad.append((str(a), str(b), f"assignable but layouts differ: {layout(a)} vs {layout(b)}"))
            elif layout(a)[0] == "abi" and enc_checked < (300 if tier == "quick" else 3000) and r.random() < 0.2:
                # the raw bytes of any value of a are a valid encoding of b with the same meaning
                ta, tb = sabi.ABIType.from_string(str(a)), sabi.ABIType.from_string(str(b))
                v = A.gen_value(ta, r)
                ea = A.sdk_encode(ta, v)
                try:
                    eb = A.sdk_encode(tb, convert(ta, tb, v))   # the same logical value encoded as a `b`
                except Exception as e:
                    eb = None
                enc_checked += 1
                if eb != ea:
                    bad.append((str(a), str(b), f"bytes of {v!r:.60} under a are not a valid encoding under b"))
    for name, cond in (("assignable-implies-same-layout", not bad),):
        report.ob(Ob(id=f"O19.1/{name}", function="pyteal.ast.abi.util.type_spec_is_assignable_to", kind="E",
                     status="discharged" if cond else "refuted", backend=f"enumeration({len(U)}^2 ordered pairs, exhaustive over the universe)",
                     detail=f"for all ordered pairs of the bounded universe ({len(U)} type terms): assignable(a,b) => layout(a) == layout(b) (or b is the generic txn type); {npos} assignable pairs, {enc_checked} checked on encoded values",
                     model=bad[:5] or None))
    # O19.3: every route to a TypeSpec denotes the same type (a call site compares against the spec parsed from a signature string)
    from pyteal.ast.abi.util import type_spec_from_algosdk, type_spec_from_annotation, type_specs_from_signature
    route_bad = []
    for t in U:
        s_t = str(t)
        named = type(t).__name__ == "NamedTupleTypeSpec"
        routes = {"method signature": lambda: type_specs_from_signature(f"f({s_t})void")[0][0],
                  "annotation": lambda: type_spec_from_annotation(t.annotation_type()),
                  "new_instance": lambda: t.new_instance().type_spec()}
        if layout(t)[0] == "abi":
            routes["algosdk type object"] = lambda: type_spec_from_algosdk(sabi.ABIType.from_string(s_t))
        else:
            routes["type string"] = lambda: type_spec_from_algosdk(s_t)     # plain strings are accepted for reference / transaction types only
        for rn, f in routes.items():
            try:
                got = f()
            except Exception as e:
                route_bad.append((s_t, rn, f"raised {type(e).__name__}: {str(e)[:100]}"))
                continue
            same = str(got) == s_t and (layout(t)[0] != "abi" or (got.is_dynamic() == t.is_dynamic() and layout(got) == layout(t)))
            if same and not named and rn in ("annotation", "new_instance") and got != t:
                same = False
            if same and layout(t)[0] == "abi" and not (type_spec_is_assignable_to(got, t) and type_spec_is_assignable_to(t, got)):
                same = False          # e.g. byte[] may come back as the array or the bytes class: same layout, must stay interchangeable
            if not same:
                route_bad.append((s_t, rn, f"denotes {got} ({type(got).__name__}, dynamic={got.is_dynamic() if layout(t)[0] == 'abi' else '-'}) instead of {s_t} ({type(t).__name__})"))
    report.ob(Ob(id="O19.3/type-spec-routes-agree", function="pyteal.ast.abi.util.type_spec_from_algosdk / type_specs_from_signature / type_spec_from_annotation", kind="E",
                 status="discharged" if not route_bad else "refuted", backend=f"enumeration({len(U)} type terms x up to 5 routes, exhaustive over the universe)",
                 detail="the spec obtained from the ARC-4 type string, a method signature, the algosdk type object, the annotation and new_instance() is the same type (type string, dynamic-ness, layout, interchangeable under assignability)",
                 model=route_bad[:5] or None))
    # O19.4: the `set` of every ABI class is an assignment too - whatever value type it accepts must have the target's layout
    set_bad, nset, nacc = [], 0, 0
    abiU = [t for t in U if layout(t)[0] == "abi"]
    for a, b in itertools.product(abiU, abiU):
        if isinstance(b, abi.TupleTypeSpec):
            continue          # Tuple.set(*values) takes the ELEMENTS; it has no whole-value form for another ABI value
        nset += 1
        try:
            e = b.new_instance().set(a.new_instance())
        except Exception:
            continue          # rejected when the assignment is built
        if not isinstance(e, pt.Expr):
            continue
        nacc += 1
        if not accepts(a, b):
            set_bad.append((str(a), str(b), f"{type(b.new_instance()).__name__}.set accepts a value of type {a}: layouts {layout(a)[1]} vs {layout(b)[1]}"))
    report.ob(Ob(id="O19.4/set-accepts-implies-same-layout", function="pyteal.abi.<every value class>.set(other ABI value)", kind="E",
                 status="discharged" if not set_bad and nacc > 0 else ("refuted" if set_bad else "unknown"), backend=f"enumeration({len(abiU)}^2 ordered pairs, exhaustive over the universe)",
                 detail=f"for all ordered pairs (a, b), b not a tuple (Tuple.set takes elements): b.new_instance().set(a.new_instance()) is rejected unless layout(a) == layout(b); {nacc} of {nset} accepted", model=set_bad[:5] or None))
    # O19.5: element access is an assignment too - x[i].store_into(out) hands the element's bytes to `out`
    el_bad, nel, nel_acc = [], 0, 0
    outs = [t for t in abiU if not isinstance(t, abi.TupleTypeSpec)][:60] + [t for t in abiU if isinstance(t, abi.TupleTypeSpec)][:12]
    for cont in abiU:
        if isinstance(cont, (abi.StaticArrayTypeSpec, abi.DynamicArrayTypeSpec)):
            elems = [(0, cont.value_type_spec()), (pt.Int(0), cont.value_type_spec())]
        elif isinstance(cont, abi.TupleTypeSpec) and cont.length_static() > 0:
            elems = [(i, e) for i, e in enumerate(cont.value_type_specs())]
        else:
            continue
        for idx, ets in elems:
            for b in outs:
                nel += 1
                try:
                    e = cont.new_instance()[idx].store_into(b.new_instance())
                except Exception:
                    continue
                if not isinstance(e, pt.Expr):
                    continue
                nel_acc += 1
                if not accepts(ets, b):
                    el_bad.append((str(cont), str(b), f"{cont}[{idx if isinstance(idx, int) else 'Int(0)'}].store_into({b} value) is accepted: element layout {layout(ets)[1]} vs {layout(b)[1]}"))
    report.ob(Ob(id="O19.5/element-store-into-accepts-implies-same-layout", function="pyteal.abi ArrayElement.store_into / TupleElement.store_into", kind="E",
                 status="discharged" if not el_bad and nel_acc > 0 else ("refuted" if el_bad else "unknown"), backend=f"enumeration({nel} (container, index kind, output type) triples over the universe)",
                 detail=f"x[i].store_into(out) (constant and computed index, tuple members) is rejected unless layout(element) == layout(out); {nel_acc} accepted", model=el_bad[:5] or None))
    # call sites reject non-assignable arguments (O19.2)
    mism = [(a, b) for a, b in itertools.product(U[:40], U[:40]) if layout(a)[0] == "abi" and layout(b)[0] == "abi" and not accepts(a, b)]
    r.shuffle(mism)
    site_bad = []
    k = 0
    for a, b in mism[: (60 if tier == "quick" else 600)]:
        k += 1
        ns = {"pt": pt, "abi": abi, "B": b.annotation_type()}
        try:
            exec(compile("def f(x: B):\n    return pt.Seq()\n", "<c19>", "exec", dont_inherit=True), ns)
            fw = pt.Subroutine(pt.TealType.none)(ns["f"])
            fw(a.new_instance())
            site_bad.append((str(a), str(b), "subroutine call accepted an argument of a differently shaped type"))
        except (pt.TealInputError, pt.TealTypeError):
            pass
        except Exception as e:
            site_bad.append((str(a), str(b), f"call raised {type(e).__name__}: {e}"))
    # the same at an inner method call, where the expected type comes from the signature string
    mk = 0
    for a, b in mism[: (60 if tier == "quick" else 600)]:
        mk += 1
        try:
            pt.InnerTxnBuilder.MethodCall(app_id=pt.Int(1), method_signature=f"f({b})void", args=[a.new_instance()])
            site_bad.append((str(a), str(b), "InnerTxnBuilder.MethodCall accepted an argument of a differently shaped type"))
        except (pt.TealInputError, pt.TealTypeError):
            pass
        except Exception as e:
            site_bad.append((str(a), str(b), f"MethodCall raised {type(e).__name__}: {e}"))
    # and an argument of exactly the signature's type is accepted
    for t in [x for x in U if layout(x)[0] == "abi"][:80]:
        mk += 1
        try:
            pt.InnerTxnBuilder.MethodCall(app_id=pt.Int(1), method_signature=f"f({t})void", args=[t.new_instance()])
        except Exception as e:
            site_bad.append((str(t), str(t), f"MethodCall rejected an argument of exactly the declared type: {type(e).__name__}: {str(e)[:100]}"))
    k += mk
    report.bounded.append(Bounded(function="SubroutineDefinition.invoke / InnerTxnBuilder.MethodCall (ABI argument check)", contract="an argument whose type has a different layout is rejected when the call is built",
                                  bound=f"{k} sampled mismatching pairs (seed {seed})", cases=k, distinct_nontrivial=k, failures=len(site_bad)))
    report.sample({"pair": ["address", "byte[32]"], "assignable": type_spec_is_assignable_to(abi.AddressTypeSpec(), abi.StaticBytesTypeSpec(32))})
    report.extra["explanation"] = "E over a bounded universe of type terms (exhaustive within it), labelled; not a structural-induction proof"
    report.extra["exhaustive"] = True
    for a, b, why in bad[:3]:
        report.violation(Violation(key=f"assignable:{a}->{b}", what=f"{a} -> {b}: {why}", obligation="O19.1/assignable-implies-same-layout",
                                   replay={"a": a, "b": b, "why": why}, confirmed_native=True))
    for s_t, rn, why in route_bad[:3]:
        report.violation(Violation(key=f"route:{s_t}:{rn}", what=f"type spec of {s_t} via {rn}: {why}", obligation="O19.3/type-spec-routes-agree", replay={"type": s_t, "route": rn, "why": why}, confirmed_native=True))
    for a, b, why in set_bad[:3]:
        report.violation(Violation(key=f"set:{a}->{b}", what=f"{b}.set({a} value): {why}", obligation="O19.4/set-accepts-implies-same-layout", replay={"set": [a, b], "why": why}, confirmed_native=True))
    for a, b, why in el_bad[:3]:
        report.violation(Violation(key=f"element:{a}->{b}", what=why[:400], obligation="O19.5/element-store-into-accepts-implies-same-layout", replay={"element": [a, b], "why": why}, confirmed_native=True))
    for a, b, why in site_bad[:2]:
        report.violation(Violation(key=f"callsite:{a}->{b}", what=f"{a} passed where {b} expected: {why}", replay={"a": a, "b": b}, confirmed_native=True))


def replay(data):
    print(data.get("what"))
    r = data.get("replay") or {}
    nat = r.get("native") or r
    if nat.get("set"):
        # re-run the assignment on the current tree
        from vf.core import use_repo
        use_repo()
        import pyteal as pt
        from pyteal.ast.abi.util import type_spec_from_algosdk
        from algosdk import abi as sabi
        a, b = (type_spec_from_algosdk(sabi.ABIType.from_string(x)) for x in nat["set"])
        try:
            b.new_instance().set(a.new_instance())
        except Exception as e:
            print("rejected now:", type(e).__name__)
            return 0
        print(f"{nat['set'][1]}.set({nat['set'][0]}) is accepted; layouts {layout(a)} vs {layout(b)}")
        return 0 if accepts(a, b) else 1
    return 1
