"""Bounded stand-in shared by several properties: generated program descriptions are built with the public
PyTeal constructors, compiled by the real compileTeal, executed on the spec AVM and compared with the direct
evaluation of the description (spec.progsem.den).  Everything here is labelled B (never counted as proved)."""
from __future__ import annotations

import hashlib
import os
import traceback
from concurrent.futures import ProcessPoolExecutor

PYTEAL_ERRORS = ("TealInputError", "TealCompileError", "TealTypeError", "TealInternalError", "TealPragmaError")


def contexts(mode):
    from spec import avm
    if mode == "Signature":
        return [avm.Ctx(mode="Signature", args=[b"a", b"bb"], txn={"Fee": 1000, "Amount": 5}, max_call_depth=8),
                avm.Ctx(mode="Signature", args=[b"", b"\x00\x01"], txn={"Fee": 0, "Amount": 2 ** 40}, max_call_depth=8)]
    return [avm.Ctx(txn={"ApplicationArgs": [b"a", b"b"], "ApplicationID": 0, "OnCompletion": 0, "Fee": 1000}, max_call_depth=8),
            avm.Ctx(txn={"ApplicationArgs": [], "ApplicationID": 5, "OnCompletion": 1, "Fee": 3, "Amount": 9,
                         "GroupIndex": 1, "Note": b"note"}, global_state={b"k1": 7}, max_call_depth=8)]


def clone_ctx(c):
    import copy
    return copy.deepcopy(c)


def one_case(spec):
    """spec: dict(seed, version, mode, features, size, options(list of dict(scratch_slots, frame_pointers)), assemble)"""
    from vf.core import use_repo
    use_repo()
    import pyteal as pt
    from spec import avm, progsem, proggen
    out = {"seed": spec["seed"], "version": spec["version"], "mismatches": [], "crashes": [], "compile_errors": [],
           "nontrivial": False, "key": None, "ran": 0, "teals": {}}
    try:
        prog = proggen.gen_prog(spec["seed"], version=spec.get("gen_version", spec["version"]), mode=spec["mode"], size=spec.get("size", 3),
                                features=spec.get("features"))
    except Exception:
        out["crashes"].append({"stage": "generate", "error": traceback.format_exc()[-800:]})
        return out
    out["key"] = hashlib.sha1(repr((prog.main, sorted(prog.subs), prog.gvars)).encode()).hexdigest()[:16]
    mode = pt.Mode.Application if spec["mode"] == "Application" else pt.Mode.Signature
    ctxs = contexts(spec["mode"])
    expected = []
    try:
        for c in ctxs:
            expected.append(progsem.den(prog, clone_ctx(c), spec["version"]))
    except avm.Unsupported as e:
        out["skipped"] = f"den unsupported: {e}"
        return out
    out["nontrivial"] = any(e.verdict in ("approve", "reject") for e in expected)
    for opt in spec["options"]:
        for asm in spec.get("assemble", [False]):
            tag = f"ss={opt.get('scratch_slots')} fp={opt.get('frame_pointers')} asm={asm}"
            try:
                e = progsem.build(prog)
                kw = {}
                if opt.get("scratch_slots") is not None or opt.get("frame_pointers") is not None:
                    kw["optimize"] = pt.OptimizeOptions(scratch_slots=opt.get("scratch_slots"),
                                                        frame_pointers=opt.get("frame_pointers"))
                teal = pt.compileTeal(e, mode, version=spec["version"], assembleConstants=asm, **kw)
            except Exception as ex:
                name = type(ex).__name__
                rec = {"options": tag, "error": name, "message": str(ex)[:300]}
                if name in PYTEAL_ERRORS:
                    out["compile_errors"].append(rec)
                else:
                    rec["trace"] = traceback.format_exc()[-600:]
                    out["crashes"].append(rec)
                continue
            out["teals"][tag] = teal
            for ci, c in enumerate(ctxs):
                try:
                    got = avm.run(teal, clone_ctx(c))
                except avm.Unsupported as ex:
                    continue
                out["ran"] += 1
                exp = expected[ci]
                bad = kind = None
                if got.verdict == "asmerror":
                    bad, kind = f"TEAL does not assemble: {got.detail}", "asm"
                elif got.observable() != exp.observable():
                    bad, kind = f"outcome differs: expected {exp.observable()!r:.300} got {got.observable()!r:.300} ({got.detail})", "outcome"
                elif got.verdict in ("approve", "reject") and len(got.final_stack) != 0:
                    bad, kind = f"stack not empty at exit: {got.final_stack!r:.100}", "stack"
                elif got.verdict in ("approve", "reject"):
                    for name, ty, slot in prog.gvars:
                        if slot is not None and got.scratch.get(slot, 0) != exp.gvals[name]:
                            bad, kind = (f"user-numbered slot {slot} ({name}) holds {got.scratch.get(slot, 0)!r:.60}, "
                                         f"expected {exp.gvals[name]!r:.60}"), "slot"
                if bad:
                    out["mismatches"].append({"options": tag, "ctx": ci, "what": bad, "kind": kind})
    out["known_multistore"] = False
    if any(m["kind"] == "stack" for m in out["mismatches"]):
        try:
            e = progsem.build(prog)
            t0 = pt.compileTeal(e, mode, version=spec["version"], optimize=pt.OptimizeOptions(scratch_slots=False))
            out["known_multistore"] = multistore_signature(t0)
        except Exception:
            pass
    if not out["mismatches"]:
        out["teals"] = {}
    else:
        keep = {m["options"] for m in out["mismatches"]}
        out["teals"] = {k: v for k, v in out["teals"].items() if k in keep}
        import pprint
        out["program"] = {"main": pprint.pformat(prog.main, width=140)[:6000],
                          "subs": {n: pprint.pformat((s.params, s.ret, s.locals, s.body), width=140)[:3000] for n, s in prog.subs.items()},
                          "gvars": prog.gvars}
    return out


def optimizer_on(tag: str, version: int) -> bool:
    """does the option tag of a mismatch (`ss=<scratch_slots> fp=... asm=...`) run the slot optimiser at this version?"""
    return "ss=True" in tag or ("ss=None" in tag and version >= 9)


def multistore_signature(teal_unoptimised: str) -> bool:
    """Trigger shape of the known optimiser defect (known_findings: O3.4): a slot whose single load directly follows
    a store of it, while the slot is also stored elsewhere."""
    from spec import avm
    try:
        ops = avm.parse(teal_unoptimised).ops
    except ValueError:
        return False
    loads, stores, adjacent = {}, {}, set()
    for i, (m, im, _) in enumerate(ops):
        if m == "load":
            loads[im[0]] = loads.get(im[0], 0) + 1
            if i > 0 and ops[i - 1][0] == "store" and ops[i - 1][1] == im:
                adjacent.add(im[0])
        elif m == "store":
            stores[im[0]] = stores.get(im[0], 0) + 1
    return any(loads.get(s) == 1 and stores.get(s, 0) >= 2 for s in adjacent)


def sweep(specs, workers=16):
    if os.environ.get("VERIF_SERIAL"):
        return [one_case(s) for s in specs]
    with ProcessPoolExecutor(max_workers=workers) as ex:
        return list(ex.map(one_case, specs, chunksize=4))


def replay_case(spec):
    r = one_case(spec)
    return r


def with_big_stack(fn, *args):
    """Run fn in a thread with a large stack and recursion limit.  The compiler's recursion depth on long programs is a
    known finding of C20; checks of other properties must not be masked by it."""
    import sys
    import threading
    res = {}

    def work():
        sys.setrecursionlimit(200000)
        try:
            res["out"] = fn(*args)
        except BaseException as e:  # pragma: no cover
            res["err"] = e
    threading.stack_size(768 * 1024 * 1024)
    t = threading.Thread(target=work)
    t.start()
    t.join()
    if "err" in res:
        raise res["err"]
    return res["out"]
