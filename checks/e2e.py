"""Bounded stand-in shared by several properties: generated program descriptions are built with the public
PyTeal constructors, compiled by the real compileTeal, executed on the spec AVM and compared with the direct
evaluation of the description (spec.progsem.den).  Everything here is labelled B (never counted as proved)."""
from __future__ import annotations

import hashlib
import os
import traceback
from concurrent.futures import ProcessPoolExecutor

PYTEAL_ERRORS = ("TealInputError", "TealCompileError", "TealTypeError", "TealInternalError", "TealPragmaError")


def contexts(mode):
    from spec import avm
    if mode == "Signature":
        return [avm.Ctx(mode="Signature", args=[b"a", b"bb"], txn={"Fee": 1000, "Amount": 5}, max_call_depth=8),
                avm.Ctx(mode="Signature", args=[b"", b"\x00\x01"], txn={"Fee": 0, "Amount": 2 ** 40}, max_call_depth=8)]
    return [avm.Ctx(txn={"ApplicationArgs": [b"a", b"b"], "ApplicationID": 0, "OnCompletion": 0, "Fee": 1000}, max_call_depth=8),
            avm.Ctx(txn={"ApplicationArgs": [], "ApplicationID": 5, "OnCompletion": 1, "Fee": 3, "Amount": 9,
                         "GroupIndex": 1, "Note": b"note"}, global_state={b"k1": 7}, max_call_depth=8)]


def clone_ctx(c):
    import copy
    return copy.deepcopy(c)


def one_case(spec):
    """spec: dict(seed, version, mode, features, size, options(list of dict(scratch_slots, frame_pointers)), assemble)"""
    from vf.core import use_repo
    use_repo()
    import pyteal as pt
    from spec import avm, progsem, proggen
    out = {"seed": spec["seed"], "version": spec["version"], "mismatches": [], "crashes": [], "compile_errors": [],
           "nontrivial": False, "key": None, "ran": 0, "teals": {}}
    try:
        prog = proggen.gen_prog(spec["seed"], version=spec.get("gen_version", spec["version"]), mode=spec["mode"], size=spec.get("size", 3),
                                features=spec.get("features"))
    except Exception:
        out["crashes"].append({"stage": "generate", "error": traceback.format_exc()[-800:]})
        return out
    out["key"] = hashlib.sha1(repr((prog.main, sorted(prog.subs), prog.gvars)).encode()).hexdigest()[:16]
    mode = pt.Mode.Application if spec["mode"] == "Application" else pt.Mode.Signature
    ctxs = contexts(spec["mode"])
    expected = []
    try:
        for c in ctxs:
            expected.append(progsem.den(prog, clone_ctx(c), spec["version"]))
    except avm.Unsupported as e:
        out["skipped"] = f"den unsupported: {e}"
        return out
    out["nontrivial"] = any(e.verdict in ("approve", "reject") for e in expected)
    for opt in spec["options"]:
        for asm in spec.get("assemble", [False]):
            tag = f"ss={opt.get('scratch_slots')} fp={opt.get('frame_pointers')} asm={asm}"
            try:
                e = progsem.build(prog)
                kw = {}
                if opt.get("scratch_slots") is not None or opt.get("frame_pointers") is not None:
                    kw["optimize"] = pt.OptimizeOptions(scratch_slots=opt.get("scratch_slots"),
                                                        frame_pointers=opt.get("frame_pointers"))
                teal = pt.compileTeal(e, mode, version=spec["version"], assembleConstants=asm, **kw)
            except Exception as ex:
                name = type(ex).__name__
                rec = {"options": tag, "error": name, "message": str(ex)[:300]}
                if name in PYTEAL_ERRORS:
                    out["compile_errors"].append(rec)
                else:
                    rec["trace"] = traceback.format_exc()[-600:]
                    out["crashes"].append(rec)
                continue
            out["teals"][tag] = teal
            for ci, c in enumerate(ctxs):
                try:
                    got = avm.run(teal, clone_ctx(c))
                except avm.Unsupported as ex:
                    continue
                out["ran"] += 1
                exp = expected[ci]
                bad = kind = None
                if got.verdict == "asmerror":
                    bad, kind = f"TEAL does not assemble: {got.detail}", "asm"
                elif got.observable() != exp.observable():
                    bad, kind = f"outcome differs: expected {exp.observable()!r:.300} got {got.observable()!r:.300} ({got.detail})", "outcome"
                elif got.verdict in ("approve", "reject") and len(got.final_stack) != 0:
                    bad, kind = f"stack not empty at exit: {got.final_stack!r:.100}", "stack"
                elif got.verdict in ("approve", "reject"):
                    for name, ty, slot in prog.gvars:
                        if slot is not None and got.scratch.get(slot, 0) != exp.gvals[name]:
                            bad, kind = (f"user-numbered slot {slot} ({name}) holds {got.scratch.get(slot, 0)!r:.60}, "
                                         f"expected {exp.gvals[name]!r:.60}"), "slot"
                if bad:
                    out["mismatches"].append({"options": tag, "ctx": ci, "what": bad, "kind": kind})
    # the recorded optimiser finding: every mismatch occurs with the optimiser on and vanishes when the multiply-stored slots are withheld
    out["known_multistore"] = False
    if out["mismatches"] and all(optimizer_on(m["options"], spec["version"]) for m in out["mismatches"]):
        try:
            explained = True
            for tag in sorted({m["options"] for m in out["mismatches"]}):
                opt = next(o for o in spec["options"] for a in spec.get("assemble", [False])
                           if f"ss={o.get('scratch_slots')} fp={o.get('frame_pointers')} asm={a}" == tag)
                asm = tag.endswith("asm=True")
                with repaired_optimizer() as ro:
                    teal = pt.compileTeal(progsem.build(prog), mode, version=spec["version"], assembleConstants=asm,
                                          optimize=pt.OptimizeOptions(scratch_slots=opt.get("scratch_slots"), frame_pointers=opt.get("frame_pointers")))
                if not ro.withheld:
                    explained = False
                    break
                for ci, c in enumerate(ctxs):
                    got = avm.run(teal, clone_ctx(c))
                    exp = expected[ci]
                    ok = got.observable() == exp.observable() and not (got.verdict in ("approve", "reject") and got.final_stack)
                    if ok and got.verdict in ("approve", "reject"):
                        ok = all(slot is None or got.scratch.get(slot, 0) == exp.gvals[name] for name, ty, slot in prog.gvars)
                    if not ok:
                        explained = False
                        break
                if not explained:
                    break
            out["known_multistore"] = explained
        except Exception:
            out["known_multistore"] = False
    if not out["mismatches"]:
        out["teals"] = {}
    else:
        keep = {m["options"] for m in out["mismatches"]}
        out["teals"] = {k: v for k, v in out["teals"].items() if k in keep}
        import pprint
        out["program"] = {"main": pprint.pformat(prog.main, width=140)[:6000],
                          "subs": {n: pprint.pformat((s.params, s.ret, s.locals, s.body), width=140)[:3000] for n, s in prog.subs.items()},
                          "gvars": prog.gvars}
    return out


def optimizer_on(tag: str, version: int) -> bool:
    """does the option tag of a mismatch (`ss=<scratch_slots> fp=... asm=...`) run the slot optimiser at this version?"""
    return "ss=True" in tag or ("ss=None" in tag and version >= 9)


class repaired_optimizer:
    """Exact attribution of the recorded optimiser finding (known_findings O3.4).  Inside this context the real
    `_remove_extraneous_slot_access` is called with the slots it was asked to remove MINUS those that are stored more than once in
    the routine (removing such a slot is the recorded defect: the other stores' values stay on the stack).  Everything else is the
    real code of the tree under test.  A mismatch is the recorded finding iff it disappears under this wrapper AND the wrapper
    withheld at least one slot; any mismatch that survives is something else and is reported.  Nothing in /repo is modified."""

    def __init__(self):
        self.withheld = 0
        self.applied = False

    def __enter__(self):
        from pyteal.compiler.optimizer import optimizer as O
        from pyteal.ir import Op, TealBlock, TealOp
        self.O = O
        self.orig = getattr(O, "_remove_extraneous_slot_access", None)
        if self.orig is None:
            return self
        outer = self

        def wrapped(start, remove):
            stores = {}
            for block in TealBlock.Iterate(start):
                for op in block.ops:
                    if type(op) is TealOp and op.getOp() == Op.store:
                        for sl in op.getSlots():
                            stores[sl] = stores.get(sl, 0) + 1
            safe = {sl for sl in remove if stores.get(sl, 0) <= 1}
            outer.withheld += len(set(remove) - safe)
            return outer.orig(start, safe)
        O._remove_extraneous_slot_access = wrapped
        self.applied = True
        return self

    def __exit__(self, *a):
        if self.applied:
            self.O._remove_extraneous_slot_access = self.orig
        return False


def multistore_signature(teal_unoptimised: str) -> bool:
    """Trigger shape of the known optimiser defect (known_findings: O3.4): a slot whose single load directly follows
    a store of it, while the slot is also stored elsewhere."""
    from spec import avm
    try:
        ops = avm.parse(teal_unoptimised).ops
    except ValueError:
        return False
    loads, stores, adjacent = {}, {}, set()
    for i, (m, im, _) in enumerate(ops):
        if m == "load":
            loads[im[0]] = loads.get(im[0], 0) + 1
            if i > 0 and ops[i - 1][0] == "store" and ops[i - 1][1] == im:
                adjacent.add(im[0])
        elif m == "store":
            stores[im[0]] = stores.get(im[0], 0) + 1
    return any(loads.get(s) == 1 and stores.get(s, 0) >= 2 for s in adjacent)


def sweep(specs, workers=16):
    if os.environ.get("VERIF_SERIAL"):
        return [one_case(s) for s in specs]
    with ProcessPoolExecutor(max_workers=workers) as ex:
        return list(ex.map(one_case, specs, chunksize=4))


def replay_case(spec):
    r = one_case(spec)
    return r


def with_big_stack(fn, *args):
    """Run fn in a thread with a large stack and recursion limit.  The compiler's recursion depth on long programs is a
    known finding of C20; checks of other properties must not be masked by it."""
    import sys
    import threading
    res = {}

    def work():
        sys.setrecursionlimit(200000)
        try:
            res["out"] = fn(*args)
        except BaseException as e:  # pragma: no cover
            res["err"] = e
    threading.stack_size(768 * 1024 * 1024)
    t = threading.Thread(target=work)
    t.start()
    t.join()
    if "err" in res:
        raise res["err"]
    return res["out"]
