"""Bounded native stand-in for findRecursionPoints / graph_search: exhaustive small call graphs (every key order)."""
import itertools
import random


def reach(adj, a, b):
    """is there a non-empty path a -> ... -> b ?"""
    seen, st = set(), list(adj[a])
    while st:
        x = st.pop()
        if x == b:
            return True
        if x in seen:
            continue
        seen.add(x)
        st += list(adj[x])
    return False


def check(tier, seed):
    from pyteal.compiler.subroutines import findRecursionPoints, graph_search
    cases, fails = 0, []
    r = random.Random(seed)

    def one(n, edges, order):
        nonlocal cases
        cases += 1
        names = [f"n{i}" for i in range(n)]
        adj = {names[i]: set(names[j] for j in range(n) if (i, j) in edges) for i in order}
        want = {a: {c for c in adj[a] if c == a or reach(adj, c, a)} for a in adj}
        # (callee == caller: direct self-call; graph_search(callee, caller) covers it because it looks for a path callee -> caller)
        want = {a: {c for c in adj[a] if reach(adj, c, a) or (c == a)} for a in adj}
        try:
            got = findRecursionPoints(adj)
        except Exception as e:
            fails.append({"n": n, "edges": sorted(edges), "order": order, "what": f"{type(e).__name__}: {e}"})
            return
        # independent spec: callee is a re-entry point of caller iff caller is reachable from callee (path of length >= 0 when callee == caller needs an edge)
        spec = {a: {c for c in adj[a] if (c == a) or reach(adj, c, a)} for a in adj}
        if got != spec:
            bad = next(a for a in adj if got.get(a) != spec[a])
            fails.append({"n": n, "edges": sorted(edges), "order": list(order), "what": f"re-entry points of {bad}: got {sorted(got.get(bad, []))}, expected {sorted(spec[bad])}"})

    for n in (1, 2, 3):
        pairs = [(i, j) for i in range(n) for j in range(n)]
        for k in range(2 ** len(pairs)):
            edges = {p for b, p in enumerate(pairs) if k >> b & 1}
            for order in itertools.permutations(range(n)):
                one(n, edges, order)
                if len(fails) > 3:
                    return cases, fails
    pairs = [(i, j) for i in range(4) for j in range(4)]
    for _ in range(1500 if tier == "quick" else 20000):
        edges = {p for p in pairs if r.random() < 0.35}
        order = list(range(4))
        r.shuffle(order)
        one(4, edges, tuple(order))
        if len(fails) > 3:
            break
    return cases, fails
