"""Bounded stand-in: the same Expr *object* used at several places of a program (C01 / C20).

A PyTeal expression tree may contain one Python object several times (a statement stored in a variable and used in both arms of an
If, twice in a Seq, in several Cond arms, in a loop body and after it ...).  The program generators of the other harnesses build a
fresh object per node, so sharing is exercised here:  every template is compiled twice - with one shared object and with separately
constructed equal objects - and
   * neither compilation may end in anything but TEAL or a PyTeal error                                   (C20)
   * both give the same TEAL text                                                                         (C01: the meaning of a
     program does not depend on the identity of its sub-expression objects)
Templates x shared statements x versions {3, 6, 10} x slot optimiser on / off.
"""
import itertools

PYTEAL_ERRORS = ("TealInputError", "TealCompileError", "TealTypeError", "TealInternalError", "TealPragmaError")

# statement makers: called with pt and a dict of shared variables; return a fresh Expr each time
STMTS = {
    "store": lambda pt, v: v["x"].store(v["x"].load() + pt.Int(1)),
    "pop": lambda pt, v: pt.Pop(pt.Txn.fee()),
    "put": lambda pt, v: pt.App.globalPut(pt.Bytes("n"), pt.App.globalGet(pt.Bytes("n")) + pt.Int(1)),
    "empty": lambda pt, v: pt.Seq(),
    "seq2": lambda pt, v: pt.Seq(v["x"].store(pt.Int(2)), pt.Pop(v["x"].load())),
    "if": lambda pt, v: pt.If(pt.Txn.fee() > pt.Int(7)).Then(v["x"].store(pt.Int(5))),
    "assert": lambda pt, v: pt.Assert(pt.Txn.fee() < pt.Int(10 ** 6)),
}

C1 = lambda pt: pt.Txn.fee() > pt.Int(1000)
C2 = lambda pt: pt.Txn.sender() == pt.Global.creator_address()

TEMPLATES = {
    "if-both-arms": lambda pt, v, s: pt.Seq(pt.If(C1(pt)).Then(s()).Else(s()), pt.Return(pt.Int(1))),
    "nested-if-both-arms": lambda pt, v, s: pt.Seq(pt.If(C2(pt)).Then(pt.If(C1(pt)).Then(s()).Else(s())).Else(v["x"].store(pt.Int(0))), pt.Return(pt.Int(1))),
    "nested-if-both-arms-then-more": lambda pt, v, s: pt.Seq(pt.If(C2(pt)).Then(pt.Seq(pt.If(C1(pt)).Then(s()).Else(s()), v["x"].store(pt.Int(9)))), pt.Return(pt.Int(1))),
    "loop-body-if-both-arms": lambda pt, v, s: pt.Seq(v["i"].store(pt.Int(0)), pt.While(v["i"].load() < pt.Int(3)).Do(
        pt.Seq(v["i"].store(v["i"].load() + pt.Int(1)), pt.If(C1(pt)).Then(s()).Else(s()))), pt.Return(pt.Int(1))),
    "seq-twice": lambda pt, v, s: pt.Seq(s(), s(), pt.Return(pt.Int(1))),
    "seq-thrice-around-if": lambda pt, v, s: pt.Seq(s(), pt.If(C1(pt)).Then(s()), s(), pt.Return(pt.Int(1))),
    "cond-arms": lambda pt, v, s: pt.Seq(pt.Cond([C1(pt), s()], [C2(pt), s()], [pt.Int(1), s()]), pt.Return(pt.Int(1))),
    "loop-and-after": lambda pt, v, s: pt.Seq(v["i"].store(pt.Int(0)), pt.While(v["i"].load() < pt.Int(2)).Do(pt.Seq(v["i"].store(v["i"].load() + pt.Int(1)), s())), s(),
                                              pt.Return(pt.Int(1))),
    "for-body-and-step": lambda pt, v, s: pt.Seq(pt.For(v["i"].store(pt.Int(0)), v["i"].load() < pt.Int(2), v["i"].store(v["i"].load() + pt.Int(1))).Do(pt.Seq(s(), s())),
                                                  pt.Return(pt.Int(1))),
    "if-arm-and-after": lambda pt, v, s: pt.Seq(pt.If(C1(pt)).Then(s()).ElseIf(C2(pt)).Then(s()), s(), pt.Return(pt.Int(1))),
    "subroutine-body-and-main": None,     # built specially below
}


def build(pt, template, stmt, shared):
    v = {"x": pt.ScratchVar(pt.TealType.uint64), "i": pt.ScratchVar(pt.TealType.uint64)}
    mk = STMTS[stmt]
    if shared:
        obj = mk(pt, v)
        s = lambda: obj
    else:
        s = lambda: mk(pt, v)
    if template == "subroutine-body-and-main":
        @pt.Subroutine(pt.TealType.none)
        def sub():
            return pt.Seq(s(), s())
        return pt.Seq(sub(), s(), pt.Return(pt.Int(1)))
    return TEMPLATES[template](pt, v, s)


def case(job):
    template, stmt, version, opt = job
    from vf.core import use_repo
    use_repo()
    import pyteal as pt
    out = {"job": list(job), "crash": None, "differs": None, "ran": 0}
    texts = {}
    for shared in (False, True):
        try:
            kw = {"optimize": pt.OptimizeOptions(scratch_slots=opt)}
            texts[shared] = pt.compileTeal(build(pt, template, stmt, shared), pt.Mode.Application, version=version, **kw)
            out["ran"] += 1
        except Exception as e:
            name = type(e).__name__
            texts[shared] = f"<{name}>"
            if name not in PYTEAL_ERRORS:
                out["crash"] = f"{'shared' if shared else 'fresh'} objects: {name}: {str(e)[:160]}"
    if out["crash"] is None and texts[False] != texts[True]:
        a, b = texts[False].split("\n"), texts[True].split("\n")
        i = next((k for k, (x, y) in enumerate(zip(a, b)) if x != y), min(len(a), len(b)))
        out["differs"] = f"TEAL with one shared object differs from TEAL with separately built equal objects at line {i + 1}: {a[i:i + 2]} vs {b[i:i + 2]}"
    return out


def jobs(tier):
    versions = (3, 6, 10) if tier == "quick" else (2, 3, 4, 6, 8, 9, 10)
    return [(t, s, v, o) for t, s in itertools.product(TEMPLATES, STMTS) for v in versions for o in (False, True)
            if not (t == "subroutine-body-and-main" and v < 4)]
