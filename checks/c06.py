"""C06 ABI values assembled in PyTeal encode exactly per ARC-4."""
from __future__ import annotations

import random

from vf.core import Report, Bounded, Violation
from vf.runner import run_contracts
from . import abi_e2e as A

LEVEL = "other"


def jobs_for(tier, seed):
    shapes = A.shapes_quick()
    r = random.Random(seed)
    extra = 60 if tier == "quick" else 1500
    shapes = shapes + [A.random_shape(r, 2 if tier == "quick" else 3) for _ in range(extra)]
    jobs = []
    for i, s in enumerate(shapes):
        v = [5, 6, 7, 8, 9, 10][i % 6] if i % 7 else 6
        jobs.append((s, seed * 7919 + i, v, (i % 2 == 1) and v >= 6))
    # every tuple over the three layout classes (bit-packed bool / static / dynamic) up to a length: the head/tail bookkeeping of
    # _encode_tuple depends only on the class sequence; each in the main routine (scratch slots) and in a subroutine (frame variables)
    import itertools
    for n in range(1, (5 if tier == "quick" else 6) + 1):
        for seq in itertools.product(("bool", "uint8", "string"), repeat=n):
            if "string" not in seq and n > 3:
                continue   # all-static tuples: covered by the catalogue
            sh = "(" + ",".join(seq) + ")"
            k = len(jobs)
            jobs.append((sh, seed * 7919 + k, 6 + k % 2, False))
            jobs.append((sh, seed * 7919 + k, 8 + k % 3, True))
    return jobs


def uint_set_replay(obs):
    """Replay the solver's counterexample of a uint_set obligation (width index, python int value) on the real function."""
    from vf.core import use_repo
    use_repo()
    import pyteal as pt
    from pyteal.ast.abi.uint import uint_set
    sizes = (8, 16, 32, 64)
    cands = []
    for o in obs:
        m = (o.model or {}).get("model") if isinstance(o.model, dict) else None
        if isinstance(m, dict) and "value" in m and "width_index" in m:
            try:
                cands.append((sizes[int(m["width_index"])], int(m["value"])))
            except (ValueError, IndexError):
                pass
    cands += [(s, v) for s in sizes for v in (-1, 0, 2 ** s - 1, 2 ** s, 2 ** s + 1)]
    for size, v in cands:
        try:
            e = uint_set(size, pt.ScratchVar(pt.TealType.uint64), v)
            accepted = True
        except pt.TealInputError:
            accepted, e = False, None
        want = 0 <= v < 2 ** size
        if accepted != want:
            return {"input": {"size": size, "value": v}, "problems": [f"uint_set(size={size}, value={v}) {'accepted' if accepted else 'rejected'}; the width holds [0, 2^{size})"]}
        if accepted:
            teal = pt.compileTeal(pt.Seq(e, pt.Approve()), pt.Mode.Application, version=6)
            if f"int {v}" not in teal and f"pushint {v}" not in teal:
                return {"input": {"size": size, "value": v}, "problems": [f"uint_set(size={size}, value={v}) does not store the constant {v}"], "teal": teal}
    for size in sizes[:3]:
        e = uint_set(size, pt.ScratchVar(pt.TealType.uint64), pt.Btoi(pt.Bytes("x")))
        lines = [l.strip() for l in pt.compileTeal(pt.Seq(e, pt.Approve()), pt.Mode.Application, version=6).splitlines()]
        tail = [l for l in lines if l and not l.startswith("#pragma")]
        ok = any(tail[i:i + 3] == [f"int {2 ** size}", "<", "assert"] for i in range(len(tail)))
        if not ok:
            return {"input": {"size": size, "value": "Btoi(Bytes('x')) (a run-time value)"},
                    "problems": [f"uint_set(size={size}, <expression>) is not followed by the run-time check `load; int {2 ** size}; <; assert`"], "teal": "\n".join(lines)}
    return None


def uint_codec_replay(which):
    """Native witness search for the scalar codec helpers: the real uint_encode / uint_decode compiled and run on the spec AVM
    against big-endian arithmetic, every width x boundary values x every combination of optional indices."""
    from vf.core import use_repo
    use_repo()
    import itertools
    import pyteal as pt
    from pyteal.ast.abi.uint import uint_encode, uint_decode
    from spec import avm
    for size in (8, 16, 32, 64):
        n = size // 8
        for v in (0, 1, 2 ** (size - 1), 2 ** size - 1, 0x0102030405060708 % 2 ** size):
            if which == "encode":
                teal = pt.compileTeal(pt.Seq(pt.Log(uint_encode(size, pt.Int(v))), pt.Approve()), pt.Mode.Application, version=6)
                r = avm.run(teal, avm.Ctx())
                if r.verdict != "approve" or list(r.logs) != [v.to_bytes(n, "big")]:
                    return {"input": {"size": size, "value": v}, "problems": [f"uint_encode(size={size}, Int({v})) gives {r.verdict} {[bytes(x).hex() for x in r.logs]}, expected {v.to_bytes(n, 'big').hex()}"], "teal": teal}
            else:
                for pad, (hs, he, hl) in itertools.product((0, 3), itertools.product((False, True), repeat=3)):
                    if pad and not hs:
                        continue
                    buf = b"\xaa" * pad + v.to_bytes(n, "big") + (b"\xbb" * 2 if hs else b"")
                    var = pt.ScratchVar(pt.TealType.uint64)
                    e = uint_decode(size, var, pt.Bytes(buf), pt.Int(pad) if hs else None, pt.Int(pad + n) if he else None, pt.Int(n) if hl else None)
                    teal = pt.compileTeal(pt.Seq(e, pt.Log(pt.Itob(var.load())), pt.Approve()), pt.Mode.Application, version=6)
                    r = avm.run(teal, avm.Ctx())
                    # without a start index the helper reads at 0; with only end/length given the caller passes a buffer that starts at the value
                    if r.verdict != "approve" or list(r.logs) != [v.to_bytes(8, "big")]:
                        return {"input": {"size": size, "value": v, "buffer": buf.hex(), "start/end/length given": [hs, he, hl]},
                                "problems": [f"uint_decode(size={size}) of {buf.hex()} gives {r.verdict} {[bytes(x).hex() for x in r.logs]}, expected {v}"], "teal": teal}
    return None


def bool_codec_replay(which):
    """Native witness search for abi.Bool.encode / decode on the spec AVM against ARC-4 (most significant bit of one byte)."""
    from vf.core import use_repo
    use_repo()
    import pyteal as pt
    from spec import avm
    for v in (0, 1):
        if which == "encode":
            b = pt.abi.Bool()
            teal = pt.compileTeal(pt.Seq(b.set(bool(v)), pt.Log(b.encode()), pt.Approve()), pt.Mode.Application, version=6)
            r = avm.run(teal, avm.Ctx())
            if r.verdict != "approve" or list(r.logs) != [bytes([0x80 * v])]:
                return {"input": {"value": bool(v)}, "problems": [f"Bool.encode() of {bool(v)} gives {r.verdict} {[bytes(x).hex() for x in r.logs]}, expected {bytes([0x80 * v]).hex()}"], "teal": teal}
        elif which == "set":
            for arg, want in ((bool(v), v), (pt.Int(v), v), (pt.Int(5 * v), v), (pt.Int(2 ** 64 - 1) if v else pt.Int(0), v)):
                b = pt.abi.Bool()
                teal = pt.compileTeal(pt.Seq(b.set(arg), pt.Log(pt.Itob(b.get())), pt.Approve()), pt.Mode.Application, version=6)
                r = avm.run(teal, avm.Ctx())
                if r.verdict != "approve" or list(r.logs) != [want.to_bytes(8, "big")]:
                    return {"input": {"set": repr(arg) if isinstance(arg, bool) else "Int expression", "expected": want}, "problems": [f"Bool.set({arg!r}) then get() gives {r.verdict} {[bytes(x).hex() for x in r.logs]}, expected {want}"], "teal": teal}
        else:
            for start in (None, 0, 2):
                buf = b"\x7f" * (start or 0) + bytes([0x80 * v | 0x55]) + b"\x7f"
                b = pt.abi.Bool()
                kw = {} if start is None else {"start_index": pt.Int(start)}
                teal = pt.compileTeal(pt.Seq(b.decode(pt.Bytes(buf), **kw), pt.Log(pt.Itob(b.get())), pt.Approve()), pt.Mode.Application, version=6)
                r = avm.run(teal, avm.Ctx())
                if r.verdict != "approve" or list(r.logs) != [v.to_bytes(8, "big")]:
                    return {"input": {"buffer": buf.hex(), "start_index": start}, "problems": [f"Bool.decode of {buf.hex()} at {start} gives {r.verdict} {[bytes(x).hex() for x in r.logs]}, expected {v}"], "teal": teal}
    return None


def bool_sequence_replay():
    """Native witness search for _encode_bool_sequence: n = 0..17 bools with alternating / boundary patterns on the spec AVM against ARC-4 packing."""
    from vf.core import use_repo
    use_repo()
    import pyteal as pt
    from pyteal.ast.abi.bool import _encode_bool_sequence
    from spec import avm
    for n in range(0, 18):
        for pat in ({n - 1}, set(range(n)), set(range(0, n, 2)), {0}, {8}, {9}):
            bits = [j in pat for j in range(n)]
            vals = [pt.abi.Bool() for _ in range(n)]
            want = bytearray((n + 7) // 8)
            for j, b in enumerate(bits):
                if b:
                    want[j // 8] |= 0x80 >> (j % 8)
            try:
                teal = pt.compileTeal(pt.Seq(*[v.set(b) for v, b in zip(vals, bits)], pt.Log(_encode_bool_sequence(vals)), pt.Approve()), pt.Mode.Application, version=6)
                r = avm.run(teal, avm.Ctx())
                got = (r.verdict, [bytes(x).hex() for x in r.logs])
            except Exception as e:  # noqa
                teal, got = None, ("exception", repr(e))
            if got != ("approve", [bytes(want).hex()]):
                return {"input": {"bools": bits}, "problems": [f"_encode_bool_sequence of {bits} gives {got}, expected {bytes(want).hex()}"], "teal": teal}
    return None


def uint_class_replay():
    """Native witness search for the Uint methods (set / encode / decode through the classes) on the spec AVM."""
    from vf.core import use_repo
    use_repo()
    import pyteal as pt
    from spec import avm
    for size, cls in ((8, pt.abi.Uint8), (16, pt.abi.Uint16), (32, pt.abi.Uint32), (64, pt.abi.Uint64), (8, pt.abi.Byte)):
        n = size // 8
        for v in (0, 1, 2 ** size - 1, 0x0102030405060708 % 2 ** size):
            for arg in (v, pt.Int(v)):
                u, w = cls(), cls()
                buf = b"\xaa\xaa\xaa" + v.to_bytes(n, "big") + b"\xbb"
                teal = pt.compileTeal(pt.Seq(u.set(arg), pt.Log(u.encode()), w.decode(pt.Bytes(buf), start_index=pt.Int(3), end_index=pt.Int(3 + n)),
                                             pt.Log(pt.Itob(w.get())), w.decode(pt.Bytes(buf[3:3 + n])), pt.Log(pt.Itob(w.get())), pt.Approve()), pt.Mode.Application, version=6)
                r = avm.run(teal, avm.Ctx())
                want = [v.to_bytes(n, "big"), v.to_bytes(8, "big"), v.to_bytes(8, "big")]
                if r.verdict != "approve" or list(r.logs) != want:
                    return {"input": {"class": cls.__name__, "value": v, "as": "int" if isinstance(arg, int) else "Int expression"},
                            "problems": [f"{cls.__name__}: set / encode / decode gives {r.verdict} {[bytes(x).hex() for x in r.logs]}, expected {[x.hex() for x in want]}"], "teal": teal}
        for osize, ocls in ((8, pt.abi.Uint8), (16, pt.abi.Uint16), (32, pt.abi.Uint32), (64, pt.abi.Uint64)):
            try:
                cls().set(ocls())
                accepted = True
            except pt.TealInputError:
                accepted = False
            if accepted != (osize == size):
                return {"input": {"destination": cls.__name__, "source": ocls.__name__}, "problems": [f"{cls.__name__}().set({ocls.__name__}()) is {'accepted' if accepted else 'rejected'}; only equal widths may be copied (no run-time range check follows)"]}
        for bad in (2 ** size, pt.Int(2 ** size) if size < 64 else None):
            if bad is None:
                continue
            u = cls()
            try:
                teal = pt.compileTeal(pt.Seq(u.set(bad), pt.Approve()), pt.Mode.Application, version=6)
                verdict = avm.run(teal, avm.Ctx()).verdict
            except pt.TealInputError:
                teal, verdict = None, "rejected"
            if verdict == "approve":
                return {"input": {"class": cls.__name__, "value": 2 ** size}, "problems": [f"{cls.__name__}.set(2^{size}) neither rejected nor failing"], "teal": teal}
    return None


def run(report: Report, tier, seed):
    report.trust("algosdk.abi (reference codec: type strings, is_dynamic, byte_len, encode)", "spec/avm.py",
                 "spec arc4 position function in contracts/c06_layout.py (independent, element-by-element walk)")
    report.assume("the Expr layer of set()/encode() is checked per generated shape and value (bounded stand-in); the layout arithmetic "
                  "(_bool_sequence_length, _consecutive_thing_num, _bool_aware_static_byte_length) is proved for all type sequences (pyvc)")
    run_contracts(report, [("contracts.c06_layout", "BoolSequenceLength", "O6.13"),
                           ("contracts.c06_layout", "ConsecutiveThingNum", "O6.14"),
                           ("contracts.c06_layout", "BoolAwareStaticByteLength", "O6.15"),
                           ("contracts.c06_encode", "EncodeTuple", "O6.16"),
                           ("contracts.c06_uint", "UintSetInt", "O6.17"),
                           ("contracts.c06_uint", "UintSetExpr", "O6.18"),
                           ("contracts.c06_uint", "UintEncode", "O6.19"),
                           ("contracts.c06_uint", "BoolEncode", "O6.20"),
                           ("contracts.c06_uint", "EncodeBoolSequence", "O6.21"),
                           ("contracts.c06_uint", "BoolSetLiteral", "O6.22"), ("contracts.c06_uint", "BoolSetExpr", "O6.23"),
                           ("contracts.c06_uint", "UintEncodeLink", "O6.24"), ("contracts.c06_uint", "UintSetLink", "O6.25"),
                           ("contracts.c06_uint", "UintSetFromUint", "O6.26")])
    jobs = jobs_for(tier, seed)
    res = A.pool_map(A.encode_case, jobs)
    bad = [r for r in res if r["problems"]]
    ran = sum(r["ran"] for r in res)
    report.bounded.append(Bounded(function="abi set(...) / encode() / TypeSpec descriptors",
                                  contract="type string, is_dynamic, byte_length_static and encoded bytes equal the reference codec",
                                  bound=f"{len(jobs)} type shapes (fixed catalogue + seeded random nesting) x 3 boundary-biased values x versions 5..10 x main routine / subroutine (frame variables)",
                                  cases=ran, distinct_nontrivial=len({j[0] for j in jobs}), failures=len(bad)))
    rng = A.pool_map(A.uint_range_case, [(b, v) for b in (8, 16, 32, 64) for v in (6, 10)])
    rbad = [r for r in rng if r["problems"]]
    report.bounded.append(Bounded(function="abi.UintN.set", contract="python ints >= 2^N rejected at build time; Expr values >= 2^N make the program fail",
                                  bound="N in {8,16,32,64} x boundary values x versions {6,10}", cases=len(rng), distinct_nontrivial=len(rng), failures=len(rbad)))
    cj = A.copy_jobs(tier, seed)
    cr = A.pool_map(A.copy_case, cj)
    cbad = [r for r in cr if r["problems"]]
    report.bounded.append(Bounded(function="abi X.set(another ABI value)", contract="rejected when built, refused at run time, or the destination encodes the same logical value per ARC-4 (no silent truncation / re-interpretation)",
                                  bound=f"all ordered pairs of {len(A.COPY_TYPES)} types (uint widths, bool, byte, string / byte[] / address / byte[N], small arrays and tuples) x boundary values x main routine / subroutine",
                                  cases=len(cr), distinct_nontrivial=sum(1 for r in cr if r["accepted"]), failures=len(cbad)))
    lj = A.length_jobs(tier)
    lr = A.pool_map(A.length_case, lj)
    lbad = [r for r in lr if r["problems"]]
    report.bounded.append(Bounded(function="length prefix of dynamic values (String / DynamicBytes / DynamicArray set from literals, expressions and element values; string inside a tuple; StaticBytes literal)",
                                  contract="encoded length, SHA-256 and first two bytes equal the reference codec's",
                                  bound=f"{len(A.LEN_ROUTES)} routes x lengths {A.LEN_BOUNDARIES} x versions", cases=sum(r["ran"] for r in lr), distinct_nontrivial=len(lj), failures=len(lbad)))
    for b in lbad[:2]:
        report.violation(Violation(key=f"length:{b['job'][0]}:{b['job'][1]}", what=b["problems"][0][:400], replay={"input": {"length": b["job"]}, "teal": b.get("teal")}, confirmed_native=True))
    sj = A.setform_jobs(tier)
    sr = A.pool_map(A.setform_case, sj)
    sbad = [r for r in sr if r["problems"]]
    report.bounded.append(Bounded(function="Address / String / DynamicBytes / StaticBytes .set(<every argument form>)", contract="an accepted argument encodes to the reference bytes of the value it denotes",
                                  bound=f"{len(A.SETFORM_TARGETS)} classes x {len(A.SETFORM_FORMS)} argument forms (str, bytes, bytearray, expression, Byte values, same class, sibling class with the same encoding, computed value) x versions x main routine / subroutine",
                                  cases=sum(r["ran"] for r in sr), distinct_nontrivial=sum(1 for r in sr if r["accepted"]), failures=len(sbad)))
    for b in sbad[:2]:
        report.violation(Violation(key=f"setform:{b['job'][0]}:{b['job'][1]}", what=b["problems"][0][:400], replay={"input": {"setform": b["job"]}, "teal": b.get("teal")}, confirmed_native=True))
    report.sample({"shape": jobs[40][0], "what": "assembled with set() from parts, Log(encode()) compared with algosdk"})
    report.extra["explanation"] = "P: layout arithmetic (pyvc); B: Expr layer against algosdk on generated shapes/values"
    def search(fn, obs):
        if fn.endswith("_encode_bool_sequence"):
            return bool_sequence_replay()
        if fn.endswith("Uint.encode") or fn.endswith("Uint.set"):
            return uint_class_replay()
        if fn.endswith("Bool.set"):
            return bool_codec_replay("set")
        if fn.endswith("Bool.encode"):
            return bool_codec_replay("encode")
        if fn.endswith("uint.uint_encode"):
            return uint_codec_replay("encode")
        if fn.endswith("uint.uint_set"):
            return uint_set_replay(obs) or ((rbad[0] if rbad else None) and {"input": {"uint_range": rbad[0].get("shape")}, "problems": rbad[0]["problems"][:2]})
        return (bad[0] if bad else None) and {"input": {"shape": bad[0]["shape"], "seed": bad[0]["seed"], "version": bad[0]["version"], "in_sub": bad[0]["in_sub"]}, "problems": bad[0]["problems"][:2]}
    report.settle_undecided(search)
    report.settle_refuted(search)
    for b in cbad[:2]:
        if any(o.status == "refuted" for o in report.obs):
            break
        report.violation(Violation(key=f"copy:{b['job'][0]}->{b['job'][1]}", what=b["problems"][0][:400], replay={"input": {"copy": b["job"]}, "teal": b.get("teal")}, confirmed_native=True))
    for b in (bad + rbad)[:3]:
        if any(o.status == "refuted" for o in report.obs):
            break
        report.violation(Violation(key=f"encode:{b['shape']}", what=f"{b['shape']}: {str(b['problems'][0])[:300]}",
                                   replay={"input": {"shape": b["shape"], "seed": b.get("seed"), "version": b.get("version"), "in_sub": b.get("in_sub")},
                                           "problems": b["problems"][:2], "teal": b.get("teal")}, confirmed_native=True))


def replay(data):
    r = data.get("replay") or {}
    nat = r.get("native") or r
    inp = nat.get("input")
    if inp and inp.get("setform"):
        out = A.setform_case(tuple(inp["setform"]))
        print(out["problems"][:2])
        return 1 if out["problems"] else 0
    if inp and inp.get("length"):
        out = A.length_case(tuple(inp["length"]))
        print(out["problems"][:2])
        return 1 if out["problems"] else 0
    if inp and inp.get("copy"):
        out = A.copy_case(tuple(inp["copy"]))
        print(out["problems"][:2])
        return 1 if out["problems"] else 0
    if not inp or inp.get("seed") is None:
        print("no concrete input;", [x["id"] for x in r.get("refuted", [])])
        return 1
    out = A.encode_case((inp["shape"], inp["seed"], inp["version"], inp["in_sub"]))
    print(out["problems"])
    return 1 if out["problems"] else 0
