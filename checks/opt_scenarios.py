"""Bounded stand-in for the slot optimiser's exclusion rules (C03 / C05): an adjacent `store s; load s` pair, which the optimiser
wants to turn into stack traffic, on every *kind* of slot, with every way a later reader can still observe the slot.

  kinds     : auto (compiler-numbered) | reserved (ScratchVar(uint64, 7)) | lowid (ScratchVar(uint64, 0))
  placement : the store/load pair sits in the main routine | inside a subroutine
  observers : none | a later direct load in the same routine | a load in another routine (shared slot) |
              a DynamicScratchVar pointing at the variable (`loads`) | the variable passed by reference to a subroutine
  lead      : the scenario starts the routine | sits behind a conditional (no slot is mentioned in the routine's first basic block)
  settings  : every OptimizeOptions(scratch_slots, frame_pointers) in {None, True, False}^2 x versions 5..10

Oracle: written out by hand per scenario (the logs each program must produce for application argument 41, and the final content of
a user-numbered slot), evaluated on the spec AVM.  Independent of the optimiser and of the other settings.
"""
import itertools

KINDS = ("auto", "reserved", "lowid")
PLACES = ("main", "sub")
OBSERVERS = ("none", "later-load", "other-routine", "dynamic", "byref")
SETTINGS = [(a, b) for a in (None, True, False) for b in (None, True, False)]
LEADS = ("straight", "after-branch")


def itob(n):
    return n.to_bytes(8, "big")


def build(pt, kind, place, observer, lead="straight"):
    sid = {"auto": None, "reserved": 7, "lowid": 0}[kind]
    v = pt.ScratchVar(pt.TealType.uint64, sid) if sid is not None else pt.ScratchVar(pt.TealType.uint64)
    arg = pt.Btoi(pt.Txn.application_args[0])
    pre, post, expect = [], [], [itob(42)]
    pair = pt.Seq(v.store(arg), pt.Log(pt.Itob(v.load() + pt.Int(1))))
    if place == "sub":
        @pt.Subroutine(pt.TealType.none)
        def work():
            return pair
        core = work()
    else:
        core = pair
    if observer == "later-load":
        # in the same routine as the pair when the pair is in main; otherwise after the call (a second routine's view)
        post = [pt.Log(pt.Itob(v.load()))]
        expect.append(itob(41))
    elif observer == "other-routine":
        @pt.Subroutine(pt.TealType.uint64)
        def peek():
            return v.load() + pt.Int(2)
        post = [pt.Log(pt.Itob(peek()))]
        expect.append(itob(43))
    elif observer == "dynamic":
        d = pt.DynamicScratchVar(pt.TealType.uint64)
        pre = [d.set_index(v)]
        post = [pt.Log(pt.Itob(d.load()))]
        expect.append(itob(41))
    elif observer == "byref":
        @pt.Subroutine(pt.TealType.uint64)
        def getref(r: pt.ScratchVar):
            return r.load()
        post = [pt.Log(pt.Itob(getref(v)))]
        expect.append(itob(41))
    if lead == "after-branch":
        # everything sits behind a conditional: none of the routine's slots is mentioned in its first basic block
        pre = [pt.If(pt.Txn.fee() > pt.Int(2 ** 40)).Then(pt.Log(pt.Bytes("never")))] + pre
    prog = pt.Seq(*pre, core, *post, pt.Approve())
    return prog, expect, sid


def case(job):
    kind, place, observer, version = job[:4]
    lead = job[4] if len(job) > 4 else "straight"
    from vf.core import use_repo
    use_repo()
    import pyteal as pt
    from spec import avm
    out = {"job": list(job), "problems": [], "ran": 0}
    for ss, fp in SETTINGS:
        if fp is not None and version < 8 and fp:
            continue
        try:
            prog, expect, sid = build(pt, kind, place, observer, lead)
            kw = {}
            if ss is not None or fp is not None:
                kw["optimize"] = pt.OptimizeOptions(scratch_slots=ss, frame_pointers=fp)
            teal = pt.compileTeal(prog, pt.Mode.Application, version=version, **kw)
        except Exception as e:
            if type(e).__name__ in ("TealInputError",) and version < 8 and fp:
                continue
            out["problems"].append({"setting": [ss, fp], "what": f"compilation failed: {type(e).__name__}: {str(e)[:160]}"})
            continue
        res = avm.run(teal, avm.Ctx(txn={"ApplicationArgs": [itob(41)], "ApplicationID": 1, "OnCompletion": 0}))
        out["ran"] += 1
        if res.verdict != "approve" or list(res.logs) != expect:
            out["problems"].append({"setting": [ss, fp], "what": f"verdict {res.verdict} {res.detail}, logs {[x.hex() for x in res.logs]} expected {[x.hex() for x in expect]}", "teal": teal})
        elif sid is not None and res.scratch.get(sid) != 41:
            out["problems"].append({"setting": [ss, fp], "what": f"user-numbered slot {sid} holds {res.scratch.get(sid)} at exit, expected 41", "teal": teal})
    return out


def jobs(tier):
    versions = (5, 8, 9, 10) if tier == "quick" else (5, 6, 7, 8, 9, 10)
    return [(k, p, o, v, lead) for k, p, o in itertools.product(KINDS, PLACES, OBSERVERS) for v in versions for lead in LEADS]
