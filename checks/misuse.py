"""Bounded stand-in for C20 on *misused* builders and ill-formed programs: every way of leaving a control-flow builder incomplete, calling a
builder method twice or in the wrong order, giving a construct nothing to do, or using an exit / loop-exit where none is allowed.
Each probe is built and, if the constructors produce an expression at all, compiled: compilation must give TEAL or one of PyTeal's own
error types - never another Python exception.  (A constructor refusing its arguments, with whatever exception, produced no program.)"""

PROBES = {
    # If builder
    "if-no-then": lambda pt, c, a, b: pt.Seq(pt.If(c), pt.Approve()),
    "if-else-before-then": lambda pt, c, a, b: pt.Seq(pt.If(c).Else(a), pt.Approve()),
    "if-elseif-without-then": lambda pt, c, a, b: pt.Seq(pt.If(c).Then(a).ElseIf(c), pt.Approve()),
    "if-elseif-first": lambda pt, c, a, b: pt.Seq(pt.If(c).ElseIf(c).Then(a), pt.Approve()),
    "if-else-twice": lambda pt, c, a, b: pt.Seq(pt.If(c).Then(a).Else(b).Else(b), pt.Approve()),
    "if-then-twice": lambda pt, c, a, b: pt.Seq(pt.If(c).Then(a).Then(b), pt.Approve()),
    "if-mixed-styles-then": lambda pt, c, a, b: pt.Seq(pt.If(c, a).Then(b), pt.Approve()),
    "if-mixed-styles-else": lambda pt, c, a, b: pt.Seq(pt.If(c, a).Else(b), pt.Approve()),
    "if-mixed-styles-elseif": lambda pt, c, a, b: pt.Seq(pt.If(c, a, b).ElseIf(c), pt.Approve()),
    "if-elseif-then-else-then": lambda pt, c, a, b: pt.Seq(pt.If(c).Then(a).ElseIf(c).Then(b).Else(a).Then(b), pt.Approve()),
    "if-value-without-else": lambda pt, c, a, b: pt.Seq(pt.Pop(pt.If(c).Then(pt.Int(1))), pt.Approve()),
    "if-branch-types-differ": lambda pt, c, a, b: pt.Seq(pt.Pop(pt.If(c).Then(pt.Int(1)).Else(pt.Bytes("x"))), pt.Approve()),
    # loops
    "while-no-do": lambda pt, c, a, b: pt.Seq(pt.While(c), pt.Approve()),
    "while-do-twice": lambda pt, c, a, b: pt.Seq(pt.While(c).Do(a).Do(b), pt.Approve()),
    "while-body-with-value": lambda pt, c, a, b: pt.Seq(pt.While(c).Do(pt.Int(1)), pt.Approve()),
    "for-no-do": lambda pt, c, a, b: pt.Seq(pt.For(a, c, b), pt.Approve()),
    "for-do-twice": lambda pt, c, a, b: pt.Seq(pt.For(a, c, b).Do(a).Do(b), pt.Approve()),
    "for-step-with-value": lambda pt, c, a, b: pt.Seq(pt.For(a, c, pt.Int(1)).Do(b), pt.Approve()),
    "break-outside-loop": lambda pt, c, a, b: pt.Seq(pt.Break(), pt.Approve()),
    "continue-outside-loop": lambda pt, c, a, b: pt.Seq(pt.Continue(), pt.Approve()),
    "break-in-if-outside-loop": lambda pt, c, a, b: pt.Seq(pt.If(c).Then(pt.Break()), pt.Approve()),
    "continue-in-sub-called-from-loop": lambda pt, c, a, b: _sub_with(pt, pt.Continue(), c),
    "break-in-sub-called-from-loop": lambda pt, c, a, b: _sub_with(pt, pt.Break(), c),
    # Cond / Seq / Assert
    "cond-empty": lambda pt, c, a, b: pt.Seq(pt.Cond(), pt.Approve()),
    "cond-arm-without-value": lambda pt, c, a, b: pt.Seq(pt.Cond([c]), pt.Approve()),
    "cond-arm-three": lambda pt, c, a, b: pt.Seq(pt.Cond([c, a, b]), pt.Approve()),
    "cond-arm-types-differ": lambda pt, c, a, b: pt.Seq(pt.Pop(pt.Cond([c, pt.Int(1)], [c, pt.Bytes("x")])), pt.Approve()),
    "cond-bytes-condition": lambda pt, c, a, b: pt.Seq(pt.Cond([pt.Bytes("x"), a]), pt.Approve()),
    "seq-value-in-the-middle": lambda pt, c, a, b: pt.Seq(pt.Int(1), pt.Approve()),
    "seq-list-and-args": lambda pt, c, a, b: pt.Seq([a], b),
    "assert-nothing": lambda pt, c, a, b: pt.Seq(pt.Assert(), pt.Approve()),
    "assert-bytes": lambda pt, c, a, b: pt.Seq(pt.Assert(pt.Bytes("x")), pt.Approve()),
    # exits
    "return-without-value-in-main": lambda pt, c, a, b: pt.Return(),
    "return-bytes-in-main": lambda pt, c, a, b: pt.Return(pt.Bytes("x")),
    "program-with-a-bytes-value": lambda pt, c, a, b: pt.Bytes("x"),
    "program-without-a-value": lambda pt, c, a, b: pt.Seq(a, b),
    "empty-seq-program": lambda pt, c, a, b: pt.Seq(),
    "code-after-approve": lambda pt, c, a, b: pt.Seq(pt.Approve(), a, pt.Approve()),
    "value-return-in-none-sub": lambda pt, c, a, b: _sub_ret(pt, pt.TealType.none, pt.Return(pt.Int(1))),
    "bare-return-in-value-sub": lambda pt, c, a, b: _sub_ret(pt, pt.TealType.uint64, pt.Return()),
    "bytes-return-in-uint-sub": lambda pt, c, a, b: _sub_ret(pt, pt.TealType.uint64, pt.Return(pt.Bytes("x"))),
    "sub-body-not-an-expr": lambda pt, c, a, b: _sub_ret(pt, pt.TealType.uint64, 7),
    "sub-wrong-arity": lambda pt, c, a, b: _sub_arity(pt),
    "sub-keyword-argument": lambda pt, c, a, b: _sub_kw(pt),
    # scratch
    "load-never-stored": lambda pt, c, a, b: pt.Seq(pt.Pop(pt.ScratchVar(pt.TealType.uint64).load()), pt.Approve()),
    "store-wrong-type": lambda pt, c, a, b: pt.Seq(pt.ScratchVar(pt.TealType.uint64).store(pt.Bytes("x")), pt.Approve()),
    "slot-id-256": lambda pt, c, a, b: pt.Seq(pt.ScratchVar(pt.TealType.uint64, 256).store(pt.Int(1)), pt.Approve()),
    "slot-id-negative": lambda pt, c, a, b: pt.Seq(pt.ScratchVar(pt.TealType.uint64, -1).store(pt.Int(1)), pt.Approve()),
    "same-slot-id-twice": lambda pt, c, a, b: pt.Seq(pt.ScratchVar(pt.TealType.uint64, 5).store(pt.Int(1)), pt.ScratchVar(pt.TealType.uint64, 5).store(pt.Int(2)), pt.Approve()),
    # inner transactions / misc
    "itxn-array-field-with-scalar": lambda pt, c, a, b: pt.Seq(pt.InnerTxnBuilder.Begin(), pt.InnerTxnBuilder.SetField(pt.TxnField.accounts, pt.Bytes("x")), pt.Approve()),
    "itxn-scalar-field-with-list": lambda pt, c, a, b: pt.Seq(pt.InnerTxnBuilder.Begin(), pt.InnerTxnBuilder.SetField(pt.TxnField.amount, [pt.Int(1)]), pt.Approve()),
    "itxn-setfields-unknown-key": lambda pt, c, a, b: pt.Seq(pt.InnerTxnBuilder.Begin(), pt.InnerTxnBuilder.SetFields({"amount": pt.Int(1)}), pt.Approve()),
    "pragma-unsatisfied": lambda pt, c, a, b: pt.Seq(pt.Pragma(a, compiler_version="<0.1.0"), pt.Approve()),
    "pragma-garbage": lambda pt, c, a, b: pt.Seq(pt.Pragma(a, compiler_version="not a version"), pt.Approve()),
    "comment-not-a-string": lambda pt, c, a, b: pt.Seq(pt.Comment(5, a), pt.Approve()),
    "nonce-bad-base": lambda pt, c, a, b: pt.Nonce("base99", "00", pt.Approve()),
    "wide-ratio-empty": lambda pt, c, a, b: pt.Seq(pt.Pop(pt.WideRatio([], [pt.Int(1)])), pt.Approve()),
    "substring-end-before-start": lambda pt, c, a, b: pt.Seq(pt.Pop(pt.Substring(pt.Bytes("abc"), pt.Int(2), pt.Int(1))), pt.Approve()),
    "extract-huge-constant": lambda pt, c, a, b: pt.Seq(pt.Pop(pt.Extract(pt.Bytes("abc"), pt.Int(2 ** 40), pt.Int(1))), pt.Approve()),
    "int-as-expression": lambda pt, c, a, b: pt.Seq(pt.Pop(pt.Int(1) + 2), pt.Approve()),
    "python-bool-condition": lambda pt, c, a, b: pt.Seq(pt.If(True).Then(a), pt.Approve()),
    "none-in-seq": lambda pt, c, a, b: pt.Seq(a, None, pt.Approve()),
}


def _sub_with(pt, stmt, c):
    @pt.Subroutine(pt.TealType.none)
    def f():
        return stmt
    return pt.Seq(pt.While(c).Do(f()), pt.Approve())


def _sub_ret(pt, rt, body):
    @pt.Subroutine(rt)
    def f():
        return body
    call = f()
    return pt.Seq(call if rt == pt.TealType.none else pt.Pop(call), pt.Approve())


def _sub_arity(pt):
    @pt.Subroutine(pt.TealType.uint64)
    def f(a, b):
        return a + b
    return pt.Seq(pt.Pop(f(pt.Int(1))), pt.Approve())


def _sub_kw(pt):
    @pt.Subroutine(pt.TealType.uint64)
    def f(a):
        return a
    return pt.Seq(pt.Pop(f(a=pt.Int(1))), pt.Approve())


def jobs():
    return [(name, v, mode) for name in PROBES for (v, mode) in ((2, "Application"), (6, "Application"), (10, "Application"), (8, "Signature"))]


def case(job):
    name, version, mode = job
    from vf.core import use_repo
    use_repo()
    import pyteal as pt
    out = {"job": list(job), "outcome": None, "crash": None}
    own = (pt.TealInputError, pt.TealCompileError, pt.TealTypeError, pt.TealInternalError, pt.TealPragmaError)
    c = pt.Txn.fee() < pt.Int(10)
    x = pt.ScratchVar(pt.TealType.uint64)
    a, b = x.store(pt.Int(1)), pt.Pop(pt.Txn.fee())
    try:
        prog = PROBES[name](pt, c, a, b)
    except own as e:
        out["outcome"] = "refused-when-built:" + type(e).__name__
        return out
    except Exception as e:
        # the constructors refused with a plain Python error (wrong Python type of an argument, ...): no program, nothing to compile
        out["outcome"] = "no-program:" + type(e).__name__
        return out
    try:
        pt.compileTeal(prog, pt.Mode.Application if mode == "Application" else pt.Mode.Signature, version=version)
        out["outcome"] = "compiled"
    except own as e:
        out["outcome"] = type(e).__name__
    except RecursionError:
        out["outcome"] = "RecursionError"
    except Exception as e:
        import traceback
        tb = traceback.extract_tb(e.__traceback__)
        where = next((f"{f.filename.split('/pyteal/')[-1]}:{f.name}" for f in reversed(tb) if "/pyteal/" in f.filename), "?")
        out["crash"] = {"type": type(e).__name__, "where": where, "message": str(e)[:160]}
    return out
