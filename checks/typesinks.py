"""Bounded stand-in for the type-discipline clause of C05 on *rejected* inputs: every typed storage cell or typed parameter is fed
a value of the other stack type.  PyTeal must reject the program with one of its own errors, or - if it accepts - the emitted TEAL
must still apply no opcode to a value of a definitely wrong type (spec/tealcheck abstract interpretation incl. frame cells).

  sinks    : ScratchVar(uint64|bytes).store, abi.Uint64/Uint8/Bool/String/Address/DynamicBytes .set, abi output.set of an
             ABIReturnSubroutine, a typed ABI argument of a subroutine call, Return(value) of a typed subroutine, InnerTxn field, App.globalPut key
  position : the sink sits in the main routine | inside a subroutine (frame cells when frame pointers are on)
  settings : versions 6, 8, 10 x frame_pointers {default, off}
"""
import itertools

WRONG = {"uint64": ["pt.Bytes('abc')", "pt.Txn.sender()"], "bytes": ["pt.Int(7)", "pt.Int(2) * n"]}
# (name, type the sink wants, template: statements using `V` as the wrong-typed value, expression using the cell afterwards)
SINKS = [
    ("scratchvar-uint64", "uint64", "c = pt.ScratchVar(pt.TealType.uint64)", "c.store(V)", "c.load() + n"),
    ("scratchvar-bytes", "bytes", "c = pt.ScratchVar(pt.TealType.bytes)", "c.store(V)", "pt.Len(c.load())"),
    ("abi-uint64", "uint64", "c = abi.Uint64()", "c.set(V)", "c.get() + n"),
    ("abi-uint8", "uint64", "c = abi.Uint8()", "c.set(V)", "c.get() + n"),
    ("abi-bool", "uint64", "c = abi.Bool()", "c.set(V)", "c.get() + n"),
    ("abi-string", "bytes", "c = abi.String()", "c.set(V)", "c.length()"),
    ("abi-dynbytes", "bytes", "c = abi.DynamicBytes()", "c.set(V)", "c.length()"),
    ("abi-address", "bytes", "c = abi.Address()", "c.set(V)", "pt.Len(c.get())"),
]


def case(job):
    name, want, decl, store, use, wrong, in_sub, version, fp = job
    from vf.core import use_repo
    use_repo()
    import pyteal as pt
    from pyteal import abi
    from spec import tealcheck
    out = {"job": list(job), "problem": None, "accepted": False}
    body = f"{decl}\n    return pt.Seq({store.replace('V', wrong)}, {use})"
    if in_sub:
        src = f"@pt.Subroutine(pt.TealType.uint64)\ndef f(n):\n    {body}\nprog = pt.Seq(pt.Pop(f(pt.Int(3))), pt.Approve())\n"
    else:
        src = f"def g(n):\n    {body}\nprog = pt.Seq(pt.Pop(g(pt.Int(3))), pt.Approve())\n"
    ns = {"pt": pt, "abi": abi}
    try:
        exec(compile(src, "<typesink>", "exec", dont_inherit=True), ns)
        kw = {"optimize": pt.OptimizeOptions(frame_pointers=False)} if fp is False else {}
        teal = pt.compileTeal(ns["prog"], pt.Mode.Application, version=version, **kw)
    except (pt.TealTypeError, pt.TealInputError, pt.TealCompileError, pt.TealInternalError):
        return out
    except Exception as e:
        out["problem"] = f"exception {type(e).__name__}: {str(e)[:200]}"
        return out
    out["accepted"] = True
    pr = [p for p in tealcheck.validate(teal, version, "Application") if "applied to" in p]
    if pr:
        out["problem"] = f"accepted, and the emitted TEAL applies an opcode to a value of the wrong type: {pr[:2]}"
        out["teal"] = teal
    return out


def jobs(tier):
    out = []
    for (name, want, decl, store, use), in_sub, (version, fp) in itertools.product(SINKS, (False, True), ((6, None), (8, None), (8, False), (10, None), (10, False))):
        for wrong in WRONG[want]:
            out.append((name, want, decl, store, use, wrong, in_sub, version, fp))
    return out
