"""Bounded stand-in for the type-discipline clause of C05 on *rejected* inputs: every typed storage cell or typed parameter is fed
a value of the other stack type.  PyTeal must reject the program with one of its own errors, or - if it accepts - the emitted TEAL
must still apply no opcode to a value of a definitely wrong type (spec/tealcheck abstract interpretation incl. frame cells).

  sinks    : ScratchVar(uint64|bytes).store, abi.Uint64/Uint8/Bool/String/Address/DynamicBytes .set, abi output.set of an
             ABIReturnSubroutine, a typed ABI argument of a subroutine call, Return(value) of a typed subroutine, InnerTxn field, App.globalPut key
  position : the sink sits in the main routine | inside a subroutine (frame cells when frame pointers are on)
  settings : versions 6, 8, 10 x frame_pointers {default, off}
"""
import itertools

WRONG = {"uint64": ["pt.Bytes('abc')", "pt.Txn.sender()"], "bytes": ["pt.Int(7)", "pt.Int(2) * n"]}
# (name, type the sink wants, template: statements using `V` as the wrong-typed value, expression using the cell afterwards)
SINKS = [
    ("scratchvar-uint64", "uint64", "c = pt.ScratchVar(pt.TealType.uint64)", "c.store(V)", "c.load() + n"),
    ("scratchvar-bytes", "bytes", "c = pt.ScratchVar(pt.TealType.bytes)", "c.store(V)", "pt.Len(c.load())"),
    ("abi-uint64", "uint64", "c = abi.Uint64()", "c.set(V)", "c.get() + n"),
    ("abi-uint8", "uint64", "c = abi.Uint8()", "c.set(V)", "c.get() + n"),
    ("abi-bool", "uint64", "c = abi.Bool()", "c.set(V)", "c.get() + n"),
    ("abi-string", "bytes", "c = abi.String()", "c.set(V)", "c.length()"),
    ("abi-dynbytes", "bytes", "c = abi.DynamicBytes()", "c.set(V)", "c.length()"),
    ("abi-address", "bytes", "c = abi.Address()", "c.set(V)", "pt.Len(c.get())"),
]


def case(job):
    name, want, decl, store, use, wrong, in_sub, version, fp = job
    from vf.core import use_repo
    use_repo()
    import pyteal as pt
    from pyteal import abi
    from spec import tealcheck
    out = {"job": list(job), "problem": None, "accepted": False}
    body = f"{decl}\n    return pt.Seq({store.replace('V', wrong)}, {use})"
    if in_sub:
        src = f"@pt.Subroutine(pt.TealType.uint64)\ndef f(n):\n    {body}\nprog = pt.Seq(pt.Pop(f(pt.Int(3))), pt.Approve())\n"
    else:
        src = f"def g(n):\n    {body}\nprog = pt.Seq(pt.Pop(g(pt.Int(3))), pt.Approve())\n"
    ns = {"pt": pt, "abi": abi}
    try:
        exec(compile(src, "<typesink>", "exec", dont_inherit=True), ns)
        kw = {"optimize": pt.OptimizeOptions(frame_pointers=False)} if fp is False else {}
        teal = pt.compileTeal(ns["prog"], pt.Mode.Application, version=version, **kw)
    except (pt.TealTypeError, pt.TealInputError, pt.TealCompileError, pt.TealInternalError):
        return out
    except Exception as e:
        out["problem"] = f"exception {type(e).__name__}: {str(e)[:200]}"
        return out
    out["accepted"] = True
    pr = [p for p in tealcheck.validate(teal, version, "Application") if "applied to" in p]
    if pr:
        out["problem"] = f"accepted, and the emitted TEAL applies an opcode to a value of the wrong type: {pr[:2]}"
        out["teal"] = teal
    return out


def jobs(tier):
    out = []
    for (name, want, decl, store, use), in_sub, (version, fp) in itertools.product(SINKS, (False, True), ((6, None), (8, None), (8, False), (10, None), (10, False))):
        for wrong in WRONG[want]:
            out.append((name, want, decl, store, use, wrong, in_sub, version, fp))
    return out


# ---- every public expression constructor x every vector of stack types -------------------------------------------------------------
# For each callable exported by pyteal (and the static builders of App / Box / the *Param / *Holding families), every argument vector
# in {uint64 expression, bytes expression}^k, k <= 3 is tried.  Whatever PyTeal accepts and compiles must apply no opcode to a value
# of a definitely wrong type (the validator's op signatures are spec/langspec, independent of pyteal's own tables).
HOLDERS = ("App", "Box", "AssetHolding", "AssetParam", "AppParam", "AccountParam", "BytesAdd")
EXTRA_BUILDERS = {
    "While.Do": lambda pt, a: pt.While(a[0]).Do(pt.Seq(pt.Pop(a[1]))) if len(a) == 2 else None,
    "For.Do": lambda pt, a: pt.For(pt.Pop(a[0]), a[1], pt.Pop(a[2])).Do(pt.Seq()) if len(a) == 3 else None,
    "Cond": lambda pt, a: pt.Cond([a[0], a[1]], [pt.Int(1), a[2]]) if len(a) == 3 else None,
    "If.Then.ElseIf": lambda pt, a: pt.If(a[0]).Then(pt.Pop(a[1])).ElseIf(a[2]).Then(pt.Pop(pt.Int(1))) if len(a) == 3 else None,
    "Seq": lambda pt, a: pt.Seq(*a),
    "Assert-many": lambda pt, a: pt.Assert(*a),
    "Subroutine-return": lambda pt, a: _sub_return(pt, a),
    "InnerTxn.SetField": lambda pt, a: pt.Seq(pt.InnerTxnBuilder.Begin(), pt.InnerTxnBuilder.SetField(pt.TxnField.amount, a[0]),
                                               pt.InnerTxnBuilder.SetField(pt.TxnField.receiver, a[1])) if len(a) == 2 else None,
}


def _sub_return(pt, a):
    if len(a) != 2:
        return None

    @pt.Subroutine(pt.TealType.uint64)
    def s(x):
        return pt.Return(a[0])

    @pt.Subroutine(pt.TealType.bytes)
    def t(x):
        return pt.Return(a[1])
    return pt.Seq(pt.Pop(s(pt.Int(1))), pt.Pop(t(pt.Int(1))))


def ctor_names():
    from vf.core import use_repo
    use_repo()
    import pyteal as pt
    names = [n for n in pt.__all__ if callable(getattr(pt, n, None))]
    for h in HOLDERS:
        c = getattr(pt, h, None)
        if c is None:
            continue
        for m in sorted(vars(c)):
            if not m.startswith("_") and callable(getattr(c, m, None)):
                names.append(f"{h}.{m}")
    return sorted(set(names)) + sorted(EXTRA_BUILDERS)


def ctor_case(name):
    from vf.core import use_repo
    use_repo()
    import pyteal as pt
    from spec import tealcheck
    out = {"name": name, "tried": 0, "accepted": [], "problems": []}
    mk = {"U": lambda: pt.Int(1), "B": lambda: pt.Bytes("a")}
    if name in EXTRA_BUILDERS:
        f = lambda *a: EXTRA_BUILDERS[name](pt, a)
    else:
        f = pt
        for part in name.split("."):
            f = getattr(f, part)
    own = (pt.TealTypeError, pt.TealInputError, pt.TealCompileError, pt.TealInternalError)
    for k in (1, 2, 3):
        for vec in itertools.product("UB", repeat=k):
            out["tried"] += 1
            try:
                e = f(*[mk[c]() for c in vec])
                if not isinstance(e, pt.Expr):
                    continue
                t = e.type_of()
                prog = e if e.has_return() else (pt.Seq(e, pt.Approve()) if t == pt.TealType.none else pt.Seq(pt.Pop(e), pt.Approve()))
            except BaseException:
                continue   # not a constructor of this shape, or rejected
            for version in (10, 6):
                done = False
                for mode in (pt.Mode.Application, pt.Mode.Signature):
                    try:
                        teal = pt.compileTeal(prog, mode, version=version)
                    except own:
                        continue
                    except Exception as ex:
                        continue
                    out["accepted"].append(["".join(vec), mode.name, version])
                    pr = tealcheck.discipline(teal, version, mode.name)      # every stack / type clause, not only operand types
                    if pr:
                        out["problems"].append({"vector": "".join(vec), "mode": mode.name, "version": version, "what": pr[0], "teal": teal})
                    done = True
                    break
                if done:
                    break
    return out


# ---- routine bodies whose type disagrees with the routine's declaration --------------------------------------------------------------
BODIES = {"uint64": "pt.Int(1) + x", "bytes": "pt.Itob(x)", "none": "pt.Pop(x)"}
ROUTINES = [
    ("subroutine-uint64", "@pt.Subroutine(pt.TealType.uint64)\ndef f(x):\n    return BODY\n", "pt.Pop(f(pt.Int(3)))", "uint64"),
    ("subroutine-bytes", "@pt.Subroutine(pt.TealType.bytes)\ndef f(x):\n    return BODY\n", "pt.Pop(f(pt.Int(3)))", "bytes"),
    ("subroutine-none", "@pt.Subroutine(pt.TealType.none)\ndef f(x):\n    return BODY\n", "f(pt.Int(3))", "none"),
    ("abi-output", "@pt.ABIReturnSubroutine\ndef f(x: pt.Expr, *, output: abi.Uint64):\n    return BODY\n", "pt.Seq((r := abi.Uint64()).set(f(pt.Int(3))), pt.Pop(r.get()))", "none"),
    ("abi-output-set", "@pt.ABIReturnSubroutine\ndef f(x: pt.Expr, *, output: abi.Uint64):\n    return pt.Seq(output.set(x), BODY)\n", "pt.Seq((r := abi.Uint64()).set(f(pt.Int(3))), pt.Pop(r.get()))", "none"),
    ("abi-void", "@pt.ABIReturnSubroutine\ndef f(x: pt.Expr):\n    return BODY\n", "f(pt.Int(3))", "none"),
]


def body_jobs():
    return [(name, body, version, fp) for (name, _, _, want) in ROUTINES for body in BODIES if body != want
            for (version, fp) in ((6, None), (8, None), (8, False), (10, None))]


def body_case(job):
    name, body, version, fp = job
    from vf.core import use_repo
    use_repo()
    import pyteal as pt
    from pyteal import abi
    from spec import tealcheck
    out = {"job": list(job), "problem": None, "accepted": False}
    _, decl, call, _ = next(r for r in ROUTINES if r[0] == name)
    src = decl.replace("BODY", BODIES[body]) + f"prog = pt.Seq({call}, pt.Approve())\n"
    ns = {"pt": pt, "abi": abi}
    try:
        exec(compile(src, "<bodysink>", "exec", dont_inherit=True), ns)
        kw = {"optimize": pt.OptimizeOptions(frame_pointers=False)} if fp is False else {}
        teal = pt.compileTeal(ns["prog"], pt.Mode.Application, version=version, **kw)
    except (pt.TealTypeError, pt.TealInputError, pt.TealCompileError, pt.TealInternalError):
        return out
    except Exception as e:
        out["problem"] = f"exception {type(e).__name__}: {str(e)[:200]}"
        return out
    out["accepted"] = True
    pr = tealcheck.validate(teal, version, "Application")
    if pr:
        out["problem"] = f"a {name} routine whose body has type {body} is accepted, and the emitted TEAL breaks stack/type discipline: {pr[:2]}"
        out["teal"] = teal
    return out
