"""C20 Compilation is total: TEAL or a PyTeal error, never a crash."""
from __future__ import annotations

import itertools
import traceback
from concurrent.futures import ProcessPoolExecutor

from vf.core import Report, Bounded, Violation
from vf.runner import run_contracts
from . import e2e

LEVEL = "other"
PYTEAL_ERRORS = e2e.PYTEAL_ERRORS


# ---- exhaustive small scope of degenerate control-flow shapes ---------------------------------------------
def shapes(depth, in_loop):
    """statement shapes (program descriptions of spec.progsem) up to nesting `depth`."""
    base = [("pop", ("int", 1)), ("seq", [])]
    if in_loop:
        base += [("break",), ("continue",)]
    if depth == 0:
        return base
    sub = shapes(depth - 1, in_loop)
    subl = shapes(depth - 1, True)
    out = list(base)
    c = ("txn", "fee")
    for s in sub:
        out.append(("ifs", c, s, None))
    for a, b in itertools.product(sub[:4], sub[:4]):
        out.append(("ifs", c, a, b))
    sl = ("seqv", [("store", "x", ("int", 0))], ("load", "x"))  # a condition that stores then loads a variable
    for s in subl[:4]:
        out.append(("while", sl, s))
    for s in subl:
        out.append(("while", ("int", 0), s))
        out.append(("for", ("seq", []), ("int", 0), ("seq", []), s))
    for a, b in itertools.product(sub[:5], sub[:5]):
        out.append(("seq", [a, b]))
    for s in sub[:6]:
        out.append(("conds", [(c, s), (("int", 1), ("seq", []))]))
    return out


def shape_programs(tier):
    from spec.progsem import Prog
    d = 2
    sts = shapes(d, False)
    progs = []
    for s in sts:
        progs.append(("first", ("seq", [s, ("return", ("int", 1))])))
        progs.append(("after-pop", ("seq", [("pop", ("int", 7)), s, ("return", ("int", 1))])))
    if tier != "quick":
        for a, b in itertools.product(sts[:40], sts[:40]):
            progs.append(("pair", ("seq", [a, b, ("return", ("int", 1))])))
    return progs


def _compile_shape(job):
    tag, main, version, opt = job
    from vf.core import use_repo
    use_repo()
    import pyteal as pt
    from spec import progsem, avm
    from spec.progsem import Prog
    prog = Prog(main, {}, [("x", "u", None)], "Application")
    out = {"tag": tag, "version": version, "opt": opt, "crash": None, "error": None, "mismatch": None}
    try:
        e = progsem.build(prog)
        kw = {"optimize": pt.OptimizeOptions(scratch_slots=opt)} if opt is not None else {}
        teal = pt.compileTeal(e, pt.Mode.Application, version=version, **kw)
    except Exception as ex:
        name = type(ex).__name__
        if name in PYTEAL_ERRORS:
            out["error"] = name
            # the statement says a well-typed program within the target's constructs is accepted
            out["rejected"] = str(ex)[:200]
        else:
            tb = traceback.extract_tb(ex.__traceback__)
            where = next((f"{f.name}" for f in reversed(tb) if "/pyteal/" in f.filename), "?")
            out["crash"] = {"type": name, "where": where, "message": str(ex)[:120]}
        return out
    try:
        exp = progsem.den(prog, avm.Ctx(), version)
        got = avm.run(teal, avm.Ctx())
        if exp.observable() != got.observable():
            out["mismatch"] = f"expected {exp.observable()} got {got.observable()} ({got.detail})"
    except avm.Unsupported:
        pass
    return out


def _long_probe(job):
    kind, n, version = job
    from vf.core import use_repo
    use_repo()
    import pyteal as pt
    try:
        if kind == "straight":
            e = pt.Seq(*[pt.Pop(pt.Int(i % 7)) for i in range(n)], pt.Int(1))
        elif kind == "nested-if":
            e = pt.Int(1)
            for i in range(n):
                e = pt.If(pt.Int(1), e, pt.Int(0))
        else:
            e = pt.Int(1)
            for i in range(n):
                e = pt.Add(e, pt.Int(1))
        pt.compileTeal(e, pt.Mode.Application, version=version)
        return (kind, n, version, None)
    except Exception as ex:
        name = type(ex).__name__
        return (kind, n, version, None if name in PYTEAL_ERRORS else name)


def run(report: Report, tier, seed):
    report.trust("spec/progsem.py program descriptions (well-typed by construction)", "spec/avm.py")
    report.assume("no deductive obligations yet for this property: exception-freedom of NormalizeBlocks / addIncoming / validateTree is "
                  "explored by exhaustive small-scope enumeration of control-flow shapes (bounded stand-in), recursion depth is a resource bound")
    run_contracts(report, [("contracts.c01_flatten", "FlattenBlocks", "O20.2"), ("contracts.c01_sort", "SortBlocks", "O20.3")])
    from vf.core import use_repo
    use_repo()
    from . import ir_native
    nmax = 3 if tier == "quick" else 4
    fc, ff = ir_native.check_flatten(nmax)
    sc, sf = ir_native.check_sort(nmax)
    report.bounded.append(Bounded(function="flattenBlocks / sortBlocks on every small block graph", contract="no exception other than the documented TealInternalError; control reaches the graph successor",
                                  bound=f"all graphs of <= {nmax} blocks", cases=fc + sc, distinct_nontrivial=fc + sc, failures=len(ff) + len(sf)))

    def search(fn, obs):
        if "sort" in fn:
            return {"input": {"block_list": sf[0]}, "what": sf[0]["what"]} if sf else None
        return {"input": {"block_list": ff[0]}, "what": ff[0]["what"]} if ff else None
    report.settle_undecided(search)
    report.settle_refuted(search)
    for name, lst in (("flattenBlocks", ff), ("sortBlocks", sf)):
        if lst and not any(name in v.what for v in report.violations):
            report.violation(Violation(key=f"ir:{name}:{lst[0]['kinds']}:{lst[0]['succ']}", what=f"{name}: {lst[0]['what']}", replay={"kind": "ir", "input": lst[0]}, confirmed_native=True))
    from . import shared_objs
    sj = shared_objs.jobs(tier)
    with ProcessPoolExecutor(max_workers=16) as ex:
        sr = list(ex.map(shared_objs.case, sj, chunksize=8))
    sbad = [r for r in sr if r["crash"]]
    report.bounded.append(Bounded(function="compileTeal on programs that use one Expr object at several places", contract="TEAL or a PyTeal error, never another exception",
                                  bound=f"{len(shared_objs.TEMPLATES)} sharing templates x {len(shared_objs.STMTS)} statements x versions x slot optimiser on/off, each with a shared object and with separately built equal objects",
                                  cases=sum(r["ran"] for r in sr), distinct_nontrivial=len(sj), failures=len(sbad)))
    for b in sbad[:2]:
        report.violation(Violation(key=f"shared:{b['job'][0]}:{b['job'][1]}", what=f"sharing template {b['job']}: {b['crash']}"[:300], replay={"kind": "shared", "job": b["job"]}, confirmed_native=True))
    progs = shape_programs(tier)
    versions = [2, 4, 6, 8, 9, 10] if tier == "quick" else list(range(2, 11))
    jobs = []
    for i, (tag, main) in enumerate(progs):
        for v in ([versions[i % len(versions)], 9] if tier == "quick" else versions):
            if v < 4 and _uses_loop(main):
                continue
            jobs.append((tag, main, v, None))
            if v >= 9:
                jobs.append((tag, main, v, False))
    with ProcessPoolExecutor(max_workers=16) as ex:
        res = list(ex.map(_compile_shape, jobs, chunksize=32))
    crashes = [(j, r) for j, r in zip(jobs, res) if r["crash"]]
    rejected = [(j, r) for j, r in zip(jobs, res) if r["error"]]
    mism = [(j, r) for j, r in zip(jobs, res) if r["mismatch"]]
    report.bounded.append(Bounded(
        function="pyteal.compileTeal on every degenerate control-flow shape",
        contract="returns TEAL or raises a PyTeal error type; well-typed programs are accepted; accepted programs behave as described",
        bound=f"all statement shapes of nesting depth <= 2 over pop / empty Seq / If / If-Else / While / For / Cond / Break / Continue, as first statement and after a statement ({len(progs)} programs) x versions {versions} x optimiser default/off",
        cases=len(jobs), distinct_nontrivial=len({repr(j[1]) for j in jobs}), failures=len(crashes) + len(rejected) + len(mism)))
    report.sample({"shape_program": repr(progs[7][1])[:300]})
    # random programs
    specs = [{"seed": seed * 100003 + 31000 + i, "version": [2, 3, 4, 5, 6, 7, 8, 9, 10][i % 9], "mode": "Application" if i % 4 else "Signature",
              "size": 3, "options": [{}, {"scratch_slots": True}] if i % 2 else [{}]} for i in range(64 if tier == "quick" else 800)]
    sw = e2e.sweep(specs)
    rc = [(s, c) for s, r in zip(specs, sw) for c in r["crashes"]]
    report.bounded.append(Bounded(function="pyteal.compileTeal on generated programs", contract="no non-PyTeal exception",
                                  bound=f"{len(specs)} generated programs (seed {seed})", cases=len(specs),
                                  distinct_nontrivial=len({r['key'] for r in sw if r['key']}), failures=len(rc)))
    # constants: template values next to literals, with and without assembled constants (the constant assembler compares and sorts values)
    from . import c12 as _c12
    tj = _c12.template_jobs(tier)
    with ProcessPoolExecutor(max_workers=16) as ex:
        tr = list(ex.map(_c12.template_case, tj, chunksize=4))
    tcr = [r for r in tr if any(p.startswith("exception ") and p.split()[1].rstrip(":") not in e2e.PYTEAL_ERRORS for p in r["problems"])]
    report.bounded.append(Bounded(function="pyteal.compileTeal(assembleConstants=True/False) with template constants next to literals", contract="no non-PyTeal exception",
                                  bound=f"{len(tj)} (number of literals, template frequency, literal frequency, version) settings", cases=len(tr), distinct_nontrivial=len(tr), failures=len(tcr)))
    for b in tcr[:1]:
        p0 = next(p for p in b["problems"] if p.startswith("exception "))
        report.violation(Violation(key=f"crash:{p0.split()[1].rstrip(':')}:template-constants", what=f"template constants {b['job']}: {p0}"[:300], replay={"kind": "template", "job": b["job"]}, confirmed_native=True))
    # full slot occupancy (the slot allocator's search for a vacant id)
    from . import c10 as _c10
    oj = _c10.occupancy_jobs(tier)
    with ProcessPoolExecutor(max_workers=16) as ex:
        orr = list(ex.map(_c10.occupancy_case, oj, chunksize=2))
    ocr = [r for r in orr if r["crash"]]
    report.bounded.append(Bounded(function="pyteal.compileTeal at full slot occupancy (requested + automatic slots around 256)", contract="TEAL or a PyTeal error, no other exception",
                                  bound=f"{len(_c10.OCCUPANCY)} splits x versions / optimiser", cases=len(orr), distinct_nontrivial=len(_c10.OCCUPANCY), failures=len(ocr)))
    for b in ocr[:1]:
        report.violation(Violation(key=f"crash:{b['crash']['type']}:slot-occupancy", what=f"{b['job'][0]} requested + {b['job'][1]} automatic slots at v{b['job'][2]}: {b['crash']['type']}: {b['crash']['message']}"[:300],
                                   replay={"kind": "occupancy", "job": b["job"]}, confirmed_native=True))
    # misused builders / ill-formed programs
    from . import misuse
    mj = misuse.jobs()
    with ProcessPoolExecutor(max_workers=16) as ex:
        mr = list(ex.map(misuse.case, mj, chunksize=8))
    mcr = [r for r in mr if r["crash"]]
    report.bounded.append(Bounded(function="pyteal.compileTeal on programs built by misusing the control-flow builders / with ill-formed parts", contract="TEAL or a PyTeal error, no other exception (a constructor refusing its arguments produced no program)",
                                  bound=f"{len(misuse.PROBES)} misuse probes (incomplete / repeated / mis-ordered If, While, For builders, exits and loop exits out of place, ill-typed parts, slot ids, inner-transaction fields, pragma) x versions 2, 6, 10 and LogicSig mode",
                                  cases=len(mr), distinct_nontrivial=len(misuse.PROBES), failures=len(mcr)))
    mseen = set()
    for b in mcr:
        key = f"crash:{b['crash']['type']}:misuse:{b['job'][0]}"
        if key in mseen:
            continue
        mseen.add(key)
        if len(mseen) > 3:
            break
        report.violation(Violation(key=key, what=f"misuse probe {b['job']}: {b['crash']['type']} in {b['crash']['where']}: {b['crash']['message']}"[:300], replay={"kind": "misuse", "job": b["job"]}, confirmed_native=True))
    # recursion spill pass at every version with subroutines (v4 restores with dig, later versions with uncover)
    from . import recspill
    rj = recspill.jobs(tier)
    with ProcessPoolExecutor(max_workers=16) as ex:
        rsr = list(ex.map(recspill.case, rj, chunksize=2))
    rcr = [r for r in rsr if r["crash"]]
    rpb = [r for r in rsr if r["problems"]]
    report.bounded.append(Bounded(function="pyteal.compileTeal on recursive routines of every arity (compiler/subroutines.py spillLocalSlotsDuringRecursion)",
                                  contract="TEAL or a PyTeal error, no other exception; an accepted program computes the recurrence it describes",
                                  bound=f"arity {recspill.ARITIES} x result uint64/none x 0..2 live locals x self/mutual recursion x versions 4..10 x default / scratch_slots / no frame pointers, depths {recspill.DEPTHS}",
                                  cases=sum(r["ran"] for r in rsr), distinct_nontrivial=len(rj), failures=len(rcr) + len(rpb)))
    for b in rcr[:1]:
        c = b["crash"]
        report.violation(Violation(key=f"crash:{c['type']}:recursion-spill", what=f"recursive routine {b['job']} (arity, result, locals, mutual) at v{c['version']} {c['setting']}: {c['type']} in {c['where']}: {c['message']}"[:300],
                                   replay={"kind": "recspill", "job": b["job"]}, confirmed_native=True))
    for b in rpb[:1]:
        p0 = b["problems"][0]
        report.violation(Violation(key=f"behaviour:recursion-spill:{b['job']}", what=f"recursive routine {b['job']} (arity, result, locals, mutual) at v{p0['version']} {p0['setting']}: {p0['what']}"[:300],
                                   replay={"kind": "recspill", "job": b["job"]}, confirmed_native=True))
    # long programs (resource bound)
    probes = [(k, n, 6) for k in ("straight", "nested-if", "nested-add") for n in ([100, 200, 400, 800] if tier == "quick" else [100, 200, 400, 800, 1600, 3200])]
    with ProcessPoolExecutor(max_workers=8) as ex:
        pr = list(ex.map(_long_probe, probes))
    report.bounded.append(Bounded(function="pyteal.compileTeal on long / deeply nested programs", contract="no non-PyTeal exception",
                                  bound="straight-line, nested If, nested Add of 100..800 (quick) / ..3200 (thorough) nodes",
                                  cases=len(probes), distinct_nontrivial=len(probes), failures=sum(1 for p in pr if p[3])))
    report.extra["explanation"] = ("P: exception-freedom of flattenBlocks under wf_blocks (pyvc); B: exhaustive small scope of control-flow shapes and "
                                   "block graphs, generated programs, size probes")
    # ---- violations ------------------------------------------------------------------------------------
    seen = set()
    for j, r in crashes:
        c = r["crash"]
        key = f"crash:{c['type']}:{c['where']}"
        if key in seen:
            continue
        seen.add(key)
        report.violation(Violation(key=key, what=f"compileTeal dies with {c['type']} in {c['where']} on {repr(j[1])[:200]} (v{j[2]})",
                                   replay={"kind": "shape", "main": j[1], "version": j[2], "opt": j[3], "crash": c}, confirmed_native=True))
    for j, r in rejected[:3]:
        key = f"rejected:{r['error']}"
        if key in seen:
            continue
        seen.add(key)
        report.violation(Violation(key=key, what=f"well-typed program rejected with {r['error']}: {r.get('rejected')} on {repr(j[1])[:200]} (v{j[2]})",
                                   replay={"kind": "shape", "main": j[1], "version": j[2], "opt": j[3]}, confirmed_native=True))
    for j, r in mism[:3]:
        report.violation(Violation(key=f"behaviour:{repr(j[1])[:80]}", what=f"degenerate shape compiles to different behaviour: {r['mismatch'][:200]}",
                                   replay={"kind": "shape", "main": j[1], "version": j[2], "opt": j[3]}, confirmed_native=True))
    for s, c in rc:
        key = f"crash:{c.get('error')}:generated"
        if key in seen or f"crash:{c.get('error')}" in "".join(seen):
            continue
        seen.add(key)
        report.violation(Violation(key=key, what=f"compileTeal dies with {c.get('error')} on generated program seed {s['seed']} v{s['version']}",
                                   replay={"kind": "generated", "spec": s, "crash": c}, confirmed_native=True))
    for kind, n, v, err in pr:
        if err:
            key = f"resource:{err}:{kind}"
            if key in seen:
                continue
            seen.add(key)
            report.violation(Violation(key=key, what=f"compileTeal dies with {err} on a {kind} program of {n} nodes (smallest failing probe)",
                                       replay={"kind": "probe", "probe": [kind, n, v]}, confirmed_native=True))


def _uses_loop(t):
    if isinstance(t, tuple):
        if t and t[0] in ("while", "for"):
            return True
        return any(_uses_loop(x) for x in t)
    if isinstance(t, list):
        return any(_uses_loop(x) for x in t)
    return False


def replay(data):
    r = data["replay"]
    if r.get("kind") == "ir" or "refuted" in r:
        from . import ir_native
        from vf.core import use_repo
        use_repo()
        c, f = ir_native.check_flatten(3)
        print(f[:1])
        return 1 if f else 0
    if r["kind"] == "occupancy":
        from . import c10 as _c10
        out = _c10.occupancy_case(tuple(r["job"]))
        print(out)
        return 1 if out["crash"] else 0
    if r["kind"] == "misuse":
        from . import misuse
        out = misuse.case(tuple(r["job"]))
        print(out)
        return 1 if out["crash"] else 0
    if r["kind"] == "template":
        from . import c12 as _c12
        out = _c12.template_case(tuple(r["job"]))
        print(out["problems"][:2])
        return 1 if any(p.startswith("exception ") for p in out["problems"]) else 0
    if r["kind"] == "recspill":
        from . import recspill
        out = recspill.case(tuple(r["job"]))
        print({k: v for k, v in out.items() if k != "problems"}, [p["what"] for p in out["problems"][:2]])
        return 1 if (out["crash"] or out["problems"]) else 0
    if r["kind"] == "shared":
        from . import shared_objs
        out = shared_objs.case(tuple(r["job"]))
        print(out)
        return 1 if out["crash"] else 0
    if r["kind"] == "shape":
        out = _compile_shape(("replay", _tuplify(r["main"]), r["version"], r["opt"]))
        print(out)
        return 1 if (out["crash"] or out["error"] or out["mismatch"]) else 0
    if r["kind"] == "probe":
        out = _long_probe(tuple(r["probe"]))
        print(out)
        return 1 if out[3] else 0
    out = e2e.one_case(r["spec"])
    print(out["crashes"])
    return 1 if out["crashes"] else 0


def _tuplify(x):
    if isinstance(x, list):
        # JSON turned tuples into lists: statements/expressions are tuples whose first item is a tag string
        if x and isinstance(x[0], str) and x[0] in ("seq", "pop", "int", "ifs", "while", "for", "conds", "break", "continue", "return", "txn", "store", "load", "seqv"):
            y = [_tuplify(e) for e in x]
            if x[0] in ("seq",):
                return ("seq", [_tuplify(e) for e in x[1]])
            if x[0] == "seqv":
                return ("seqv", [_tuplify(e) for e in x[1]], _tuplify(x[2]))
            if x[0] == "conds":
                return ("conds", [(_tuplify(c), _tuplify(s)) for c, s in x[1]])
            return tuple(y)
        return [_tuplify(e) for e in x]
    return x
