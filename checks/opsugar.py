"""E obligation for C01: the Python operators overloaded on Expr (a - b, a / b, a ** b, ~a, a << b, a.And(b), ...) build the expression
they are documented to build.  Decided by running the real overloads: each operator is applied to two transaction reads, the program
is compiled and executed on the spec AVM for asymmetric operand pairs, and compared with the operator's meaning on uint64 written out here."""

U64 = 2 ** 64
PAIRS = [(7, 3), (3, 7), (0, 5), (5, 0), (1, 1), (2, 63), (63, 2), (2 ** 32, 2 ** 32), (2 ** 64 - 1, 1), (1, 2 ** 64 - 1), (64, 64), (3, 40)]


def _chk(v):
    return None if (v is None or v < 0 or v >= U64) else v


MEANING = {
    "<": lambda a, b: int(a < b), ">": lambda a, b: int(a > b), "<=": lambda a, b: int(a <= b), ">=": lambda a, b: int(a >= b),
    "==": lambda a, b: int(a == b), "!=": lambda a, b: int(a != b),
    "+": lambda a, b: _chk(a + b), "-": lambda a, b: _chk(a - b), "*": lambda a, b: _chk(a * b),
    "/": lambda a, b: None if b == 0 else a // b, "%": lambda a, b: None if b == 0 else a % b,
    "**": lambda a, b: None if (a == 0 and b == 0) else _chk(a ** b if b < 200 else (0 if a == 0 else (1 if a == 1 else U64))),
    "~": lambda a, b: (U64 - 1) ^ a, "&": lambda a, b: a & b, "|": lambda a, b: a | b, "^": lambda a, b: a ^ b,
    "<<": lambda a, b: None if b >= 64 else (a << b) % U64, ">>": lambda a, b: None if b >= 64 else a >> b,
    ".And": lambda a, b: int(bool(a) and bool(b)), ".Or": lambda a, b: int(bool(a) or bool(b)),
}
BUILD = {
    "<": lambda x, y: x < y, ">": lambda x, y: x > y, "<=": lambda x, y: x <= y, ">=": lambda x, y: x >= y, "==": lambda x, y: x == y, "!=": lambda x, y: x != y,
    "+": lambda x, y: x + y, "-": lambda x, y: x - y, "*": lambda x, y: x * y, "/": lambda x, y: x / y, "%": lambda x, y: x % y, "**": lambda x, y: x ** y,
    "~": lambda x, y: ~x, "&": lambda x, y: x & y, "|": lambda x, y: x | y, "^": lambda x, y: x ^ y, "<<": lambda x, y: x << y, ">>": lambda x, y: x >> y,
    ".And": lambda x, y: x.And(y), ".Or": lambda x, y: x.Or(y),
}


def check():
    """-> (number of (operator, operand pair) cases, list of problems)"""
    from vf.core import use_repo
    use_repo()
    import pyteal as pt
    from spec import avm
    bad, n = [], 0
    for op, mk in BUILD.items():
        try:
            e = mk(pt.Btoi(pt.Txn.application_args[0]), pt.Btoi(pt.Txn.application_args[1]))
            teal = pt.compileTeal(pt.Seq(pt.Log(pt.Itob(e)), pt.Approve()), pt.Mode.Application, version=6)
        except Exception as ex:
            bad.append({"operator": op, "what": f"building / compiling raised {type(ex).__name__}: {str(ex)[:100]}"})
            continue
        for a, b in PAIRS:
            n += 1
            want = MEANING[op](a, b)
            r = avm.run(teal, avm.Ctx(txn={"ApplicationArgs": [a.to_bytes(8, "big"), b.to_bytes(8, "big")]}))
            got = int.from_bytes(r.logs[0], "big") if r.verdict == "approve" and len(r.logs) == 1 else None
            if got != want:
                bad.append({"operator": op, "operands": [a, b], "what": f"x {op} y with x = {a}, y = {b} gives {got if got is not None else r.verdict + ' ' + r.detail}, the operator means {want if want is not None else 'failure'}"})
                break
    return n, bad
