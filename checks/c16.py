"""C16 WideRatio is exact or fails, never wraps."""
from __future__ import annotations

import itertools
import random

from vf.core import Report, Bounded, Violation, Ob
from vf.runner import run_contracts

LEVEL = "proof"

U64, U128 = 2 ** 64, 2 ** 128
BOUNDARY = [0, 1, 2, 3, 2 ** 32 - 1, 2 ** 32, 2 ** 32 + 1, 2 ** 63, 2 ** 64 - 1, 2 ** 64 - 2, 2 ** 21, 10 ** 9 + 7]


def oracle(nums, dens):
    """Property statement, literally.  A factor may itself be a ratio ("ratio", nums, dens): it is an ordinary uint64 expression that
    is evaluated first (and whose failure is the program's failure)."""
    def val(f):
        if isinstance(f, (tuple, list)) and f and f[0] == "ratio":
            r = oracle(f[1], f[2])
            return None if r[0] != "approve" else r[1]
        return f

    def running(fs):
        p = 1
        for f in fs:
            f = val(f)
            if f is None:
                return "inner-fail"
            p *= f
            if p >= U128:
                return None
        return p
    n, d = running(nums), running(dens)
    if n == "inner-fail" or d == "inner-fail":
        return ("fail",)
    if n is None or d is None or d == 0:
        return ("fail",)
    q = n // d
    if q >= U64:
        return ("fail",)
    return ("approve", q)


def run_real(nums, dens, version):
    import pyteal as pt
    from spec import avm
    def ex(f):
        if isinstance(f, (tuple, list)) and f and f[0] == "ratio":
            return pt.WideRatio([ex(x) for x in f[1]], [ex(x) for x in f[2]])
        return pt.Int(f)
    try:
        prog = pt.Seq(pt.Log(pt.Itob(pt.WideRatio([ex(x) for x in nums], [ex(x) for x in dens]))), pt.Approve())
        teal = pt.compileTeal(prog, pt.Mode.Application, version=version)
    except (pt.TealInputError, pt.TealInternalError, pt.TealTypeError, pt.TealCompileError) as e:
        # a factor list inside the property's domain (not both singletons, 1..6 factors each) must be accepted
        return ("rejected-when-built", f"{type(e).__name__}: {str(e)[:120]}"), ""
    r = avm.run(teal, avm.Ctx())
    if r.verdict == "approve":
        return ("approve", int.from_bytes(r.logs[0], "big")), teal
    return (r.verdict,), teal


def gen_cases(tier, seed):
    rnd = random.Random(seed)
    cases = []
    maxlen = 3 if tier == "quick" else 5
    for ln in range(1, maxlen + 1):
        for ld in range(1, maxlen + 1):
            if ln == 1 and ld == 1:
                continue
            reps = 12 if tier == "quick" else 60
            for _ in range(reps):
                nums = [rnd.choice(BOUNDARY) if rnd.random() < 0.7 else rnd.randrange(U64) for _ in range(ln)]
                dens = [rnd.choice(BOUNDARY[1:]) if rnd.random() < 0.8 else rnd.randrange(U64) for _ in range(ld)]
                cases.append((nums, dens))
    # near-overflow products
    cases += [([2 ** 64 - 1, 2 ** 64 - 1], [1, 1]), ([2 ** 64 - 1, 2 ** 64 - 1, 2], [2 ** 64 - 1, 4]),
              ([2 ** 64 - 1, 2 ** 64 - 1, 1], [2 ** 64 - 1, 2 ** 64 - 1]), ([2 ** 63, 2 ** 63, 4, 0], [1, 1]),
              ([2 ** 63, 4, 2 ** 63], [2 ** 63, 2 ** 63, 4]), ([5], [0, 3]), ([7, 9], [2]), ([2 ** 64 - 1], [1, 1])]
    # a WideRatio used as a factor of another one: an ordinary uint64 sub-expression (inexact / overflowing / failing inner ratios)
    R = lambda n, d: ("ratio", n, d)
    cases += [([R([7, 1], [2]), 2], [1]), ([R([2 ** 63, 4], [1]), 1], [8]), ([R([2 ** 63, 2], [1]), 2 ** 63, 4], [2 ** 63, 8]), ([3, R([9, 1], [4])], [R([5, 5], [2])]),
              ([10], [R([1, 1], [3]), 5]), ([R([R([100, 3], [7]), 5], [3]), 2], [3]), ([2 ** 64 - 1, 2], [R([2 ** 64 - 1, 2], [1])]), ([R([5, 1], [0]), 1], [1])]
    for _ in range(10 if tier == "quick" else 80):
        inner = R([rnd.choice(BOUNDARY) for _ in range(2)], [rnd.choice(BOUNDARY[1:]) for _ in range(rnd.randrange(1, 3))])
        nums = [rnd.choice(BOUNDARY)] + [inner]
        rnd.shuffle(nums)
        cases.append((nums, [rnd.choice(BOUNDARY[1:]) for _ in range(rnd.randrange(1, 3))]))
    return cases


def bounded(report: Report, tier, seed, want_first_failure=False):
    cases = gen_cases(tier, seed)
    seen, fails = set(), []
    versions = [5, 6, 8, 10] if tier != "quick" else [5, 10]
    n = 0
    for i, (nums, dens) in enumerate(cases):
        v = versions[i % len(versions)]
        key = (repr(nums), repr(dens), v)
        if key in seen:
            continue
        seen.add(key)
        exp = oracle(nums, dens)
        got, teal = run_real(nums, dens, v)
        n += 1
        if got != exp:
            fails.append({"input": {"numerators": nums, "denominators": dens, "version": v}, "expected": exp, "got": got,
                          "teal": teal})
            if want_first_failure:
                break
    report.bounded.append(Bounded(function="pyteal.compileTeal(WideRatio(...)) on spec AVM",
                                  contract="outcome == floor(prod N / prod D) or fail per property statement",
                                  bound=f"1..{3 if tier == 'quick' else 5} factors each side, boundary-biased uint64 values, seed {seed}",
                                  cases=n, distinct_nontrivial=len(seen), failures=len(fails)))
    return fails


def run(report: Report, tier, seed):
    report.trust("spec/symavm.py (symbolic AVM: mulw, *, +, cover, uncover, dig, swap, divmodw, pop, !, assert over mathematical integers)",
                 "spec/avm.py (concrete AVM interpreter, used for replay and the bounded stand-in)",
                 "pyvc encoding of the Python subset (DESIGN.md 1.2)", "z3 5.1 / cvc5 1.0.3")
    report.assume("Interface contract of Expr.__teal__ for the factor expressions: an opaque uint64-typed child either "
                  "evaluates normally (new world, one value in [0,2^64)) or ends abnormally; it does not touch the stack below its entry",
                  "A1 L-frag: composing fragment contracts gives the whole-expression semantics (DESIGN.md section 3)",
                  "WideRatio does not type-check its factors; the contract assumes uint64-typed factors (a bytes factor fails at run time, which the property allows)",
                  "source-map bookkeeping (NatalStackFrame) is abstracted: not read by the semantics")
    run_contracts(report, [("contracts.c16_widemath", "MultiplyFactors", "O16.1"),
                           ("contracts.c16_widemath", "WideRatioTeal", "O16.2"),
                           ("contracts.c16_widemath", "WideRatioInit", "O16.3")])
    fails = bounded(report, tier, seed)
    report.sample({"bounded_case": {"numerators": [2 ** 64 - 1, 2 ** 64 - 1, 2], "denominators": [2 ** 64 - 1, 4]},
                   "oracle": oracle([2 ** 64 - 1, 2 ** 64 - 1, 2], [2 ** 64 - 1, 4])})

    def search(fn, obs):
        return fails[0] if fails else None

    report.settle_undecided(search)
    report.settle_refuted(search)
    if fails and not any(o.status == "refuted" for o in report.obs):
        f = fails[0]
        report.violation(Violation(key=f"bounded:{f['input']}", what=f"WideRatio{f['input']} expected {f['expected']} got {f['got']}",
                                   replay=f, confirmed_native=True))


def replay(data):
    r = data.get("replay") or {}
    nat = r.get("native") or r
    inp = nat.get("input")
    if not inp:
        print("no concrete input in replay file; obligations:", [x["id"] for x in r.get("refuted", [])])
        return 1
    got, teal = run_real(inp["numerators"], inp["denominators"], inp["version"])
    exp = oracle(inp["numerators"], inp["denominators"])
    print("input", inp, "expected", exp, "got", got)
    return 0 if got == exp else 1
