"""Bounded stand-in: ABIReturnSubroutine / Subroutine calls with mixed parameter kinds (Expr by value, ScratchVar by
reference, ABI values, ABI output), in both calling conventions; result compared with a Python evaluation."""
import random
import traceback


def case(job):
    seed, version, opts = job
    from vf.core import use_repo
    use_repo()
    import pyteal as pt
    from pyteal import abi
    from spec import avm, tealcheck
    r = random.Random(seed)
    out = {"seed": seed, "version": version, "opts": opts, "problems": [], "ran": 0}
    try:
        nparams = r.randrange(0, 5)
        kinds = [r.choice(["expr", "ref", "abi_u64", "abi_str", "abi_tuple", "abi_named"]) for _ in range(nparams)]
        has_out = r.random() < 0.7
        recursive = r.random() < 0.3 and "ref" not in kinds
        ns = {"pt": pt, "abi": abi}
        exec(compile("class NT(abi.NamedTuple):\n    a: abi.Field[abi.Uint8]\n    b: abi.Field[abi.String]\n", "<abisub-nt>", "exec", dont_inherit=True), ns)
        sig, stmts = [], []
        # python-side model of what the routine does: acc = sum of numeric params; each ref var += 10*(position+1)
        for i, k in enumerate(kinds):
            if k == "expr":
                sig.append(f"p{i}: pt.Expr")
            elif k == "ref":
                sig.append(f"p{i}: pt.ScratchVar")
            elif k == "abi_u64":
                sig.append(f"p{i}: abi.Uint64")
            elif k == "abi_str":
                sig.append(f"p{i}: abi.String")
            elif k == "abi_named":
                sig.append(f"p{i}: NT")
            else:
                sig.append(f"p{i}: abi.Tuple2[abi.Uint8, abi.String]")
        acc_terms = ["pt.Int(1)"]
        for i, k in enumerate(kinds):
            if k == "expr":
                acc_terms.append(f"p{i}")
            elif k == "ref":
                stmts.append(f"p{i}.store(p{i}.load() + pt.Int({10 * (i + 1)}))")
                acc_terms.append(f"p{i}.load()")
            elif k == "abi_u64":
                acc_terms.append(f"p{i}.get()")
            elif k == "abi_str":
                acc_terms.append(f"pt.Len(p{i}.get())")
            else:
                acc_terms.append(f"pt.Len(p{i}.encode())")
        acc = "pt.Add(" + ", ".join(acc_terms) + ")" if len(acc_terms) > 1 else acc_terms[0]
        # the routine's own temporary: a ScratchVar, or ABI values created inside the body (frame cells under frame pointers)
        if r.random() < 0.5:
            local, put, get = "tmp = pt.ScratchVar(pt.TealType.uint64)", (lambda e: f"tmp.store({e})"), "tmp.load()"
        else:
            local = "tmp = abi.Uint64()\n    tmp2 = abi.Uint64()"
            put, get = (lambda e: f"tmp2.set({e}), tmp.set(tmp2.get())"), "tmp.get()"
        if has_out:
            sig.append("*, output: abi.Uint64")
            body = f"    {local}\n    return pt.Seq({', '.join(stmts + [put(acc), f'output.set({get})'])})\n"
        else:
            body = f"    {local}\n    return pt.Seq({', '.join(stmts + [put(acc), f'pt.Log(pt.Itob({get}))'])})\n"
        src = f"def sub({', '.join(sig)}):\n{body}"
        exec(compile(src, "<abisub>", "exec", dont_inherit=True), ns)
        fn = pt.ABIReturnSubroutine(ns["sub"])
        # caller
        pre, args, expect_acc = [], [], 1
        refvars = []
        for i, k in enumerate(kinds):
            if k == "expr":
                v = r.randrange(0, 50)
                args.append(pt.Int(v))
                expect_acc += v
            elif k == "ref":
                v = r.randrange(0, 50)
                sv = pt.ScratchVar(pt.TealType.uint64)
                pre.append(sv.store(pt.Int(v)))
                args.append(sv)
                refvars.append((sv, v + 10 * (i + 1)))
                expect_acc += v + 10 * (i + 1)
            elif k == "abi_u64":
                v = r.randrange(0, 50)
                x = abi.Uint64()
                pre.append(x.set(v))
                args.append(x)
                expect_acc += v
            elif k == "abi_named":
                s = "z" * r.randrange(0, 5)
                a, b = abi.Uint8(), abi.String()
                t = ns["NT"]()
                pre += [a.set(9), b.set(s), t.set(a, b)]
                args.append(t)
                expect_acc += 1 + 2 + 2 + len(s)
            elif k == "abi_str":
                s = "x" * r.randrange(0, 9)
                x = abi.String()
                pre.append(x.set(s))
                args.append(x)
                expect_acc += len(s)
            else:
                s = "y" * r.randrange(0, 5)
                a, b = abi.Uint8(), abi.String()
                t = abi.make(abi.Tuple2[abi.Uint8, abi.String])
                pre += [a.set(7), b.set(s), t.set(a, b)]
                args.append(t)
                expect_acc += 1 + 2 + 2 + len(s)
        logs_expected = []
        if has_out:
            res = abi.Uint64()
            call = [fn(*args).store_into(res), pt.Log(pt.Itob(res.get()))]
        else:
            call = [fn(*args)]
        logs_expected.append(expect_acc.to_bytes(8, "big"))
        tail = []
        for sv, val in refvars:
            tail.append(pt.Log(pt.Itob(sv.load())))
            logs_expected.append(val.to_bytes(8, "big"))
        prog = pt.Seq(*pre, *call, *tail, pt.Approve())
        kw = {"optimize": pt.OptimizeOptions(**opts)} if opts else {}
        teal = pt.compileTeal(prog, pt.Mode.Application, version=version, **kw)
        pr = tealcheck.validate(teal, version, "Application")
        if pr:
            out["problems"].append(f"{src.splitlines()[0]}: illegal / ill-disciplined TEAL: {pr[0]}")
            out["teal"] = teal
        resr = avm.run(teal, avm.Ctx())
        out["ran"] += 1
        if resr.verdict != "approve" or resr.logs != logs_expected:
            out["problems"].append(f"{src.splitlines()[0]}: expected logs {[l.hex() for l in logs_expected]} got {resr.verdict} {[l.hex() for l in resr.logs]} {resr.detail}")
            out["teal"] = teal
    except Exception as e:
        if isinstance(e, avm.Unsupported):
            out["skipped"] = str(e)
        else:
            out["problems"].append(f"exception {type(e).__name__}: {str(e)[:300]}")
            out["trace"] = traceback.format_exc()[-800:]
    return out


def jobs(tier, seed):
    n = 60 if tier == "quick" else 800
    out = []
    for i in range(n):
        v = [6, 7, 8, 9, 10][i % 5]
        o = None
        if v >= 8 and i % 3 == 0:
            o = {"frame_pointers": False}
        if v >= 8 and i % 3 == 1:
            o = {"frame_pointers": True, "scratch_slots": i % 2 == 0}
        out.append((seed * 7919 + 500 + i, v, o))
    return out
