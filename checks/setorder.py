"""Frame-style obligation for C11 (O11.3): every iteration over a set on the compile path is either wrapped in sorted()
or classified (with a reason) as order-insensitive in contracts/c11_setorder_allow.json.  Syntactic audit of the real AST."""
import ast
import json
import os

FILES = ["pyteal/compiler/compiler.py", "pyteal/compiler/scratchslots.py", "pyteal/compiler/subroutines.py", "pyteal/compiler/flatten.py",
         "pyteal/compiler/sort.py", "pyteal/compiler/constants.py", "pyteal/compiler/optimizer/optimizer.py", "pyteal/ir/tealblock.py",
         "pyteal/ir/tealop.py", "pyteal/ir/tealsimpleblock.py", "pyteal/ir/tealconditionalblock.py", "pyteal/ast/subroutine.py", "pyteal/ast/router.py"]
SETOPS = {"union", "intersection", "difference", "symmetric_difference", "copy"}


def ann_is_set(a):
    s = ast.unparse(a) if a is not None else ""
    s = s.strip("'\"")
    return s.startswith(("Set[", "set[", "set", "Set", "frozenset", "FrozenSet["))


def ann_dict_of_set(a):
    s = ast.unparse(a) if a is not None else ""
    return ("Dict[" in s or "dict[" in s) and ("Set[" in s or "set[" in s)


class Audit(ast.NodeVisitor):
    def __init__(self, fname):
        self.fname, self.sites, self.fn = fname, [], []
        self.order_free = set()
        self.setvars, self.dictsetvars = [set()], [set()]

    def is_set(self, e):
        if isinstance(e, (ast.Set, ast.SetComp)):
            return True
        if isinstance(e, ast.Call):
            f = e.func
            if isinstance(f, ast.Name) and f.id in ("set", "frozenset"):
                return True
            if isinstance(f, ast.Attribute) and f.attr in SETOPS and self.is_set(f.value):
                return True
            if isinstance(f, ast.Name) and f.id == "cast" and len(e.args) == 2:
                return ann_is_set(e.args[0]) or self.is_set(e.args[1])
        if isinstance(e, ast.BinOp) and isinstance(e.op, (ast.BitOr, ast.BitAnd, ast.Sub, ast.BitXor)):
            return self.is_set(e.left) or self.is_set(e.right)
        if isinstance(e, ast.Name):
            return any(e.id in s for s in self.setvars)
        if isinstance(e, ast.Subscript) and isinstance(e.value, ast.Name):
            return any(e.value.id in s for s in self.dictsetvars)
        if isinstance(e, ast.Attribute) and e.attr in ("by_ref_args", "_skip_slots"):
            return True
        return False

    def site(self, node, expr, how):
        self.sites.append({"file": self.fname, "function": ".".join(self.fn) or "<module>", "how": how, "expr": ast.unparse(expr)})

    def visit_FunctionDef(self, n):
        self.fn.append(n.name)
        sv, dv = set(), set()
        for a in n.args.args + n.args.kwonlyargs:
            if ann_dict_of_set(a.annotation):
                dv.add(a.arg)
            elif ann_is_set(a.annotation):
                sv.add(a.arg)
        self.setvars.append(sv)
        self.dictsetvars.append(dv)
        # flow-insensitive: collect assignments first
        for x in ast.walk(n):
            if isinstance(x, ast.AnnAssign) and isinstance(x.target, ast.Name):
                if ann_dict_of_set(x.annotation):
                    dv.add(x.target.id)
                elif ann_is_set(x.annotation):
                    sv.add(x.target.id)
        changed = True
        while changed:
            changed = False
            for x in ast.walk(n):
                if isinstance(x, ast.Assign) and len(x.targets) == 1 and isinstance(x.targets[0], ast.Name) and self.is_set(x.value):
                    if x.targets[0].id not in sv:
                        sv.add(x.targets[0].id)
                        changed = True
                if isinstance(x, (ast.For, ast.comprehension)) and isinstance(x.target, ast.Tuple):
                    # for k, v in d.items() where d: Dict[_, Set[_]]  ->  v is a set
                    it = x.iter
                    if isinstance(it, ast.Call) and isinstance(it.func, ast.Attribute) and it.func.attr == "items" and isinstance(it.func.value, ast.Name) \
                            and any(it.func.value.id in d for d in self.dictsetvars) and len(x.target.elts) == 2 and isinstance(x.target.elts[1], ast.Name):
                        if x.target.elts[1].id not in sv:
                            sv.add(x.target.elts[1].id)
                            changed = True
        self.generic_visit(n)
        self.setvars.pop()
        self.dictsetvars.pop()
        self.fn.pop()

    visit_AsyncFunctionDef = visit_FunctionDef

    def visit_ClassDef(self, n):
        self.fn.append(n.name)
        self.generic_visit(n)
        self.fn.pop()

    def visit_For(self, n):
        if self.is_set(n.iter):
            self.site(n, n.iter, "for")
        self.generic_visit(n)

    ORDER_FREE = ("sorted", "set", "frozenset", "any", "all", "sum", "min", "max", "len")

    def visit_comprehension(self, n):
        if self.is_set(n.iter) and id(n) not in self.order_free:
            self.site(n, n.iter, "comprehension")
        self.generic_visit(n)

    def visit_Call(self, n):
        f = n.func
        # a generator / comprehension consumed by an order-insensitive (or ordering) function needs no classification
        if isinstance(f, ast.Name) and f.id in self.ORDER_FREE and len(n.args) >= 1 and isinstance(n.args[0], (ast.GeneratorExp, ast.ListComp, ast.SetComp)):
            for g in n.args[0].generators:
                self.order_free.add(id(g))
        if isinstance(f, ast.Name) and f.id in ("list", "tuple", "enumerate", "iter", "next") and n.args and self.is_set(n.args[0]):
            self.site(n, n.args[0], f.id + "()")
        if isinstance(f, ast.Attribute) and f.attr == "pop" and not n.args and self.is_set(f.value):
            self.site(n, f.value, ".pop()")
        if isinstance(f, ast.Attribute) and f.attr == "join" and n.args and self.is_set(n.args[0]):
            self.site(n, n.args[0], "join()")
        for a in n.args:
            if isinstance(a, ast.Starred) and self.is_set(a.value):
                self.site(n, a.value, "*unpack")
        self.generic_visit(n)


def audit(repo):
    sites = []
    for f in FILES:
        p = os.path.join(repo, f)
        if not os.path.exists(p):
            continue
        a = Audit(f)
        a.visit(ast.parse(open(p).read()))
        sites += a.sites
    return sites


def load_allow(verif):
    p = os.path.join(verif, "contracts", "c11_setorder_allow.json")
    return json.load(open(p))["sites"] if os.path.exists(p) else []
