"""C10 Every variable is its own storage cell; slot limits are enforced."""

import random
from concurrent.futures import ProcessPoolExecutor

from vf.core import Report, Bounded, Violation, Ob
from vf.runner import run_contracts

LEVEL = "other"


def many_vars_case(job):
    from . import e2e
    return e2e.with_big_stack(_many_vars_case, job)


def _many_vars_case(job):
    """n simultaneously live variables (auto / explicit / dynamically indexed, spread over main and subroutines):
    each keeps its own value; explicit ids are the slots actually used."""
    n, seed, version, opts = job
    from vf.core import use_repo
    use_repo()
    import pyteal as pt
    from spec import avm
    r = random.Random(seed)
    out = {"n": n, "seed": seed, "version": version, "opts": opts, "problems": [], "expect_reject": n > 256}
    try:
        explicit = {}
        ids = list(range(256))
        r.shuffle(ids)
        vars_ = []
        for i in range(n):
            if i % 3 == 0 and ids and len(explicit) < 80:
                sid = ids.pop()
                explicit[i] = sid
                vars_.append(pt.ScratchVar(pt.TealType.uint64, sid))
            else:
                vars_.append(pt.ScratchVar(pt.TealType.uint64))
        dyn = pt.DynamicScratchVar(pt.TealType.uint64)
        nsub = min(n // 3, 40)
        sub_vars = vars_[:nsub]        # written inside a subroutine, read in main: shared between routines

        @pt.Subroutine(pt.TealType.none)
        def writer():
            local = [pt.ScratchVar(pt.TealType.uint64) for _ in range(3)]
            return pt.Seq(*[l.store(pt.Int(9000 + k)) for k, l in enumerate(local)],
                          *[v.store(pt.Int(1000 + i) + local[i % 3].load() - pt.Int(9000 + i % 3)) for i, v in enumerate(sub_vars)])
        stores = [v.store(pt.Int(1000 + i)) for i, v in enumerate(vars_)][nsub:]
        order = list(range(n))
        r.shuffle(order)
        checks = [pt.Assert(vars_[i].load() == pt.Int(1000 + i)) for i in order]
        # dynamic access to an explicitly numbered variable observes the same cell
        dyn_part = []
        if explicit:
            i0 = next(iter(explicit))
            dyn_part = [dyn.set_index(vars_[i0]), pt.Assert(dyn.load() == pt.Int(1000 + i0)), dyn.store(pt.Int(77)),
                        pt.Assert(vars_[i0].load() == pt.Int(77)), pt.Assert(vars_[i0].index() == pt.Int(explicit[i0])), vars_[i0].store(pt.Int(1000 + i0))]
        prog = pt.Seq(writer() if nsub else pt.Seq(), *stores, *checks, *dyn_part, *checks[:5], pt.Approve())
        kw = {"optimize": pt.OptimizeOptions(**opts)} if opts else {}
        teal = pt.compileTeal(prog, pt.Mode.Application, version=version, **kw)
        if n + 4 > 256:
            out["problems"].append(f"{n}+ variables accepted (more than 256 slots needed)")
            return out
        res = avm.run(teal, avm.Ctx(budget=10 ** 7))
        if res.verdict != "approve":
            out["problems"].append(f"variables are not independent cells: {res.verdict} {res.detail}")
        for i, sid in explicit.items():
            if res.verdict == "approve" and res.scratch.get(sid) != 1000 + i:
                out["problems"].append(f"explicitly requested slot {sid} holds {res.scratch.get(sid)} instead of {1000 + i}")
                break
    except Exception as e:
        name = type(e).__name__
        if name in ("TealInternalError", "TealInputError"):
            if n + 4 <= 256:
                out["problems"].append(f"rejected although only {n}+4 slots are needed: {e}")
            out["rejected"] = True
        else:
            out["problems"].append(f"exception {name}: {str(e)[:200]}")
    return out


ACCESS = ("direct", "dynamic", "byref", "byref-forwarded", "dynamic-byref")
ALLOC = (None, 0, 1, 200)


def access_case(job):
    """Every variable is reached through one access path only (direct load/store, DynamicScratchVar.set_index + loads/stores, or passed by
    reference to subroutines) and is automatically or explicitly numbered: still its own cell; duplicate requested ids are rejected."""
    kinds, version, opts = job
    from vf.core import use_repo
    use_repo()
    import pyteal as pt
    from spec import avm
    out = {"kinds": kinds, "version": version, "opts": opts, "problem": None}
    sids = [sid for _, sid in kinds if sid is not None]
    expect_reject = len(sids) != len(set(sids))
    try:
        vars_ = [pt.ScratchVar(pt.TealType.uint64, sid) if sid is not None else pt.ScratchVar(pt.TealType.uint64) for _, sid in kinds]
        dyn = pt.DynamicScratchVar(pt.TealType.uint64)

        @pt.Subroutine(pt.TealType.none)
        def setref(v: pt.ScratchVar, x: pt.Expr):
            return v.store(x)

        @pt.Subroutine(pt.TealType.uint64)
        def getref(v: pt.ScratchVar):
            return v.load()

        @pt.Subroutine(pt.TealType.none)
        def setref2(v: pt.ScratchVar, x: pt.Expr):          # forwards its by-reference parameter to another routine
            return setref(v, x)

        @pt.Subroutine(pt.TealType.uint64)
        def getref2(v: pt.ScratchVar):
            return getref(v)
        writes, reads = [], []
        for i, ((access, sid), v) in enumerate(zip(kinds, vars_)):
            val = pt.Int(100 + i)
            if access == "direct":
                writes.append(v.store(val)); reads.append(v.load())
            elif access == "dynamic":
                writes.append(pt.Seq(dyn.set_index(v), dyn.store(val))); reads.append(pt.Seq(dyn.set_index(v), dyn.load()))
            elif access == "byref":
                writes.append(setref(v, val)); reads.append(getref(v))
            elif access == "byref-forwarded":
                writes.append(setref2(v, val)); reads.append(getref2(v))
            else:   # a DynamicScratchVar pointing at the variable is itself passed by reference
                writes.append(pt.Seq(dyn.set_index(v), setref(dyn, val))); reads.append(pt.Seq(dyn.set_index(v), getref(dyn)))
        prog = pt.Seq(*writes, *[pt.Assert(rd == pt.Int(100 + i)) for i, rd in enumerate(reads)], pt.Approve())
        kw = {"optimize": pt.OptimizeOptions(**opts)} if opts else {}
        teal = pt.compileTeal(prog, pt.Mode.Application, version=version, **kw)
        if expect_reject:
            out["problem"] = "two variables requesting the same slot id were accepted"
            return out
        res = avm.run(teal, avm.Ctx(budget=10 ** 6))
        if res.verdict != "approve":
            out["problem"] = f"variables are not independent cells: {res.verdict} {res.detail}"
        else:
            for i, (_, sid) in enumerate(kinds):
                if sid is not None and res.scratch.get(sid) != 100 + i:
                    out["problem"] = f"explicitly requested slot {sid} holds {res.scratch.get(sid)} instead of {100 + i}"
                    break
    except Exception as e:
        name = type(e).__name__
        if name in ("TealInternalError", "TealInputError"):
            if not expect_reject:
                out["problem"] = f"rejected although the requested ids are distinct: {str(e)[:200]}"
        else:
            out["problem"] = f"exception {name}: {str(e)[:200]}"
    return out


def access_jobs(tier, seed):
    import itertools
    kinds = [(a, s) for a in ACCESS for s in ALLOC]
    seqs = [list(p) for n in (1, 2) for p in itertools.product(kinds, repeat=n)]
    triples = list(itertools.product(kinds, repeat=3))
    if tier == "quick":
        r = random.Random(seed)
        triples = r.sample(triples, 260)
    seqs += [list(t) for t in triples]
    jobs = []
    for i, ks in enumerate(seqs):
        v, o = [(6, None), (8, None), (10, None), (10, {"scratch_slots": False}), (9, {"frame_pointers": False})][i % 5]
        jobs.append((ks, v, o))
    return jobs


def lean_lemma(report):
    """re-check the pigeonhole side lemma with the installed Lean + Mathlib; absent / failing Lean => undecided, never a violation"""
    import subprocess
    import shutil
    import time
    import os
    from vf.core import VERIF
    src = os.path.join(VERIF, "lemmas", "Pigeonhole.lean")
    t0 = time.time()
    if not shutil.which("lean"):
        st, detail = "unknown", "lean not on PATH"
    else:
        try:
            p = subprocess.run(["lean", src], capture_output=True, text=True, timeout=900)
            bad = p.returncode != 0 or "error" in p.stdout or "sorry" in p.stdout
            st, detail = ("unknown" if bad else "discharged"), (p.stdout + p.stderr)[-400:]
        except subprocess.TimeoutExpired:
            st, detail = "unknown", "lean timed out"
    report.ob(Ob(id="O10.2/lemma/scan-position-below-cardinality", function="lemmas/Pigeonhole.lean (bound clause of the slot-numbering contract)", kind="P", status=st,
                 backend="lean 4 kernel + Mathlib", ms=(time.time() - t0) * 1000,
                 detail="if every index below m is the number of an element of T other than cur (cur in T) then m + 1 <= |T|  " + detail))


OCCUPANCY = [(256, 0), (255, 1), (255, 0), (254, 2), (200, 56), (128, 128), (1, 255), (0, 256), (256, 1), (255, 2), (200, 57), (0, 257), (1, 256)]


def occupancy_jobs(tier):
    return [(ne, na, v, ss) for (ne, na) in OCCUPANCY for (v, ss) in (((6, None), (10, None)) if tier == "quick" else ((2, None), (6, None), (8, None), (10, None), (10, False)))]


def occupancy_case(job):
    from .e2e import with_big_stack
    return with_big_stack(_occupancy_case, job)


def _occupancy_case(job):
    """`ne` variables with explicitly requested ids (the highest ids first, so 255 is always taken) next to `na` automatic ones: exactly
    256 slots in total must work (every variable its own cell, requested ids honoured), one more must be refused - with a PyTeal error."""
    ne, na, version, ss = job
    from vf.core import use_repo
    use_repo()
    import pyteal as pt
    from spec import avm
    out = {"job": list(job), "problems": [], "crash": None}
    ids = list(range(255, 255 - ne, -1))
    vars_ = [pt.ScratchVar(pt.TealType.uint64, i) for i in ids] + [pt.ScratchVar(pt.TealType.uint64) for _ in range(na)]
    prog = pt.Seq(*[v.store(pt.Int(5000 + k)) for k, v in enumerate(vars_)], *[pt.Assert(v.load() == pt.Int(5000 + k)) for k, v in enumerate(vars_)], pt.Approve())
    kw = {"optimize": pt.OptimizeOptions(scratch_slots=ss)} if ss is not None else {}
    try:
        teal = pt.compileTeal(prog, pt.Mode.Application, version=version, **kw)
    except (pt.TealInternalError, pt.TealInputError, pt.TealCompileError) as e:
        if ne + na <= 256:
            out["problems"].append(f"{ne} requested + {na} automatic slots (<= 256) refused: {str(e)[:120]}")
        return out
    except RecursionError:
        return out
    except Exception as e:
        out["crash"] = {"type": type(e).__name__, "message": str(e)[:120]}
        out["problems"].append(f"{ne} requested + {na} automatic slots: compilation died with {type(e).__name__}: {str(e)[:120]}")
        return out
    if ne + na > 256:
        out["problems"].append(f"{ne} requested + {na} automatic slots (> 256) accepted")
        return out
    res = avm.run(teal, avm.Ctx(budget=10 ** 7))
    if res.verdict != "approve":
        out["problems"].append(f"{ne} requested + {na} automatic slots: variables are not independent cells: {res.verdict} {res.detail}")
    else:
        for k, i in enumerate(ids):
            if res.scratch.get(i) != 5000 + k:
                out["problems"].append(f"requested slot {i} holds {res.scratch.get(i)} instead of {5000 + k}")
                break
    return out


def limits(report):
    from vf.core import use_repo
    use_repo()
    import pyteal as pt
    probs = []
    # two variables requesting the same id
    a, b = pt.ScratchVar(pt.TealType.uint64, 5), pt.ScratchVar(pt.TealType.uint64, 5)
    try:
        pt.compileTeal(pt.Seq(a.store(pt.Int(1)), b.store(pt.Int(2)), pt.Return(a.load() + b.load())), pt.Mode.Application, version=6)
        probs.append("two variables requesting slot 5 accepted")
    except pt.TealInternalError:
        pass
    # the same, for every way the two variables can be spread over routines (local to main, local to a subroutine, shared between routines)
    nprobe = 4
    for place_a in ("main", "sub", "shared"):
        for place_b in ("main", "sub", "shared", "sub2"):
            for version, kw in ((6, {}), (10, {}), (8, {"optimize": pt.OptimizeOptions(scratch_slots=False)})):
                nprobe += 1
                a, b = pt.ScratchVar(pt.TealType.uint64, 10), pt.ScratchVar(pt.TealType.uint64, 10)
                use = {"main": [], "sub": [], "sub2": []}
                for v, place, val in ((a, place_a, 1), (b, place_b, 2)):
                    for r in (("main", "sub") if place == "shared" else (place,)):
                        use[r] += [v.store(pt.Int(val) + pt.Txn.fee()), pt.Log(pt.Itob(v.load()))]

                @pt.Subroutine(pt.TealType.none)
                def s1():
                    return pt.Seq(*use["sub"]) if use["sub"] else pt.Log(pt.Bytes("s1"))

                @pt.Subroutine(pt.TealType.none)
                def s2():
                    return pt.Seq(*use["sub2"]) if use["sub2"] else pt.Log(pt.Bytes("s2"))
                try:
                    pt.compileTeal(pt.Seq(*use["main"], s1(), s2(), pt.Approve()), pt.Mode.Application, version=version, **kw)
                    probs.append(f"two variables requesting slot 10 accepted (first used in {place_a}, second in {place_b}, v{version})")
                except pt.TealInternalError:
                    pass
                except Exception as e:
                    probs.append(f"duplicate-id probe ({place_a}, {place_b}, v{version}): {type(e).__name__}: {str(e)[:100]}")
    for bad in (-1, 256, 1000):
        try:
            pt.ScratchVar(pt.TealType.uint64, bad)
            probs.append(f"slot id {bad} accepted")
        except pt.TealInputError:
            pass
    report.ob(Ob(id="O10.2ab/limit-probes", function="pyteal.compiler.scratchslots.assignScratchSlotsToSubroutines", kind="E",
                 status="refuted" if probs else "discharged", backend=f"enumeration({nprobe} probes)", detail="duplicate requested ids (the two variables local to main / to a subroutine / shared between routines, in every combination) and ids outside [0,256) are rejected", model=probs or None))


def frame_locals_case(job):
    from . import e2e
    return e2e.with_big_stack(_frame_locals_case, job)


def _frame_locals_case(job):
    """more than 128 ABI temporaries inside a frame-pointer subroutine: the 129th+ fall back to scratch slots, still distinct cells."""
    n, version = job
    from vf.core import use_repo
    use_repo()
    import pyteal as pt
    from pyteal import abi
    from spec import avm
    try:
        @pt.Subroutine(pt.TealType.none)
        def f():
            xs = [abi.Uint64() for _ in range(n)]
            return pt.Seq(*[x.set(500 + i) for i, x in enumerate(xs)], *[pt.Assert(x.get() == pt.Int(500 + i)) for i, x in enumerate(xs)])
        teal = pt.compileTeal(pt.Seq(f(), pt.Approve()), pt.Mode.Application, version=version)
        res = avm.run(teal, avm.Ctx(budget=10 ** 7))
        return {"n": n, "version": version, "problem": None if res.verdict == "approve" else f"{res.verdict} {res.detail}"}
    except Exception as e:
        return {"n": n, "version": version, "problem": f"{type(e).__name__}: {e}"}


def run(report: Report, tier, seed):
    report.trust("spec/avm.py (load/store/loads/stores, frame ops)")
    report.assume("region contract (pyvc) on assignScratchSlotsToSubroutines from its entry up to the loop that writes the numbers into the ops: for every finite set of slots the numbering is total, "
                  "the identity on requested ids, injective, non-negative, and automatic numbers fill the gaps in ascending id order; duplicate requested ids are rejected",
                  "every number < 256: from the > 256 rejection and the pigeonhole lemma lemmas/Pigeonhole.lean (Lean 4 + Mathlib, re-checked here), whose hypothesis is discharged from ghost witnesses",
                  "NOT proved: that collectScratchSlots returns every slot of every op (summarised: allSlots is an arbitrary finite set); the write-back loop (op.assignSlot) - bounded stand-in with up to 300 live variables",
                  "summaries under a syntactic guard: sorted(allSlots, key=lambda slot: slot.id) = duplicate-free enumeration in non-decreasing id order; validateSlots called with slotsInUse=global_slots",
                  "A5 L-cell: injective assignment + AVM load/store semantics give cell behaviour")
    run_contracts(report, [("contracts.c10_slots", "ScratchSlotInit", "O10.1"), ("contracts.c10_assign", "AssignSlots", "O10.2")])
    lean_lemma(report)
    limits(report)
    sizes = [1, 2, 17, 100, 200, 252, 253, 260, 300] if tier == "quick" else list(range(1, 30)) + [50, 100, 150, 200, 240, 250, 251, 252, 253, 254, 255, 256, 257, 260, 300]
    jobs = []
    for i, n in enumerate(sizes):
        for v, o in ((6, None), (8, None), (10, None), (10, {"scratch_slots": False}), (9, {"frame_pointers": False})):
            jobs.append((n, seed * 31 + i, v, o))
    with ProcessPoolExecutor(max_workers=16) as ex:
        res = list(ex.map(many_vars_case, jobs, chunksize=2))
        fl = list(ex.map(frame_locals_case, [(n, v) for n in (1, 60, 127, 128, 129, 140) for v in (8, 10)]))
        aj = access_jobs(tier, seed)
        ar = list(ex.map(access_case, aj, chunksize=8))
    abad = [r for r in ar if r["problem"]]
    report.bounded.append(Bounded(function="compileTeal: variables reached through one access path only", contract="own cell whatever the access path (direct / DynamicScratchVar / by reference) and numbering (auto / explicit 0, 1, 200); duplicate requested ids rejected",
                                  bound=f"all sequences of <= 2 variables over 5 access paths x 4 numberings, {'260 sampled' if tier == 'quick' else 'all 8000'} triples, versions 6..10 x option settings",
                                  cases=len(ar), distinct_nontrivial=len(ar), failures=len(abad)))
    bad = [r for r in res if r["problems"]]
    fbad = [r for r in fl if r["problem"]]
    from .abi_e2e import pool_map as _pm
    oj = occupancy_jobs(tier)
    orr = _pm(occupancy_case, oj)
    obad = [r for r in orr if r["problems"]]
    report.bounded.append(Bounded(function="compileTeal at full slot occupancy", contract="requested + automatic slots: exactly 256 work (own cells, requested ids honoured), 257 are refused with a PyTeal error",
                                  bound=f"{len(OCCUPANCY)} (requested, automatic) splits around 256 incl. all 256 ids requested x versions / optimiser", cases=len(orr), distinct_nontrivial=len(OCCUPANCY), failures=len(obad)))
    for b in obad[:2]:
        report.violation(Violation(key=f"occupancy:{b['job'][0]}+{b['job'][1]}", what=b["problems"][0][:400], replay={"input": {"occupancy": b["job"]}}, confirmed_native=True))
    report.bounded.append(Bounded(function="compileTeal with n simultaneously live variables", contract="each variable returns the value last stored in it; explicit ids are the slots used (also through index() and DynamicScratchVar); more than 256 slots rejected",
                                  bound=f"n in {sizes} (auto / explicit / dynamically indexed, main routine and a subroutine) x versions 6, 8, 10 x optimiser / frame-pointer settings",
                                  cases=len(res), distinct_nontrivial=len(sizes), failures=len(bad)))
    report.bounded.append(Bounded(function="alloc_abstract_var beyond 128 frame locals", contract="ABI temporaries stay distinct cells", bound="1..140 temporaries in a frame-pointer subroutine, versions 8 and 10",
                                  cases=len(fl), distinct_nontrivial=len(fl), failures=len(fbad)))
    report.extra["explanation"] = "P: ScratchSlot.__init__ (pyvc); E: limit probes; B: many-variable programs on the spec AVM"
    def search(fn, obs):
        if bad:
            b0 = bad[0]
            return {"input": {"job": [b0["n"], b0["seed"], b0["version"], b0["opts"]]}, "what": b0["problems"][0]}
        if abad:
            b0 = abad[0]
            return {"input": {"access": [b0["kinds"], b0["version"], b0["opts"]]}, "what": b0["problem"]}
        return None
    report.settle_undecided(search)
    report.settle_refuted(search)
    if any(o.status == "refuted" for o in report.obs):
        bad, abad = bad[:0], abad[:0]
    for b in bad[:3]:
        report.violation(Violation(key=f"cells:{b['n']}:{b['version']}:{b['opts']}", what=f"{b['n']} variables, v{b['version']} {b['opts']}: {b['problems'][0]}"[:400],
                                   replay={"job": [b["n"], b["seed"], b["version"], b["opts"]]}, confirmed_native=True))
    for b in abad[:3]:
        report.violation(Violation(key=f"access:{b['kinds']}:{b['version']}", what=f"variables {b['kinds']} v{b['version']} {b['opts']}: {b['problem']}"[:400],
                                   replay={"access": [b["kinds"], b["version"], b["opts"]]}, confirmed_native=True))
    for b in fbad[:2]:
        report.violation(Violation(key=f"framelocals:{b['n']}:{b['version']}", what=f"{b['n']} frame temporaries v{b['version']}: {b['problem']}"[:300],
                                   replay={"frame": [b["n"], b["version"]]}, confirmed_native=True))


def replay(data):
    r = data["replay"]
    if isinstance(r, dict) and (r.get("native") or {}).get("input"):
        r = r["native"]["input"]
    if "input" in r and isinstance(r["input"], dict) and "occupancy" in r["input"]:
        r = r["input"]
    if "occupancy" in r:
        out = occupancy_case(tuple(r["occupancy"]))
        print(out["problems"])
        return 1 if out["problems"] else 0
    if "job" in r:
        out = many_vars_case(tuple(r["job"]))
        print(out["problems"])
        return 1 if out["problems"] else 0
    if "access" in r:
        a = r["access"]
        out = access_case(([tuple(k) for k in a[0]], a[1], a[2]))
        print(out)
        return 1 if out["problem"] else 0
    out = frame_locals_case(tuple(r["frame"]))
    print(out)
    return 1 if out["problem"] else 0
