"""C15 Source maps are faithful and never perturb the program."""

import json
import os
import subprocess
import sys
from concurrent.futures import ThreadPoolExecutor

from vf.core import Report, Bounded, Violation, Ob, VERIF, REPO

LEVEL = "exploration"


def run_worker(job):
    env = dict(os.environ, PYTHONDONTWRITEBYTECODE="1")
    p = subprocess.run([sys.executable, "-B", os.path.join(VERIF, "checks", "c15_worker.py"), json.dumps(dict(job, repo=REPO))],
                       capture_output=True, text=True, env=env, timeout=1800)
    for line in p.stdout.splitlines():
        if line.startswith("RESULT "):
            return json.loads(line[7:])
    return {"problems": [f"worker crashed: {p.stderr[-600:]}"], "n": 0, "vlq": 0}


def run(report: Report, tier, seed):
    report.trust("independent Base64-VLQ codec in checks/c15_worker.py (from the Source Map Revision 3 proposal)", "TEAL comment grammar of spec/avm.py")
    report.assume("bounded stand-in only: the VLQ loops and the frame-selection logic (CPython frame introspection) are not under contract",
                  "attribution to (file, line) is checked on one generated user module with constants in statement, operand and nested positions")
    n = 24 if tier == "quick" else 240
    per = 6 if tier == "quick" else 30
    items = [[seed * 100003 + 93000 + i, [4, 6, 8, 9, 10][i % 5]] for i in range(n)]
    jobs = [{"items": items[k:k + per], "seed": seed + k, "vlq_range": 5000 if tier == "quick" else 200000} for k in range(0, n, per)]
    with ThreadPoolExecutor(max_workers=8) as ex:
        res = list(ex.map(run_worker, jobs))
    probs = [p for r in res for p in r["problems"]]
    report.bounded.append(Bounded(function="Compilation.compile(with_sourcemap=True, annotate_teal=True)",
                                  contract="TEAL byte-identical with/without the map; one entry per TEAL line in order pointing at an existing line of an existing file; R3 JSON round trip; annotated TEAL minus comments == plain; constants attributed to their (file, line)",
                                  bound=f"{n} generated programs (seed {seed}) x versions 4..10 + one user module with 12 constants",
                                  cases=sum(r["n"] for r in res), distinct_nontrivial=n, failures=len(probs)))
    report.bounded.append(Bounded(function="_base64vlq_encode / _base64vlq_decode", contract="equal to the independent codec; decode(encode(v)) == v",
                                  bound=f"every integer with |v| <= {jobs[0]['vlq_range']} + 2000 random tuples up to 2^40 + boundary values (per worker)",
                                  cases=sum(r["vlq"] for r in res), distinct_nontrivial=jobs[0]["vlq_range"] * 2, failures=0))
    report.sample({"vlq": {"values": [0, -1, 16, 1024], "encoded": "AADgBggC"}})
    seen = set()
    for p in probs:
        key = "sourcemap:" + p.split(":")[0].split(" v")[0][:40] if not p.startswith("VLQ") else "vlq"
        cls = p.split(": ", 1)[-1][:60]
        k2 = f"{'vlq' if p.startswith('VLQ') else 'sourcemap'}:{cls}"
        if k2 in seen:
            continue
        seen.add(k2)
        report.violation(Violation(key=k2, what=p[:400], replay={"problem": p}, confirmed_native=True))


def replay(data):
    print(data.get("what"))
    return 1
