"""C15 Source maps are faithful and never perturb the program."""

import json
import os
import subprocess
import sys
from concurrent.futures import ThreadPoolExecutor

from vf.core import Report, Bounded, Violation, Ob, VERIF, REPO

LEVEL = "other"


def run_worker(job):
    env = dict(os.environ, PYTHONDONTWRITEBYTECODE="1")
    p = subprocess.run([sys.executable, "-B", os.path.join(VERIF, "checks", "c15_worker.py"), json.dumps(dict(job, repo=REPO))],
                       capture_output=True, text=True, env=env, timeout=1800)
    for line in p.stdout.splitlines():
        if line.startswith("RESULT "):
            return json.loads(line[7:])
    return {"problems": [], "crash": p.stderr[-1500:], "n": 0, "vlq": 0}


def run(report: Report, tier, seed):
    report.trust("independent Base64-VLQ codec in checks/c15_worker.py (from the Source Map Revision 3 proposal)", "TEAL comment grammar of spec/avm.py")
    report.assume("under contract (pyvc): _base64vlq_encode / _base64vlq_decode against the Revision-3 VLQ definition, unbounded integers, any number of values; "
                  "the round trip is the composition of the two contracts (encoder postcondition == decoder precondition)",
                  "Python semantics assumed by the VCs: x & 31 = x mod 32, x >> 5 = floor(x / 32), x << s = x * 2**s (s >= 0), a | b = a + b on disjoint bit ranges",
                  "under contract (pyvc, region): the delta bookkeeping of R3SourceMap.to_json - every emitted segment, run through the specified Revision-3 decoder state machine, decodes to its entry's "
                  "column / source index / line / column / name index",
                  "not under contract (bounded stand-ins only): R3SourceMap.from_json, the ';' ',' joining and the sources / names lists of the JSON, frame selection (CPython frame introspection), "
                  "TealMapItem construction, annotated TEAL",
                  "attribution to (file, line) is checked on one generated user module with constants in statement, operand and nested positions")
    from vf.runner import run_contracts
    from vf.core import use_repo
    use_repo()
    run_contracts(report, [("contracts.c15_vlq", "VlqEncode", "O15.4a"), ("contracts.c15_vlq", "VlqDecode", "O15.4b"), ("contracts.c15_tojson", "ToJson", "O15.5")])
    from contracts.c15_vlq import alphabet_bijection
    nb, bad = alphabet_bijection()
    report.ob(Ob(id="O15.4c/alphabet-tables-inverse", function="pyteal.compiler.sourcemap._b64chars/_b64table", kind="E",
                 status="refuted" if bad else "discharged", detail=f"{nb} sextets: _b64chars is the RFC 4648 alphabet and _b64table inverts it",
                 model=bad[0] if bad else None, backend="enumeration on the real module globals"))
    n = 24 if tier == "quick" else 240
    per = 6 if tier == "quick" else 30
    items = [[seed * 100003 + 93000 + i, [4, 6, 8, 9, 10][i % 5]] for i in range(n)]
    jobs = [{"items": items[k:k + per], "seed": seed + k, "vlq_range": 5000 if tier == "quick" else 200000} for k in range(0, n, per)]
    with ThreadPoolExecutor(max_workers=8) as ex:
        res = list(ex.map(run_worker, jobs))
    probs = [p for r in res for p in r["problems"]]
    for r in res:
        if r.get("crash"):   # a harness failure is not a verdict about pyteal
            report.ob(Ob(id="O15.B/worker", function="checks/c15_worker.py", kind="B", status="error", detail="worker process crashed", model=r["crash"]))
    report.bounded.append(Bounded(function="Compilation.compile(with_sourcemap=True, annotate_teal=True)",
                                  contract="TEAL byte-identical with/without the map; one entry per TEAL line in order pointing at an existing line of an existing file; R3 JSON round trip; annotated TEAL minus comments == plain; constants attributed to their (file, line)",
                                  bound=f"{n} generated programs (seed {seed}) x versions 4..10 + one user module with 12 constants",
                                  cases=sum(r["n"] for r in res), distinct_nontrivial=n, failures=len(probs)))
    report.bounded.append(Bounded(function="_base64vlq_encode / _base64vlq_decode", contract="equal to the independent codec; decode(encode(v)) == v",
                                  bound=f"every integer with |v| <= {jobs[0]['vlq_range']} + 2000 random tuples up to 2^40 + boundary values (per worker)",
                                  cases=sum(r["vlq"] for r in res), distinct_nontrivial=jobs[0]["vlq_range"] * 2, failures=0))
    report.sample({"vlq": {"values": [0, -1, 16, 1024], "encoded": "AADgBggC"}})
    vlq_probs = [p for p in probs if p.startswith("VLQ")]

    json_probs = [p for p in probs if "Revision-3" in p or "from_json" in p]

    def search(fn, obs):
        if "to_json" in fn:
            return {"input": json_probs[0], "what": json_probs[0]} if json_probs else None
        return {"input": vlq_probs[0], "what": vlq_probs[0]} if vlq_probs else None
    report.settle_undecided(search)
    report.settle_refuted(search)
    seen = set()
    if any("vlq" in v.what for v in report.violations):
        seen.add("vlq")
        probs = [p for p in probs if not p.startswith("VLQ")]
    for p in probs:
        key = "sourcemap:" + p.split(":")[0].split(" v")[0][:40] if not p.startswith("VLQ") else "vlq"
        cls = p.split(": ", 1)[-1][:60]
        k2 = f"{'vlq' if p.startswith('VLQ') else 'sourcemap'}:{cls}"
        if k2 in seen:
            continue
        seen.add(k2)
        report.violation(Violation(key=k2, what=p[:400], replay={"problem": p}, confirmed_native=True))


def replay(data):
    print(data.get("what"))
    return 1
