#!/bin/sh
# Build /verif/.venv offline: python3.12 venv + z3-solver + cvc5 + jsonschema from the wheelhouse,
# with a .pth that exposes /venv's site-packages (pyteal's deps: algosdk, semantic_version, ...).
set -e
cd "$(dirname "$0")"
export PIP_NO_INDEX=1
if [ ! -x .venv/bin/python ] || ! .venv/bin/python -c "import z3, cvc5, jsonschema, algosdk" 2>/dev/null; then
  rm -rf .venv
  /venv/bin/python -m venv .venv
  .venv/bin/python -m pip install -q --no-index --find-links /opt/veriftools/wheels z3-solver cvc5 jsonschema
  SP=$(.venv/bin/python -c "import sysconfig; print(sysconfig.get_paths()['purelib'])")
  echo "import site; site.addsitedir('/venv/lib/python3.12/site-packages')" > "$SP/_verif_venv.pth"
fi
.venv/bin/python -c "import z3, cvc5, jsonschema, algosdk, pyteal; print('setup ok: z3', z3.get_version_string())"
