"""Contracts for SubstringExpr / ExtractExpr / SuffixExpr.__teal__ with constant (Int) indices
(properties C01 / C04, obligation O1.14): for ALL uint64 start / end / length constants and every version, the op chosen
and its immediates denote the documented byte window of the string, fail in exactly the documented cases, and every
immediate fits its uint8 encoding.  (Non-constant indices are covered by fragcheck scenarios.)

Meaning of the ops (spec): for a string of length LEN
  substring s e / substring3 : window [s, e),      fails iff s > e or e > LEN
  extract s l, l > 0         : window [s, s+l),    fails iff s + l > LEN
  extract s 0                : window [s, LEN),    fails iff s > LEN
  extract3 (s, l on stack)   : window [s, s+l),    fails iff s + l > LEN
"""
from __future__ import annotations

import z3

from pyvc.values import *  # noqa
from pyvc.engine import Unsupported
from pyvc.verifier import Contract, stamp
from pyvc import fragsem

U64 = 2 ** 64


class Emitted:
    def __init__(self, op, args):
        self.op, self.args = op, args


class _Base(Contract):
    def __init__(self):
        from pyteal.ast import substring as M
        from pyteal.ast.int import Int
        from pyteal.ast.expr import Expr
        from pyteal.ir import TealBlock, TealSimpleBlock
        from pyteal.errors import TealCompileError, TealInputError
        self.M, self.Int, self.Expr, self.TSB = M, Int, Expr, TealSimpleBlock
        self.raises_only = (TealCompileError, TealInputError)
        self.callees = dict(fragsem.default_callees())
        self.callees[TealBlock.__dict__["FromOp"].__func__] = self.c_fromop
        self.callees[Expr.__dict__["__init__"]] = lambda I, args, kwargs: None
        self.callees[Expr.__dict__["__teal__"]] = self.c_child_teal
        self.fields, self.var_kinds, self.loops = {}, {}, {}

    def c_fromop(self, I, args, kwargs):
        cls, options, op = args[0], args[1], args[2]
        em = Emitted(op, list(args[3:]))
        I.ctx.ghost.setdefault("emitted", []).append(em)
        e = stamp(SObj(self.TSB, {"ops": [], "nextBlock": None}))
        s = stamp(SObj(self.TSB, {"ops": [], "nextBlock": e, "emitted": em}))
        return s, e

    def c_child_teal(self, I, args, kwargs):
        # the (opaque) string operand
        e = stamp(SObj(self.TSB, {"ops": [], "nextBlock": None}))
        s = stamp(SObj(self.TSB, {"ops": [], "nextBlock": e, "child": args[0]}))
        return s, e

    def mk_int(self, ctx, name):
        v = z3.Int(name)
        ctx.assume(z3.And(v >= 0, v < U64))     # class invariant of Int (proved under C13)
        return stamp(SObj(self.Int, {"value": v})), v

    def common(self, ctx):
        version = z3.Int("version")
        ctx.assume(z3.And(version >= 2, version <= 10))
        options = stamp(SObj(object, {"version": version}))
        string = SRef(z3.Int("stringArg"), self.Expr)
        ctx.assume(string.term >= 0)
        LEN = z3.Int("LEN")
        ctx.assume(z3.And(LEN >= 0, LEN <= 4096))
        ctx.ghost.update(version=version, LEN=LEN, string=string)
        return options, string, version, LEN

    def meaning(self, ctx, em: Emitted, string):
        """-> (encodable, fail, lo, hi, operand_ok) of one emitted op"""
        LEN = ctx.ghost["LEN"]
        mn = str(em.op.fields["op"])
        imm = list(em.op.fields["args"])
        args = em.args
        ok_operand = z3.BoolVal(len(args) >= 1 and args[0] is string)

        def val(x):
            if isinstance(x, SObj) and "value" in x.fields:
                return x.fields["value"]
            raise Unsupported("non-constant operand in the constant-index contract")
        if mn == "substring":
            s, e = imm
            return z3.And(s >= 0, s <= 255, e >= 0, e <= 255, z3.BoolVal(len(args) == 1)), z3.Or(s > e, e > LEN), s, e, ok_operand
        if mn == "substring3":
            s, e = val(args[1]), val(args[2])
            return z3.BoolVal(len(imm) == 0 and len(args) == 3), z3.Or(s > e, e > LEN), s, e, ok_operand
        if mn == "extract":
            s, l = imm
            enc = z3.And(s >= 0, s <= 255, l >= 0, l <= 255, z3.BoolVal(len(args) == 1))
            return enc, z3.If(l == 0, s > LEN, s + l > LEN), s, z3.If(l == 0, LEN, s + l), ok_operand
        if mn == "extract3":
            s, l = val(args[1]), val(args[2])
            return z3.BoolVal(len(imm) == 0 and len(args) == 3), s + l > LEN, s, s + l, ok_operand
        raise Unsupported(f"unexpected op {mn}")

    def check(self, ctx, outcome, spec_fail, lo, hi, min_version_ok, reject_ok):
        version = ctx.ghost["version"]
        if outcome[0] == "raise":
            ctx.oblige("rejected-only-when-documented", reject_ok, detail=f"raises {getattr(outcome[1], '__name__', outcome[1])}")
            return
        ctx.oblige("accepted-only-when-documented", z3.Not(reject_ok))
        ems = ctx.ghost.get("emitted", [])
        if len(ems) != 1:
            ctx.oblige("emits-exactly-one-operation", False)
            return
        enc, fail, glo, ghi, opnd = self.meaning(ctx, ems[0], ctx.ghost["string"])
        from spec.langspec import first_version_for_pyteal
        mn = str(ems[0].op.fields["op"])
        ctx.oblige("op-exists-at-version", version >= first_version_for_pyteal(mn))
        ctx.oblige("immediates-fit-uint8", enc)
        ctx.oblige("string-operand-first", opnd)
        ctx.oblige("fails-exactly-when-documented", fail == spec_fail)
        ctx.oblige("denotes-the-documented-window", z3.Implies(z3.Not(spec_fail), z3.And(glo == lo, ghi == hi)))


class SubstringConst(_Base):
    target = "pyteal.ast.substring.SubstringExpr.__teal__"

    def setup(self, ctx, I):
        options, string, version, LEN = self.common(ctx)
        a, s = self.mk_int(ctx, "start")
        b, e = self.mk_int(ctx, "end")
        this = stamp(SObj(self.M.SubstringExpr, {"stringArg": string, "startArg": a, "endArg": b}))
        ctx.ghost.update(s=s, e=e)
        return {"args": [this, options]}

    def post(self, ctx, I, outcome, st):
        s, e, LEN = ctx.ghost["s"], ctx.ghost["e"], ctx.ghost["LEN"]
        # documented: string[start:end]; end < start is rejected when compiled; Substring exists from version 2
        self.check(ctx, outcome, spec_fail=e > LEN, lo=s, hi=e, min_version_ok=None, reject_ok=e < s)


class ExtractConst(_Base):
    target = "pyteal.ast.substring.ExtractExpr.__teal__"

    def setup(self, ctx, I):
        options, string, version, LEN = self.common(ctx)
        a, s = self.mk_int(ctx, "start")
        b, l = self.mk_int(ctx, "length")
        this = stamp(SObj(self.M.ExtractExpr, {"stringArg": string, "startArg": a, "lenArg": b}))
        ctx.ghost.update(s=s, l=l)
        return {"args": [this, options]}

    def post(self, ctx, I, outcome, st):
        s, l, LEN, v = ctx.ghost["s"], ctx.ghost["l"], ctx.ghost["LEN"], ctx.ghost["version"]
        # documented: string[start:start+length], requires program version 5
        self.check(ctx, outcome, spec_fail=s + l > LEN, lo=s, hi=s + l, min_version_ok=None, reject_ok=v < 5)


class SuffixConst(_Base):
    target = "pyteal.ast.substring.SuffixExpr.__teal__"

    def setup(self, ctx, I):
        options, string, version, LEN = self.common(ctx)
        a, s = self.mk_int(ctx, "start")
        this = stamp(SObj(self.M.SuffixExpr, {"stringArg": string, "startArg": a}))
        ctx.ghost.update(s=s)
        return {"args": [this, options]}

    def post(self, ctx, I, outcome, st):
        s, LEN, v = ctx.ghost["s"], ctx.ghost["LEN"], ctx.ghost["version"]
        if outcome[0] == "raise":
            # documented: requires program version 5 (the implementation may accept more)
            ctx.oblige("rejected-only-below-v5", v < 5)
            return
        ems = ctx.ghost.get("emitted", [])
        start, end = outcome[1]
        if len(ems) == 1 and "emitted" in start.fields and str(ems[0].op.fields["op"]) == "extract":
            enc, fail, glo, ghi, opnd = self.meaning(ctx, ems[0], ctx.ghost["string"])
            ctx.oblige("op-exists-at-version", v >= 5)
            ctx.oblige("immediates-fit-uint8", enc)
            ctx.oblige("string-operand-first", opnd)
            ctx.oblige("fails-exactly-when-documented", fail == (s > LEN))
            ctx.oblige("denotes-the-documented-window", z3.Implies(s <= LEN, z3.And(glo == s, ghi == LEN)))
            return
        # stack form: string ; start ; then [dig 1; len; substring3]
        chain = []
        b = start
        while b is not None:
            chain.append(b)
            b = b.fields.get("nextBlock")
        ops = [str(o.fields["op"]) + "".join(" " + str(a) for a in o.fields["args"]) for blk in chain for o in blk.fields["ops"]]
        shape_ok = (len(chain) >= 3 and chain[0].fields.get("child") is ctx.ghost["string"]
                    and len(ems) == 1 and str(ems[0].op.fields["op"]) == "int" and ops == ["dig 1", "len", "substring3"])
        ctx.oblige("stack-form-is-string-start-dig1-len-substring3", z3.BoolVal(shape_ok),
                   detail="string, start, then dig 1; len; substring3  ==  string[start:len(string)], fails iff start > len")
        if shape_ok:
            ctx.oblige("start-constant-pushed", ems[0].op.fields["args"][0] == s)
