"""Contracts for pyteal/ast/widemath.py (property C16).

multiplyFactors(expr, factors, options)  -- symbolic number of factors n >= 0, loop invariant
WideRatio.__teal__                       -- uses multiplyFactors' contract at both call sites

Spec vocabulary (sequences over the factor list, for a fixed initial world w0):
  W(j)    world before evaluating factor j          W(0)=w0, W(j+1)=nwE(f_j, W(j))
  P(j)    product of the first j factor values      P(0)=1,  P(j+1)=P(j)*valE(f_j, W(j))
  AllN(j) the first j factors evaluate normally     AllN(0), AllN(j+1)=AllN(j) and kindE(f_j,W(j))==0
  Ovf(j)  some running product P(1..j) >= 2^128     Ovf(0)=false, Ovf(j+1)=Ovf(j) or P(j+1)>=2^128
  Abn(j)  outcome when not AllN(j): the first abnormal factor's outcome, or FAIL if a running product
          overflowed before it was reached
These are defined by recursion on j; only the unfoldings a proof step needs are instantiated.
"""
from __future__ import annotations

import z3

from pyvc.values import *  # noqa
from pyvc.engine import LoopSpec, Unsupported
from pyvc.verifier import Contract, stamp
from pyvc import fragsem
from pyvc.fragsem import World, kindE, nwE, valE, abnE, FAIL, FragState, ChildDen, run_chain
from spec.symavm import U64

U128 = 2 ** 128


class Seqs:
    """Spec sequences for one factor list evaluated from world w0."""

    def __init__(self, tag, facs: SList, w0):
        self.facs, self.w0 = facs, w0
        I_ = z3.IntSort()
        self.W = z3.Function(f"W_{tag}", I_, World)
        self.P = z3.Function(f"P_{tag}", I_, I_)
        self.AllN = z3.Function(f"AllN_{tag}", I_, z3.BoolSort())
        self.Ovf = z3.Function(f"Ovf_{tag}", I_, z3.BoolSort())
        self.Abn = z3.Function(f"Abn_{tag}", I_, I_)

    def base(self):
        return [self.W(0) == self.w0, self.P(0) == 1, self.AllN(0), z3.Not(self.Ovf(0))]

    def unfold(self, j):
        f = z3.Select(self.facs.arr, j)
        w = self.W(j)
        v = valE(f, w)
        return [
            self.W(j + 1) == nwE(f, w),
            self.P(j + 1) == self.P(j) * v,
            self.AllN(j + 1) == z3.And(self.AllN(j), kindE(f, w) == 0),
            self.Ovf(j + 1) == z3.Or(self.Ovf(j), self.P(j + 1) >= U128),
            self.Abn(j + 1) == z3.If(self.AllN(j), z3.If(self.Ovf(j), FAIL, abnE(f, w)), self.Abn(j)),
            z3.And(v >= 0, v < U64), abnE(f, w) >= 0,
        ]


class PrefixDen:
    """Summary of the chain built so far: 'the first j factors have been multiplied'."""

    def __init__(self, seqs: Seqs, j):
        self.s, self.j, self.end = seqs, j, None

    def apply(self, I, st: FragState):
        s, j = self.s, self.j
        if I.ctx.branch(s.AllN(j)):
            hi, lo = I.ctx.fresh_int("hi"), I.ctx.fresh_int("lo")
            st.world = s.W(j)
            st.avm.fail = z3.Or(st.avm.fail, s.Ovf(j))
            I.ctx.assume(z3.Implies(z3.Not(s.Ovf(j)), z3.And(hi >= 0, hi < U64, lo >= 0, lo < U64,
                                                               hi * U64 + lo == s.P(j))))
            st.avm.stack.push(hi)
            st.avm.stack.push(lo)
            return None
        return z3.If(st.avm.fail, FAIL, s.Abn(j))


def check_prefix(I, name, start, end_expected, seqs: Seqs, j, w0):
    """Obligations: running the chain from `start` realises 'first j factors multiplied'."""
    ctx = I.ctx
    st = FragState(w0)
    kind, res = run_chain(I, start, st)
    out = []
    if kind == "abnormal":
        out.append((f"{name}/abnormal-outcome", z3.And(z3.Not(seqs.AllN(j)), res == seqs.Abn(j))))
    elif kind == "normal":
        if res is not end_expected:
            out.append((f"{name}/end-is-last-block", z3.BoolVal(False)))
        items = st.avm.stack.items
        if len(items) != 2:
            out.append((f"{name}/pushes-two-words", z3.BoolVal(False)))
        else:
            hi, lo = items
            out.append((f"{name}/all-normal", seqs.AllN(j)))
            out.append((f"{name}/world", st.world == seqs.W(j)))
            out.append((f"{name}/fails-iff-running-product-overflows", st.avm.fail == seqs.Ovf(j)))
            out.append((f"{name}/value", z3.Implies(z3.Not(seqs.Ovf(j)),
                                                    z3.And(hi * U64 + lo == seqs.P(j), hi >= 0, hi < U64, lo >= 0, lo < U64))))
    else:
        out.append((f"{name}/no-{kind}", z3.BoolVal(False)))
    return out


def expr_teal_handler(TealSimpleBlock):
    def h(I, args, kwargs):
        recv = args[0]
        if not isinstance(recv, SRef):
            raise Unsupported("__teal__ on non-opaque receiver")
        return fragsem.make_opaque_fragment(I, ChildDen(recv.term, pushes=1), TealSimpleBlock)
    return h


class MultiplyFactors(Contract):
    target = "pyteal.ast.widemath.multiplyFactors"

    def __init__(self):
        import pyteal
        from pyteal.ast.expr import Expr
        from pyteal.ir import TealSimpleBlock
        from pyteal.errors import TealInternalError
        self.Expr, self.TSB = Expr, TealSimpleBlock
        self.raises_only = (TealInternalError,)
        self.callees = dict(fragsem.default_callees())
        self.callees[Expr.__dict__["__teal__"]] = expr_teal_handler(TealSimpleBlock)
        self.fields = {}
        self.var_kinds = {}
        self.loops = {("multiplyFactors", 0): LoopSpec(inv=self.inv0, havoc=self.havoc0)}

    def setup(self, ctx, I):
        facs = stamp(SList(REF(self.Expr), name="factors"))
        ctx.assume(facs.length >= 0)
        expr = SRef(z3.Int("expr"), self.Expr)
        ctx.assume(expr.term >= 0)
        j = z3.Int("jj")
        ctx.assume(z3.ForAll([j], z3.Select(facs.arr, j) >= 0))  # list elements are objects, not None
        w0 = z3.Const("w0", World)
        seqs = Seqs("f", facs, w0)
        for a in seqs.base():
            ctx.assume(a)
        options = stamp(SObj(object, {}))
        ctx.ghost.update(facs=facs, seqs=seqs, w0=w0)
        return {"args": [expr, facs, options]}

    # loop 0: `for factor in factors[2:]`, k iterations done  <=>  j = k + 2 factors multiplied
    def havoc0(self, ctx, env, it):
        seqs = ctx.ghost["seqs"]
        den = PrefixDen(seqs, it.k + 2)
        s, e = fragsem.make_opaque_fragment(ctx.ghost["I"], den, self.TSB)
        env["start"].fields["nextBlock"] = s
        env.set("end", e)

    def inv0(self, ctx, env, it):
        I = ctx.ghost["I"]
        seqs = ctx.ghost["seqs"]
        if it.phase == "iter":
            return []  # carried by the summary fragment installed by havoc0
        j = it.k + 2
        if it.phase == "init":
            for a in seqs.unfold(0) + seqs.unfold(1):
                ctx.assume(a)
        else:
            for a in seqs.unfold(j - 1):
                ctx.assume(a)
        return check_prefix(I, "prefix", env["start"], env["end"], seqs, j, ctx.ghost["w0"])

    def post(self, ctx, I, outcome, st):
        facs, seqs = ctx.ghost["facs"], ctx.ghost["seqs"]
        n = facs.length
        if outcome[0] == "raise":
            ctx.oblige("raises-only-when-no-factors", n == 0)
            return
        start, end = outcome[1]
        ctx.oblige("returns-only-when-some-factor", n >= 1)
        for a in seqs.unfold(0):
            ctx.assume(a)
        for name, f in check_prefix(I, "post", start, end, seqs, n, ctx.ghost["w0"]):
            ctx.oblige(name, f)


# ------------------------------------------------------------------------------------------------------
# WideRatio.__teal__ : verified against the *contract* of multiplyFactors (not its body)

class ProductSummary:
    """Callee contract of multiplyFactors as seen by a caller: abstract spec functions of the entry world."""

    def __init__(self, tag):
        I_ = z3.IntSort()
        self.tag = tag
        self.AllN = z3.Function(f"AllN_{tag}", World, z3.BoolSort())
        self.WN = z3.Function(f"WN_{tag}", World, World)
        self.PROD = z3.Function(f"PROD_{tag}", World, I_)
        self.OVF = z3.Function(f"OVF_{tag}", World, z3.BoolSort())
        self.ABN = z3.Function(f"ABN_{tag}", World, I_)
        self.end = None

    def apply(self, I, st: FragState):
        w = st.world
        if I.ctx.branch(self.AllN(w)):
            hi, lo = I.ctx.fresh_int("hi_" + self.tag), I.ctx.fresh_int("lo_" + self.tag)
            st.world = self.WN(w)
            I.ctx.assume(z3.Implies(z3.Not(self.OVF(w)), z3.And(hi >= 0, hi < U64, lo >= 0, lo < U64,
                                                                  hi * U64 + lo == self.PROD(w))))
            I.ctx.assume(self.PROD(w) >= 0)
            st.avm.fail = z3.Or(st.avm.fail, self.OVF(w))
            st.avm.stack.push(hi)
            st.avm.stack.push(lo)
            return None
        I.ctx.assume(self.ABN(w) >= -1)
        return z3.If(st.avm.fail, FAIL, self.ABN(w))


class WideRatioTeal(Contract):
    target = "pyteal.ast.widemath.WideRatio.__teal__"

    def __init__(self):
        from pyteal.ast import widemath
        from pyteal.ast.expr import Expr
        from pyteal.ir import TealSimpleBlock
        from pyteal.errors import TealInternalError, TealCompileError
        self.mod, self.Expr, self.TSB = widemath, Expr, TealSimpleBlock
        self.TealInternalError = TealInternalError
        self.raises_only = (TealCompileError,)
        self.callees = dict(fragsem.default_callees())
        self.callees[widemath.multiplyFactors] = self.mf_contract
        self.loops, self.fields, self.var_kinds = {}, {}, {}

    def mf_contract(self, I, args, kwargs):
        expr, facs, options = args
        ctx = I.ctx
        # precondition of the callee contract: at least one factor (else it raises TealInternalError)
        if ctx.branch(facs.length == 0):
            from pyvc.engine import RaiseSignal
            raise RaiseSignal(self.TealInternalError)
        tag = "num" if facs is ctx.ghost["num"] else ("den" if facs is ctx.ghost["den"] else None)
        if tag is None:
            raise Unsupported("multiplyFactors called on an unexpected list")
        ctx.ghost.setdefault("calls", []).append(tag)
        return fragsem.make_opaque_fragment(I, ctx.ghost["sum_" + tag], self.TSB)

    def setup(self, ctx, I):
        num = stamp(SList(REF(self.Expr), name="num"))
        den = stamp(SList(REF(self.Expr), name="den"))
        # class invariant established by WideRatio.__init__ (verified separately): both lists non-empty
        ctx.assume(z3.And(num.length >= 1, den.length >= 1))
        version = z3.Int("version")
        ctx.assume(z3.And(version >= 2, version <= 10))
        options = stamp(SObj(object, {"version": version}))
        this = stamp(SObj(self.mod.WideRatio, {"numeratorFactors": num, "denominatorFactors": den}))
        ctx.ghost.update(num=num, den=den, version=version, w0=z3.Const("w0", World),
                         sum_num=ProductSummary("num"), sum_den=ProductSummary("den"))
        return {"args": [this, options]}

    def post(self, ctx, I, outcome, st):
        v = ctx.ghost["version"]
        if outcome[0] == "raise":
            ctx.oblige("raises-only-below-v5", v < 5)
            return
        ctx.oblige("compiles-only-from-v5", v >= 5)
        start, end = outcome[1]
        w0 = ctx.ghost["w0"]
        sn, sd = ctx.ghost["sum_num"], ctx.ghost["sum_den"]
        w1 = sn.WN(w0)
        N, D = sn.PROD(w0), sd.PROD(w1)
        fs = FragState(w0)
        kind, res = run_chain(I, start, fs)
        if kind == "abnormal":
            spec = z3.If(z3.Not(sn.AllN(w0)), sn.ABN(w0), z3.If(sn.OVF(w0), FAIL, sd.ABN(w1)))
            ctx.oblige("abnormal-outcome-is-first-abnormal-factor", res == spec)
            ctx.oblige("abnormal-only-if-some-factor-abnormal", z3.Not(z3.And(sn.AllN(w0), sd.AllN(w1))))
        elif kind == "normal":
            ctx.oblige("end-is-last-block", z3.BoolVal(res is end))
            items = fs.avm.stack.items
            ctx.oblige("pushes-exactly-one-value", z3.BoolVal(len(items) == 1))
            if len(items) == 1:
                fails = z3.Or(sn.OVF(w0), sd.OVF(w1), D == 0, N / D >= U64)
                ctx.oblige("fails-iff-overflow-or-zero-divisor-or-wide-quotient", fs.avm.fail == fails)
                ctx.oblige("result-is-floor-quotient", z3.Implies(z3.Not(fails), items[0] == N / D))
                ctx.oblige("numerator-before-denominator-world", fs.world == sd.WN(w1))
                ctx.oblige("calls-in-order", z3.BoolVal(ctx.ghost.get("calls") == ["num", "den"]))
        else:
            ctx.oblige(f"no-{kind}", z3.BoolVal(False))


class WideRatioInit(Contract):
    """WideRatio.__init__: rejects empty factor lists and the 1/1 case; otherwise stores both lists."""
    target = "pyteal.ast.widemath.WideRatio.__init__"

    def __init__(self):
        from pyteal.ast import widemath
        from pyteal.ast.expr import Expr
        from pyteal.errors import TealInternalError
        self.mod, self.Expr = widemath, Expr
        self.raises_only = (TealInternalError,)
        self.callees = dict(fragsem.default_callees())
        self.callees[Expr.__dict__["__init__"]] = lambda I, args, kwargs: None  # trace / stack-frame bookkeeping only
        self.loops, self.fields, self.var_kinds = {}, {}, {}

    def setup(self, ctx, I):
        num = stamp(SList(REF(self.Expr), name="num"))
        den = stamp(SList(REF(self.Expr), name="den"))
        ctx.assume(z3.And(num.length >= 0, den.length >= 0))
        this = stamp(SObj(self.mod.WideRatio, {}))
        ctx.ghost.update(num=num, den=den, this=this)
        return {"args": [this, num, den]}

    def post(self, ctx, I, outcome, st):
        num, den, this = ctx.ghost["num"], ctx.ghost["den"], ctx.ghost["this"]
        bad = z3.Or(num.length == 0, den.length == 0, z3.And(num.length == 1, den.length == 1))
        if outcome[0] == "raise":
            ctx.oblige("rejects-only-degenerate-arity", bad)
        else:
            ctx.oblige("accepts-only-valid-arity", z3.Not(bad))
            ctx.oblige("stores-numerators", z3.BoolVal(this.fields.get("numeratorFactors") is num))
            ctx.oblige("stores-denominators", z3.BoolVal(this.fields.get("denominatorFactors") is den))
