"""Contract for pyteal.compiler.subroutines.spillLocalSlotsDuringRecursion (property C02, obligation O2.4).

Every op the real code appends to `before` / `after` is executed on a ghost AVM state whose stack is an SMT
array with symbolic height (ghost-on-append).  Per call site, for symbolic numArgs n >= 0, k = len(slots) >= 1
distinct local slots, both stack manipulators (cover/uncover from v5, dig in v4) and every return shape:

  pre-call :  stack = base ++ args[0..n)                       scratch = SC0
  at callsub: stack = base ++ spilled ++ args   (v4: base ++ args ++ spilled ++ args),  spilled[q] = SC0[slots[q]]
  callee   :  pops n, pushes r in {0,1} (r is a property of the *callee*), may clobber all scratch
  post     :  stack = base ++ result[0..r)   and   scratch[slots[q]] == SC0[slots[q]] for all q

The outer loops (per routine, per statement) carry no invariant: the call-site contract is proved for an
arbitrary routine / statement.  Statements that are not re-entrant calls must be emitted unchanged.
"""
from __future__ import annotations

import z3

from pyvc.values import *  # noqa
from pyvc.engine import LoopSpec, Unsupported, RaiseSignal
from pyvc.verifier import Contract, stamp
from pyvc import fragsem
from spec import symavm

IntArr = lambda name: z3.Array(fresh_name(name), z3.IntSort(), z3.IntSort())


def shape(stack: symavm.ArrStack, parts):
    """stack == concatenation of parts; part = (length, fn(i) -> value)."""
    off = 0
    cs = []
    for n, (ln, fn) in enumerate(parts):
        i = z3.Int(f"q{n}!")
        o = off
        cs.append(z3.ForAll([i], z3.Implies(z3.And(i >= o, i < o + ln), z3.Select(stack.arr, i) == fn(i - o))))
        off = off + ln
    cs.append(stack.h == off)
    return z3.And(*cs)


def shape_clauses(name, stack, parts, labels=None):
    """Same as shape(), one named clause per segment (smaller queries)."""
    off = 0
    out = []
    for n, (ln, fn) in enumerate(parts):
        i = z3.Int(f"q{n}!")
        o = off
        out.append((f"{name}/segment{n}", z3.ForAll([i], z3.Implies(z3.And(i >= o, i < o + ln),
                                                                    z3.Select(stack.arr, i) == fn(i - o)))))
        off = off + ln
    out.append((f"{name}/height", stack.h == off))
    return out


class AbsSet:
    """Abstract set attached to a key term (values of recursivePoints / localSlots)."""

    def __init__(self, tag, key, kind):
        self.tag, self.key, self.kind = tag, key, kind
        self.size = z3.Function(f"size_{tag}", z3.IntSort(), z3.IntSort())(key)
        self.mem = z3.Function(f"mem_{tag}", z3.IntSort(), z3.IntSort(), z3.BoolSort())

    def pyvc_len(self):
        return self.size

    def pyvc_bool(self):
        return self.size != 0

    def contains(self, t):
        return self.mem(self.key, t)

    def pyvc_contains(self, I, x):
        return self.contains(unwrap(x))

    def pyvc_method(self, I, name, args, kwargs, node):
        if name == "intersection":
            other = args[0]
            # `other` is the abstract result of getSubroutines(): at most one element
            if not isinstance(other, CalledList):
                raise Unsupported("intersection with unexpected operand")
            if I.ctx.branch(z3.And(other.length == 1, self.contains(other.elem.term))):
                return [other.elem]
            return []
        raise Unsupported(f"AbsSet.{name}")


class CalledList:
    """Result of TealComponent.getSubroutines(): a list of length 0 or 1 (contract precondition)."""

    def __init__(self, length, elem):
        self.length, self.elem = length, elem

    def pyvc_len(self):
        return self.length


class AbsDict:
    def __init__(self, tag, make_value):
        self.tag, self.make_value = tag, make_value
        self.stored = []

    def pyvc_method(self, I, name, args, kwargs, node):
        if name == "items":
            return AbsItems(self)
        raise Unsupported(f"AbsDict.{name}")

    def pyvc_index(self, I, idx, node):
        return self.make_value(I, idx)

    def pyvc_store(self, I, idx, v):
        self.stored.append((idx, v))
        I.ctx.ghost.setdefault("dict_stores", []).append((self.tag, idx, v))


class AbsItems:
    def __init__(self, d):
        self.d = d

    def pyvc_iter(self, I):
        n = z3.Int(fresh_name("nitems_" + self.d.tag))
        I.ctx.assume(n >= 0)
        keyf = z3.Function(f"key_{self.d.tag}", z3.IntSort(), z3.IntSort())
        d = self.d

        def get(k):
            kt = keyf(k)
            I.ctx.assume(kt >= 0)
            key = SRef(kt, I.ctx.ghost["SubDef"])
            return (key, d.make_value(I, key))
        return n, get


class GhostOps:
    """A list of TealComponents whose appended ops are executed on a ghost AVM state."""
    pyvc_mut_ok = False

    def __init__(self, name, contract, ctx):
        self.name, self.contract = name, contract
        self.state = None
        self.n_appended = 0  # python-side count since creation / havoc (only for the 'unchanged' check)
        self.havocked = False

    def ensure(self, I):
        if self.state is None:
            self.state = self.contract.init_state(I, self.name)
        return self.state

    def pyvc_havoc(self, ctx):
        self.havocked = True
        self.state = symavm.SymState(symavm.ArrStack(IntArr("stk"), z3.Int(fresh_name("h"))), IntArr("scr"))

    def exec(self, I, op):
        st = self.ensure(I)
        if not isinstance(op, SObj):
            raise Unsupported("ghost list: appended op is not a fresh TealOp")
        mn = str(op.fields["op"])
        symavm.step(st, mn, list(op.fields["args"]))
        for c in st.stack.side:
            I.ctx.oblige(f"{self.name}/no-stack-underflow", c, detail=f"{mn} stays within the caller-visible stack")
        st.stack.side = []
        self.n_appended += 1
        I.ctx.note_mut(self)

    def pyvc_method(self, I, name, args, kwargs, node):
        if name == "append":
            return self.exec(I, args[0])
        raise Unsupported(f"GhostOps.{name}")


class NewOps:
    """newOps: receives `before`, the statement, `after`; the call-site obligations are generated here."""

    def __init__(self, contract):
        self.contract = contract
        self.pyvc_mut_ok = True

    def pyvc_havoc(self, ctx):
        pass

    def pyvc_iadd(self, I, other):
        self.contract.on_concat(I, other)
        return self

    def pyvc_method(self, I, name, args, kwargs, node):
        if name == "append":
            self.contract.on_stmt(I, args[0])
            return None
        raise Unsupported(f"NewOps.{name}")


class Spill(Contract):
    target = "pyteal.compiler.subroutines.spillLocalSlotsDuringRecursion"
    max_paths = 3000

    def __init__(self):
        import pyteal
        from pyteal.compiler import subroutines
        from pyteal.ast import SubroutineDefinition
        from pyteal.ir import TealComponent, TealOp, Op
        from pyteal.errors import TealInputError
        from pyteal.types import TealType
        self.mod, self.SubDef, self.TealComponent, self.TealType = subroutines, SubroutineDefinition, TealComponent, TealType
        self.raises_only = (TealInputError,)
        self.callees = dict(fragsem.default_callees())
        self.callees[subroutines.findRecursionPoints] = self.c_findRecursionPoints
        self.callees[sorted] = self.c_sorted
        self.callees[TealComponent.__dict__["getSubroutines"]] = self.c_getSubroutines
        self.callees[SubroutineDefinition.__dict__["argument_count"]] = self.c_argument_count
        self.rt = z3.Function("rt", z3.IntSort(), z3.IntSort())  # 0 none, 1 uint64, 2 bytes
        self.argc = z3.Function("argc", z3.IntSort(), z3.IntSort())
        self.fields = {
            (SubroutineDefinition, "return_type"): self.f_return_type,
            (SubroutineDefinition, "has_abi_output"): BOOL,
            (SubroutineDefinition, "by_ref_args"): self.f_by_ref_args,
        }
        fn = "spillLocalSlotsDuringRecursion"
        self.var_kinds = {
            (fn, "before"): lambda ctx, v: GhostOps("before", self, ctx),
            (fn, "after"): lambda ctx, v: GhostOps("after", self, ctx),
            (fn, "newOps"): lambda ctx, v: NewOps(self),
        }
        T = lambda ctx, env, it: []
        self.loops = {
            (fn, 0): LoopSpec(inv=T, havoc=self.havoc0),
            (fn, 1): LoopSpec(inv=T),
            (fn, 2): LoopSpec(inv=T),
            (fn, 3): LoopSpec(inv=self.inv3),
            (fn, 4): LoopSpec(inv=self.inv4),
            (fn, 5): LoopSpec(inv=self.inv5),
            (fn, 6): LoopSpec(inv=self.inv6),
        }

    def havoc0(self, ctx, env, it):
        r = ctx.fresh_ref(self.SubDef, "recursive_byref")   # None (-1) or some routine
        ctx.assume(r.term >= -1)
        env.set("recursive_byref", r)

    # ---- abstract inputs -------------------------------------------------------------------------
    def setup(self, ctx, I):
        version = z3.Int("version")
        ctx.assume(z3.And(version >= 4, version <= 10))  # callsub exists from v4
        ctx.ghost["SubDef"] = self.SubDef
        graph = AbsDict("graph", lambda I, k: AbsSet("graph", unwrap(k), REF(self.SubDef)))
        mapping = AbsDict("mapping", self.mk_ops)
        localSlots = AbsDict("localSlots", lambda I, k: AbsSet("lslots", unwrap(k), INT))
        ctx.ghost.update(version=version, cs=None)
        return {"args": [version, mapping, graph, localSlots]}

    def mk_ops(self, I, key):
        l = stamp(SList(REF(self.TealComponent), name="ops"))
        I.ctx.assume(l.length >= 0)
        j = z3.Int("jops!")
        I.ctx.assume(z3.ForAll([j], z3.Select(l.arr, j) >= 0))
        return l

    def f_return_type(self, ctx, ref):
        I = ctx.ghost["I"]
        c = self.rt(ref.term)
        ctx.assume(z3.And(c >= 0, c <= 2))
        if ctx.branch(c == 0):
            return self.TealType.none
        if ctx.branch(c == 1):
            return self.TealType.uint64
        return self.TealType.bytes

    def f_by_ref_args(self, ctx, ref):
        return AbsSet("byref", ref.term, STR)

    def c_findRecursionPoints(self, I, args, kwargs):
        return AbsDict("recpoints", lambda I, k: AbsSet("reentry", unwrap(k), REF(self.SubDef)))

    def c_sorted(self, I, args, kwargs):
        src = args[0]
        if not isinstance(src, AbsSet):
            raise Unsupported("sorted() of unexpected operand")
        out = stamp(SList(INT, name="slots"))
        ctx = I.ctx
        ctx.assume(out.length == src.size)
        ctx.assume(out.length >= 0)
        a, b = z3.Ints("sa! sb!")
        # contract of sorted() on a set of ints: strictly increasing enumeration of the set (assumed, builtin)
        ctx.assume(z3.ForAll([a, b], z3.Implies(z3.And(0 <= a, a < b, b < out.length),
                                                z3.Select(out.arr, a) < z3.Select(out.arr, b))))
        # slot ids assigned by assignScratchSlotsToSubroutines lie in [0, 256)   (O10.2(e))
        ctx.assume(z3.ForAll([a], z3.Implies(z3.And(0 <= a, a < out.length),
                                             z3.And(z3.Select(out.arr, a) >= 0, z3.Select(out.arr, a) < 256))))
        return out

    def c_getSubroutines(self, I, args, kwargs):
        stmt = args[0]
        n = z3.Function("ncalled", z3.IntSort(), z3.IntSort())(stmt.term)
        # requires: a TealComponent references at most one subroutine (only `callsub X` does)
        I.ctx.assume(z3.And(n >= 0, n <= 1))
        callee = z3.Function("callee", z3.IntSort(), z3.IntSort())(stmt.term)
        I.ctx.assume(callee >= 0)
        return CalledList(n, SRef(callee, self.SubDef))

    def c_argument_count(self, I, args, kwargs):
        n = self.argc(args[0].term)
        I.ctx.assume(n >= 0)
        return n

    # ---- call-site ghost state -------------------------------------------------------------------------
    def callsite(self, I, env):
        """Create (once per path/iteration) the symbols describing the state in front of the call."""
        ctx = I.ctx
        cs = ctx.ghost.get("cs")
        if cs is not None and cs["slots"] is env["slots"] and cs.get("stmt") is env["stmt"]:
            return cs
        slots = env["slots"]
        callee = env["reentrySubroutineCall"]
        n = env["numArgs"]
        cs = {"slots": slots, "stmt": env["stmt"], "k": slots.length, "n": n, "callee": callee,
              "BASE": IntArr("BASE"), "hb": z3.Int(fresh_name("hb")), "ARGS": IntArr("ARGS"),
              "SC0": IntArr("SC0"), "SC1": IntArr("SC1"), "RES": z3.Int(fresh_name("RES"))}
        ctx.assume(cs["hb"] >= 0)
        heap_abi = I.engine.heap_read(ctx, callee, "has_abi_output", BOOL)
        # r is a property of the callee: it leaves a value iff it returns one or carries an ABI output
        cs["r1"] = z3.Or(self.rt(callee.term) != 0, heap_abi)
        cs["r"] = z3.If(cs["r1"], 1, 0)
        ctx.ghost["cs"] = cs
        return cs

    def parts(self, cs):
        base = (cs["hb"], lambda i: z3.Select(cs["BASE"], i))
        args = lambda a, b: (b - a, lambda i: z3.Select(cs["ARGS"], a + i))
        spilled = lambda a, b: (b - a, lambda i: z3.Select(cs["SC0"], z3.Select(cs["slots"].arr, a + i)))
        res = (cs["r"], lambda i: cs["RES"])
        return base, args, spilled, res

    def init_state(self, I, which):
        env = I.ctx.ghost["env"]
        cs = self.callsite(I, env)
        base, args, spilled, res = self.parts(cs)
        st = symavm.SymState(symavm.ArrStack(IntArr("stk"), z3.Int(fresh_name("h"))), None)
        if which == "before":
            st.scratch = cs["SC0"]
            I.ctx.assume(shape(st.stack, [base, args(0, cs["n"])]))
        else:
            st.scratch = cs["SC1"]
            dig = env["digArgs"]
            pre = [base] + ([args(0, cs["n"])] if dig else []) + [spilled(0, cs["k"]), res]
            I.ctx.assume(shape(st.stack, pre))
        return st

    def modes(self, env):
        return env["digArgs"], env["coverSpilledSlots"], env["uncoverArgs"]

    # ---- loop invariants -----------------------------------------------------------------------------------
    def inv3(self, ctx, env, it):
        I = ctx.ghost["I"]
        ctx.ghost["env"] = env
        cs = self.callsite(I, env)
        base, args, spilled, res = self.parts(cs)
        st = env["before"].ensure(I)
        dig, cover, uncover = self.modes(env)
        j, n = it.k, cs["n"]
        layout = [base, spilled(0, j), args(0, n)] if cover else [base, args(0, n), spilled(0, j)]
        return shape_clauses("stack", st.stack, layout) + [("scratch-unchanged", st.scratch == cs["SC0"])]

    def inv4(self, ctx, env, it):
        I = ctx.ghost["I"]
        ctx.ghost["env"] = env
        cs = self.callsite(I, env)
        base, args, spilled, res = self.parts(cs)
        st = env["before"].ensure(I)
        dig, cover, uncover = self.modes(env)
        m, n, k = it.k, cs["n"], cs["k"]
        if cover:
            layout = [base, spilled(0, k), args(0, n)]
        elif uncover:
            layout = [base, args(m, n), spilled(0, k), args(0, m)]
        else:
            layout = [base, args(0, n), spilled(0, k), args(0, m)]
        return shape_clauses("stack", st.stack, layout) + [("scratch-unchanged", st.scratch == cs["SC0"])]

    def restored(self, cs, st, lo):
        q = z3.Int("rq!")
        sl = cs["slots"].arr
        return z3.ForAll([q], z3.Implies(z3.And(q >= lo, q < cs["k"]),
                                         z3.Select(st.scratch, z3.Select(sl, q)) == z3.Select(cs["SC0"], z3.Select(sl, q))))

    def inv5(self, ctx, env, it):
        I = ctx.ghost["I"]
        ctx.ghost["env"] = env
        cs = self.callsite(I, env)
        base, args, spilled, res = self.parts(cs)
        st = env["after"].ensure(I)
        dig, cover, uncover = self.modes(env)
        t, n, k = it.k, cs["n"], cs["k"]
        hidden = env["hideReturnValueInFirstSlot"]
        pre = [base] + ([args(0, n)] if dig else [])
        if hidden is True:
            # the result sits in scratch[slots[0]] until slots[0] itself is restored (last iteration)
            active = t < k
            lay_active = pre + [spilled(0, k - t)]
            lay_done = pre + [res]
            return [("stack", z3.If(active, shape(st.stack, lay_active), shape(st.stack, lay_done))),
                    ("hidden-result", z3.Implies(active, z3.And(cs["r"] == 1,
                                                                 z3.Select(st.scratch, z3.Select(cs["slots"].arr, 0)) == cs["RES"]))),
                    ("restored", self.restored(cs, st, k - t))]
        # the result (if any) has been moved underneath the spilled values before the restores start
        return shape_clauses("stack", st.stack, pre + [res, spilled(0, k - t)]) + \
            [("restored", self.restored(cs, st, k - t))]

    def inv6(self, ctx, env, it):
        I = ctx.ghost["I"]
        ctx.ghost["env"] = env
        cs = self.callsite(I, env)
        base, args, spilled, res = self.parts(cs)
        st = env["after"].ensure(I)
        u, n = it.k, cs["n"]
        return shape_clauses("stack", st.stack, [base, args(0, n - u), res]) + \
            [("restored", self.restored(cs, st, 0))]

    # ---- obligations at the points where the statement list is reassembled --------------------------------
    def on_concat(self, I, other):
        ctx = I.ctx
        if not isinstance(other, GhostOps):
            raise Unsupported("newOps += unexpected value")
        env = ctx.ghost.get("env")
        if other.state is None and not other.havocked:
            return  # nothing was inserted: the statement is emitted unchanged
        cs = ctx.ghost["cs"]
        base, args, spilled, res = self.parts(cs)
        st = other.state
        if other.name == "before":
            dig = env["digArgs"]
            pre = [base] + ([args(0, cs["n"])] if dig else []) + [spilled(0, cs["k"]), args(0, cs["n"])]
            ctx.oblige("callsite/stack-at-callsub", shape(st.stack, pre),
                       detail="in front of callsub: caller stack, the spilled local slots, then the arguments in order")
            ctx.oblige("callsite/scratch-at-callsub", st.scratch == cs["SC0"])
            ctx.ghost["before_done"] = True
        else:
            ctx.oblige("callsite/stack-after-restore", shape(st.stack, [base, res]),
                       detail="after the restore sequence: caller stack plus exactly the callee's result(s)")
            ctx.oblige("callsite/local-slots-restored", self.restored(cs, st, 0),
                       detail="every local slot of the caller holds its pre-call value")

    def on_stmt(self, I, stmt):
        ctx = I.ctx
        env_before = None
        # `stmt` must be the statement of the current iteration; when ops were inserted it must be the re-entrant call
        ctx.oblige("callsite/statement-kept", z3.BoolVal(isinstance(stmt, SRef)))

    def post(self, ctx, I, outcome, st):
        if outcome[0] == "raise":
            return
