"""Contract for pyteal.ast.int.Int.__init__ (property C13, obligation O13.4): accepts exactly python ints in [0, 2^64)."""
from __future__ import annotations

import z3

from pyvc.values import *  # noqa
from pyvc.verifier import Contract, stamp


class IntInit(Contract):
    target = "pyteal.ast.int.Int.__init__"

    def __init__(self):
        from pyteal.ast.int import Int
        from pyteal.ast.leafexpr import LeafExpr
        from pyteal.ast.expr import Expr
        from pyteal.errors import TealInputError
        self.Int = Int
        self.raises_only = (TealInputError,)
        self.callees = {Expr.__dict__["__init__"]: lambda I, args, kwargs: None}
        self.fields, self.var_kinds, self.loops = {}, {}, {}

    def setup(self, ctx, I):
        v = z3.Int("value")
        this = stamp(SObj(self.Int, {}))
        ctx.ghost.update(v=v, this=this)
        return {"args": [this, v]}

    def post(self, ctx, I, outcome, st):
        v, this = ctx.ghost["v"], ctx.ghost["this"]
        if outcome[0] == "raise":
            ctx.oblige("rejects-only-out-of-range", z3.Or(v < 0, v >= 2 ** 64))
        else:
            ctx.oblige("accepts-only-uint64", z3.And(v >= 0, v < 2 ** 64))
            got = this.fields.get("value")
            ctx.oblige("stores-the-value", (got == v) if got is not None else z3.BoolVal(False))
