"""Contracts for OptimizeOptions (property C03, obligation O3.2): defaults by version, explicit requests honoured."""
from __future__ import annotations

import z3

from pyvc.values import *  # noqa
from pyvc.verifier import Contract, stamp


class _Base(Contract):
    def __init__(self):
        from pyteal.compiler.optimizer import OptimizeOptions
        from pyteal.errors import TealInputError
        self.OO = OptimizeOptions
        self.raises_only = (TealInputError,)
        self.callees, self.fields, self.var_kinds, self.loops = {}, {}, {}, {}

    def setup(self, ctx, I):
        version = z3.Int("version")
        ctx.assume(z3.And(version >= 2, version <= 10))
        # the request is None / True / False: three-way fork on an uninterpreted code
        code = z3.Int("request")
        ctx.assume(z3.And(code >= 0, code <= 2))
        req = None if ctx.branch(code == 0) else (True if ctx.branch(code == 1) else False)
        this = stamp(SObj(self.OO, {"_scratch_slots": req, "_frame_pointers": req, "_skip_slots": set()}))
        ctx.ghost.update(version=version, req=req)
        return {"args": [this, version]}


class OptimizeScratchSlots(_Base):
    target = "pyteal.compiler.optimizer.optimizer.OptimizeOptions.optimize_scratch_slots"

    def post(self, ctx, I, outcome, st):
        v, req = ctx.ghost["version"], ctx.ghost["req"]
        if outcome[0] == "raise":
            ctx.oblige("never-raises", False)
            return
        res = outcome[1]
        want = (v >= 9) if req is None else z3.BoolVal(req)   # documented: on by default from program version 9
        got = res if is_z3(res) else z3.BoolVal(bool(res))
        ctx.oblige("default-from-v9-else-as-requested", got == want)


class UseFramePointers(_Base):
    target = "pyteal.compiler.optimizer.optimizer.OptimizeOptions.use_frame_pointers"

    def post(self, ctx, I, outcome, st):
        v, req = ctx.ghost["version"], ctx.ghost["req"]
        if outcome[0] == "raise":
            ctx.oblige("rejects-only-explicit-request-below-v8", z3.And(z3.BoolVal(req is True), v < 8))
            return
        ctx.oblige("accepts-unless-explicit-request-below-v8", z3.Not(z3.And(z3.BoolVal(req is True), v < 8)))
        res = outcome[1]
        want = (v >= 8) if req is None else z3.BoolVal(req)   # documented: frame pointers by default from version 8
        got = res if is_z3(res) else z3.BoolVal(bool(res))
        ctx.oblige("default-from-v8-else-as-requested", got == want)
