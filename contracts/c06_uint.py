"""Contracts for the scalar uint codec helpers of pyteal/ast/abi/uint.py (property C06, obligation O6.17).

uint_set(size, var, value) with a python int `value` (every int, every supported width):
  * accepted  iff  0 <= value < 2^size           (the callee Int(...) is used by its proved contract O13.4: raises iff outside [0, 2^64))
  * accepted  =>   the result is `var.store(Int(value))` - the stored constant is the value itself, no run-time check needed
  * rejected  =>   TealInputError, nothing else
uint_set(size, var, value) with an expression `value` (an arbitrary Expr that is not an abi.Uint):
  * size == 64: `var.store(value)`;  size < 64: Seq(var.store(value), Assert(var.load() < Int(2^size))) - i.e. every run-time value >= 2^size
    makes the program fail (meaning of Seq / Assert / `<`: fragment catalogue, C01)
The width is forked over SUPPORTED_UINT_SIZES as read from the real module (E) and the value is symbolic (P).
"""
from __future__ import annotations

import z3

from pyvc.values import *  # noqa
from pyvc.verifier import Contract, stamp
from pyvc.engine import Unsupported, RaiseSignal


class _UintSet(Contract):
    target = "pyteal.ast.abi.uint.uint_set"

    def __init__(self):
        import pyteal as pt
        from pyteal.ast.abi import uint as U
        from pyteal.ast.abstractvar import AbstractVar
        from pyteal.errors import TealInputError
        self.pt, self.U, self.AbstractVar, self.TealInputError = pt, U, AbstractVar, TealInputError
        self.sizes = sorted(U.SUPPORTED_UINT_SIZES)
        if self.sizes != [8, 16, 32, 64]:
            raise Unsupported(f"SUPPORTED_UINT_SIZES is {self.sizes}")
        self.raises_only = (TealInputError,)
        self.fields, self.var_kinds, self.loops = {}, {}, {}
        self.callees = {
            pt.Int: self.c_int,
            pt.Seq: lambda I, args, kwargs: stamp(SObj(pt.Seq, {"args": list(args)})),
            pt.Assert: lambda I, args, kwargs: stamp(SObj(pt.Assert, {"cond": list(args)})),
            AbstractVar.__dict__["store"]: lambda I, args, kwargs: stamp(SObj(pt.ScratchStore, {"var": args[0], "value": args[1]})),
            AbstractVar.__dict__["load"]: lambda I, args, kwargs: stamp(SObj(pt.ScratchLoad, {"var": args[0]})),
        }
        for dunder, sym in (("__lt__", "<"), ("__le__", "<="), ("__gt__", ">"), ("__ge__", ">=")):
            self.callees[pt.Expr.__dict__[dunder]] = (lambda sym_: lambda I, args, kwargs: stamp(SObj(pt.BinaryExpr, {"op": sym_, "l": args[0], "r": args[1]})))(sym)

    def c_int(self, I, args, kwargs):
        """pyteal.Int(v) by its contract (contracts/c13_int.py, proved): TealInputError iff v outside [0, 2^64), else holds v"""
        v = args[0]
        bad = (v < 0 or v >= 2 ** 64) if isinstance(v, int) else z3.Or(v < 0, v >= 2 ** 64)
        if I.ctx.branch(bad):
            raise RaiseSignal(self.TealInputError, None)
        return stamp(SObj(self.pt.Int, {"value": v}))

    def fork_size(self, ctx):
        code = z3.Int("width_index")
        ctx.assume(z3.And(code >= 0, code < len(self.sizes)))
        for i, s in enumerate(self.sizes):
            if ctx.branch(code == i):
                return s
        raise Unsupported("unreachable width")


class UintSetInt(_UintSet):
    def setup(self, ctx, I):
        size = self.fork_size(ctx)
        v = z3.Int("value")
        var = SRef(z3.Int("uint_var"), self.AbstractVar)
        ctx.ghost.update(size=size, v=v, var=var)
        return {"args": [size, var, v]}

    def post(self, ctx, I, outcome, st):
        size, v, var = ctx.ghost["size"], ctx.ghost["v"], ctx.ghost["var"]
        if outcome[0] == "raise":
            ctx.oblige("rejects-only-values-outside-the-width", z3.Or(v < 0, v >= 2 ** size))
            return
        ctx.oblige("accepts-only-values-inside-the-width", z3.And(v >= 0, v < 2 ** size))
        res = outcome[1]
        ok = isinstance(res, SObj) and res.cls is self.pt.ScratchStore and res.fields["var"] is var \
            and isinstance(res.fields["value"], SObj) and res.fields["value"].cls is self.pt.Int
        ctx.oblige("result-is-a-plain-store-of-an-Int-constant-into-the-variable", z3.BoolVal(bool(ok)))
        if ok:
            ctx.oblige("the-stored-constant-is-the-value", res.fields["value"].fields["value"] == v)


class UintSetExpr(_UintSet):
    def setup(self, ctx, I):
        size = self.fork_size(ctx)
        e = SRef(z3.Int("value_expr"), self.pt.Expr)
        var = SRef(z3.Int("uint_var"), self.AbstractVar)
        ctx.ghost.update(size=size, e=e, var=var)
        self.callees[("type", self.pt.Expr)] = lambda I_, v: self.pt.Expr          # some Expr class: not int
        self.callees[("isinstance", self.pt.Expr)] = lambda I_, v, classes: False   # the case "not an abi.Uint" (that case: Uint.get())
        return {"args": [size, var, e]}

    def post(self, ctx, I, outcome, st):
        size, e, var = ctx.ghost["size"], ctx.ghost["e"], ctx.ghost["var"]
        pt = self.pt
        if outcome[0] == "raise":
            ctx.oblige("never-raises", z3.BoolVal(False))
            return
        res = outcome[1]

        def is_store(x):
            return isinstance(x, SObj) and x.cls is pt.ScratchStore and x.fields["var"] is var and x.fields["value"] is e
        if size == 64:
            ctx.oblige("width-64-stores-the-expression-unchecked", z3.BoolVal(bool(is_store(res))))
            return
        ok = isinstance(res, SObj) and res.cls is pt.Seq and len(res.fields["args"]) == 2 and is_store(res.fields["args"][0])
        ctx.oblige("narrow-width-result-is-Seq(store, ...)", z3.BoolVal(bool(ok)))
        if not ok:
            return
        a = res.fields["args"][1]
        shape = isinstance(a, SObj) and a.cls is pt.Assert and len(a.fields["cond"]) == 1
        c = a.fields["cond"][0] if shape else None
        shape = shape and isinstance(c, SObj) and c.cls is pt.BinaryExpr and c.fields["op"] == "<" \
            and isinstance(c.fields["l"], SObj) and c.fields["l"].cls is pt.ScratchLoad and c.fields["l"].fields["var"] is var \
            and isinstance(c.fields["r"], SObj) and c.fields["r"].cls is pt.Int
        ctx.oblige("followed-by-Assert(load-of-the-same-variable < Int(bound))", z3.BoolVal(bool(shape)))
        if shape:
            b = c.fields["r"].fields["value"]
            ctx.oblige("the-bound-is-2^width", (b == 2 ** size) if is_z3(b) else z3.BoolVal(b == 2 ** size))
