"""Contracts for the scalar uint codec helpers of pyteal/ast/abi/uint.py (property C06, obligation O6.17).

uint_set(size, var, value) with a python int `value` (every int, every supported width):
  * accepted  iff  0 <= value < 2^size           (the callee Int(...) is used by its proved contract O13.4: raises iff outside [0, 2^64))
  * accepted  =>   the result is `var.store(Int(value))` - the stored constant is the value itself, no run-time check needed
  * rejected  =>   TealInputError, nothing else
uint_set(size, var, value) with an expression `value` (an arbitrary Expr that is not an abi.Uint):
  * size == 64: `var.store(value)`;  size < 64: Seq(var.store(value), Assert(var.load() < Int(2^size))) - i.e. every run-time value >= 2^size
    makes the program fail (meaning of Seq / Assert / `<`: fragment catalogue, C01)
The width is forked over SUPPORTED_UINT_SIZES as read from the real module (E) and the value is symbolic (P).
"""
from __future__ import annotations

import z3

from pyvc.values import *  # noqa
from pyvc.verifier import Contract, stamp
from pyvc.engine import Unsupported, RaiseSignal


class _UintSet(Contract):
    target = "pyteal.ast.abi.uint.uint_set"

    def __init__(self):
        import pyteal as pt
        from pyteal.ast.abi import uint as U
        from pyteal.ast.abstractvar import AbstractVar
        from pyteal.errors import TealInputError
        self.pt, self.U, self.AbstractVar, self.TealInputError = pt, U, AbstractVar, TealInputError
        self.sizes = sorted(U.SUPPORTED_UINT_SIZES)
        if self.sizes != [8, 16, 32, 64]:
            raise Unsupported(f"SUPPORTED_UINT_SIZES is {self.sizes}")
        self.raises_only = (TealInputError,)
        self.fields, self.var_kinds, self.loops = {}, {}, {}
        self.callees = {
            pt.Int: self.c_int,
            pt.Seq: lambda I, args, kwargs: stamp(SObj(pt.Seq, {"args": list(args)})),
            pt.Assert: lambda I, args, kwargs: stamp(SObj(pt.Assert, {"cond": list(args)})),
            AbstractVar.__dict__["store"]: lambda I, args, kwargs: stamp(SObj(pt.ScratchStore, {"var": args[0], "value": args[1]})),
            AbstractVar.__dict__["load"]: lambda I, args, kwargs: stamp(SObj(pt.ScratchLoad, {"var": args[0]})),
        }
        for dunder, sym in (("__lt__", "<"), ("__le__", "<="), ("__gt__", ">"), ("__ge__", ">=")):
            self.callees[pt.Expr.__dict__[dunder]] = (lambda sym_: lambda I, args, kwargs: stamp(SObj(pt.BinaryExpr, {"op": sym_, "l": args[0], "r": args[1]})))(sym)

    def c_int(self, I, args, kwargs):
        """pyteal.Int(v) by its contract (contracts/c13_int.py, proved): TealInputError iff v outside [0, 2^64), else holds v"""
        v = args[0]
        bad = (v < 0 or v >= 2 ** 64) if isinstance(v, int) else z3.Or(v < 0, v >= 2 ** 64)
        if I.ctx.branch(bad):
            raise RaiseSignal(self.TealInputError, None)
        return stamp(SObj(self.pt.Int, {"value": v}))

    def fork_size(self, ctx):
        code = z3.Int("width_index")
        ctx.assume(z3.And(code >= 0, code < len(self.sizes)))
        for i, s in enumerate(self.sizes):
            if ctx.branch(code == i):
                return s
        raise Unsupported("unreachable width")


class UintSetInt(_UintSet):
    def setup(self, ctx, I):
        size = self.fork_size(ctx)
        v = z3.Int("value")
        var = SRef(z3.Int("uint_var"), self.AbstractVar)
        ctx.ghost.update(size=size, v=v, var=var)
        return {"args": [size, var, v]}

    def post(self, ctx, I, outcome, st):
        size, v, var = ctx.ghost["size"], ctx.ghost["v"], ctx.ghost["var"]
        if outcome[0] == "raise":
            ctx.oblige("rejects-only-values-outside-the-width", z3.Or(v < 0, v >= 2 ** size))
            return
        ctx.oblige("accepts-only-values-inside-the-width", z3.And(v >= 0, v < 2 ** size))
        res = outcome[1]
        ok = isinstance(res, SObj) and res.cls is self.pt.ScratchStore and res.fields["var"] is var \
            and isinstance(res.fields["value"], SObj) and res.fields["value"].cls is self.pt.Int
        ctx.oblige("result-is-a-plain-store-of-an-Int-constant-into-the-variable", z3.BoolVal(bool(ok)))
        if ok:
            ctx.oblige("the-stored-constant-is-the-value", res.fields["value"].fields["value"] == v)


class UintSetExpr(_UintSet):
    def setup(self, ctx, I):
        size = self.fork_size(ctx)
        e = SRef(z3.Int("value_expr"), self.pt.Expr)
        var = SRef(z3.Int("uint_var"), self.AbstractVar)
        ctx.ghost.update(size=size, e=e, var=var)
        self.callees[("type", self.pt.Expr)] = lambda I_, v: self.pt.Expr          # some Expr class: not int
        self.callees[("isinstance", self.pt.Expr)] = lambda I_, v, classes: False   # the case "not an abi.Uint" (that case: Uint.get())
        return {"args": [size, var, e]}

    def post(self, ctx, I, outcome, st):
        size, e, var = ctx.ghost["size"], ctx.ghost["e"], ctx.ghost["var"]
        pt = self.pt
        if outcome[0] == "raise":
            ctx.oblige("never-raises", z3.BoolVal(False))
            return
        res = outcome[1]

        def is_store(x):
            return isinstance(x, SObj) and x.cls is pt.ScratchStore and x.fields["var"] is var and x.fields["value"] is e
        if size == 64:
            if not is_store(res):
                raise Unsupported("uint_set(64, <expression>) returns a form this contract does not recognise")
            ctx.oblige("width-64-stores-the-expression", z3.BoolVal(True))
            return
        ok = isinstance(res, SObj) and res.cls is pt.Seq and len(res.fields["args"]) == 2 and is_store(res.fields["args"][0])
        if not ok:
            if is_store(res):
                ctx.oblige("narrow-width-store-is-followed-by-a-run-time-range-check", z3.BoolVal(False))
                return
            raise Unsupported("uint_set(<64, <expression>) returns a form this contract does not recognise")
        a = res.fields["args"][1]
        shape = isinstance(a, SObj) and a.cls is pt.Assert and len(a.fields["cond"]) == 1
        c = a.fields["cond"][0] if shape else None
        shape = shape and isinstance(c, SObj) and c.cls is pt.BinaryExpr and c.fields["op"] in ("<", "<=") \
            and isinstance(c.fields["l"], SObj) and c.fields["l"].cls is pt.ScratchLoad and c.fields["l"].fields["var"] is var \
            and isinstance(c.fields["r"], SObj) and c.fields["r"].cls is pt.Int
        if not shape:
            raise Unsupported("the run-time range check of uint_set has a form this contract does not recognise")
        b = c.fields["r"].fields["value"]
        bound = 2 ** size if c.fields["op"] == "<" else 2 ** size - 1
        ctx.oblige("run-time-check-admits-exactly-the-values-below-2^width", (b == bound) if is_z3(b) else z3.BoolVal(b == bound))


class _Codec(Contract):
    """Shared by uint_encode / uint_decode: every Expr constructor the two functions use is summarised as a constructor term
    (class + arguments); their meaning on the AVM is the fragment catalogue's (C01: itob, btoi, getbyte, setbyte, extract_uint16/32/64, suffix)."""

    def __init__(self):
        import pyteal as pt
        from pyteal.ast.abi import uint as U
        from pyteal.ast.abstractvar import AbstractVar
        self.pt, self.U, self.AbstractVar = pt, U, AbstractVar
        self.sizes = sorted(U.SUPPORTED_UINT_SIZES)
        if self.sizes != [8, 16, 32, 64]:
            raise Unsupported(f"SUPPORTED_UINT_SIZES is {self.sizes}")
        self.raises_only = ()
        self.fields, self.var_kinds, self.loops = {}, {}, {}
        self.callees = {
            AbstractVar.__dict__["store"]: lambda I, args, kwargs: stamp(SObj(pt.ScratchStore, {"var": args[0], "value": args[1]})),
            AbstractVar.__dict__["load"]: lambda I, args, kwargs: stamp(SObj(pt.ScratchLoad, {"var": args[0]})),
        }
        for name in ("Int", "Bytes", "Itob", "Btoi", "Suffix", "SetByte", "GetByte", "ExtractUint16", "ExtractUint32", "ExtractUint64"):
            self.callees[getattr(pt, name)] = (lambda n: lambda I, args, kwargs: stamp(SObj(getattr(pt, n), {"ctor": n, "args": list(args)})))(name)

    fork_size = _UintSet.fork_size

    @staticmethod
    def is_ctor(x, name, n):
        return isinstance(x, SObj) and x.fields.get("ctor") == name and len(x.fields["args"]) == n

    @staticmethod
    def same(x, ref):
        """x is the reference `ref` (the interpreter may re-wrap a reference when binding an annotated parameter: compare terms)"""
        if x is ref:
            return z3.BoolVal(True)
        if isinstance(x, SRef) and isinstance(ref, SRef):
            return x.term == ref.term
        return z3.BoolVal(False)

    @staticmethod
    def const(x):
        """value of an Int(...) constructor term, else None"""
        return x.fields["args"][0] if _Codec.is_ctor(x, "Int", 1) else None


class UintEncode(_Codec):
    """uint_encode(size, value) is the big-endian size/8-byte string of the value: the last size/8 bytes of itob(value)
    (for one byte alternatively setbyte(0x00, 0, value), which additionally fails for values > 255)."""
    target = "pyteal.ast.abi.uint.uint_encode"

    def setup(self, ctx, I):
        size = self.fork_size(ctx)
        e = SRef(z3.Int("value_expr"), self.pt.Expr)
        self.callees[("isinstance", self.pt.Expr)] = lambda I_, v, classes: False   # an expression, not a variable (that case: var.load())
        ctx.ghost.update(size=size, e=e)
        return {"args": [size, e]}

    def post(self, ctx, I, outcome, st):
        size, e = ctx.ghost["size"], ctx.ghost["e"]
        if outcome[0] == "raise":
            ctx.oblige("never-raises-for-a-supported-width", z3.BoolVal(False))
            return
        res = outcome[1]
        nbytes = size // 8
        if self.is_ctor(res, "Itob", 1):
            ctx.oblige("itob-alone-only-for-8-bytes", z3.BoolVal(nbytes == 8 and res.fields["args"][0] is e))
            return
        if self.is_ctor(res, "Suffix", 2):
            inner, k = res.fields["args"]
            good = self.is_ctor(inner, "Itob", 1) and inner.fields["args"][0] is e and self.const(k) is not None
            ctx.oblige("suffix-of-itob-of-the-value", z3.BoolVal(bool(good)))
            if good:
                kv = self.const(k)
                ctx.oblige("suffix-starts-at-8-minus-byte-width", (kv == 8 - nbytes) if is_z3(kv) else z3.BoolVal(kv == 8 - nbytes))
            return
        if self.is_ctor(res, "SetByte", 3):
            base, idx, v = res.fields["args"]
            good = nbytes == 1 and self.is_ctor(base, "Bytes", 1) and base.fields["args"][0] == b"\x00" and self.const(idx) == 0 and v is e
            ctx.oblige("setbyte-form-only-for-one-byte-into-a-single-zero-byte-at-index-0", z3.BoolVal(bool(good)))
            return
        # another way of writing the encoding: not decided here (undecided -> the native witness search on the spec AVM decides)
        raise Unsupported("uint_encode returns an expression form this contract does not recognise")


class UintDecode(_Codec):
    """uint_decode(size, var, encoded, start, end, length) stores into var the big-endian integer held in the size/8 bytes of `encoded`
    that begin at `start` (0 when start is None); for 64 bits without any index the whole string through btoi."""
    target = "pyteal.ast.abi.uint.uint_decode"

    def setup(self, ctx, I):
        size = self.fork_size(ctx)
        enc = SRef(z3.Int("encoded"), self.pt.Expr)
        var = SRef(z3.Int("uint_var"), self.AbstractVar)
        opts = []
        for nm in ("start_index", "end_index", "length"):
            present = z3.Bool("has_" + nm)
            if ctx.branch(present):
                t = z3.Int(nm)
                ctx.assume(t >= 0)      # a real object: references encode None as -1
                opts.append(SRef(t, self.pt.Expr))
            else:
                opts.append(None)
        ctx.ghost.update(size=size, enc=enc, var=var, opts=opts)
        return {"args": [size, var, enc] + opts}

    def post(self, ctx, I, outcome, st):
        size, enc, var, (start, end, length) = (ctx.ghost[k] for k in ("size", "enc", "var", "opts"))
        if outcome[0] == "raise":
            ctx.oblige("never-raises-for-a-supported-width", z3.BoolVal(False))
            return
        res = outcome[1]
        ok = isinstance(res, SObj) and res.cls is self.pt.ScratchStore and res.fields["var"] is var
        ctx.oblige("result-stores-into-the-variable", z3.BoolVal(bool(ok)))
        if not ok:
            return
        v = res.fields["value"]
        if self.is_ctor(v, "Btoi", 1):
            ctx.oblige("btoi-of-the-whole-string-only-for-64-bits-without-any-index",
                       z3.And(z3.BoolVal(size == 64 and start is None and end is None and length is None), self.same(v.fields["args"][0], enc)))
            return
        want = {8: "GetByte", 16: "ExtractUint16", 32: "ExtractUint32", 64: "ExtractUint64"}[size]
        good = self.is_ctor(v, want, 2)
        ctx.oblige("extraction-op-has-the-width-of-the-type-and-reads-the-encoded-string", z3.And(z3.BoolVal(bool(good)), self.same(v.fields["args"][0], enc) if good else z3.BoolVal(False)))
        if good:
            at = v.fields["args"][1]
            if start is None:
                c = self.const(at)
                ctx.oblige("reads-at-0-when-no-start-index-is-given", z3.BoolVal(False) if c is None else ((c == 0) if is_z3(c) else z3.BoolVal(c == 0)))
            else:
                ctx.oblige("reads-at-the-start-index", self.same(at, start))


# ---- abi.Bool scalar codec (pyteal/ast/abi/bool.py) -------------------------------------------------------------------------------
class _BoolCodec(_Codec):
    def __init__(self):
        super().__init__()
        pt = self.pt
        from pyteal.ast.abi.bool import Bool
        self.Bool = Bool
        for name in ("GetBit", "SetBit", "Not"):
            self.callees[getattr(pt, name)] = (lambda n: lambda I, args, kwargs: stamp(SObj(getattr(pt, n), {"ctor": n, "args": list(args)})))(name)
        self.callees[pt.Expr.__dict__["__mul__"]] = lambda I, args, kwargs: stamp(SObj(pt.NaryExpr, {"ctor": "Mul", "args": list(args)}))

    def this(self, ctx):
        t = z3.Int("stored_value")
        ctx.assume(t >= 0)
        var = SRef(t, self.AbstractVar)
        return stamp(SObj(self.Bool, {"_stored_value": var})), var

    def is_store(self, res, var):
        return isinstance(res, SObj) and res.cls is self.pt.ScratchStore and res.fields["var"] is var


class BoolDecode(_BoolCodec):
    """Bool.decode(encoded, start_index=s) stores getbit(encoded, s * 8) - the most significant bit of byte s, the ARC-4 position of a
    stand-alone bool - into the value's own variable; s = 0 when no start index is given. end_index / length are irrelevant."""
    target = "pyteal.ast.abi.bool.Bool.decode"

    def setup(self, ctx, I):
        this, var = self.this(ctx)
        e = z3.Int("encoded")
        ctx.assume(e >= 0)
        enc = SRef(e, self.pt.Expr)
        kw = {}
        for nm in ("start_index", "end_index", "length"):
            if ctx.branch(z3.Bool("has_" + nm)):
                t = z3.Int(nm)
                ctx.assume(t >= 0)
                kw[nm] = SRef(t, self.pt.Expr)
        ctx.ghost.update(var=var, enc=enc, start=kw.get("start_index"))
        return {"args": [this, enc], "kwargs": kw}

    def post(self, ctx, I, outcome, st):
        var, enc, start = ctx.ghost["var"], ctx.ghost["enc"], ctx.ghost["start"]
        if outcome[0] == "raise":
            ctx.oblige("never-raises", z3.BoolVal(False))
            return
        res = outcome[1]
        ok = self.is_store(res, var) and self.is_ctor(res.fields["value"], "GetBit", 2)
        if not ok:
            raise Unsupported("Bool.decode returns a form this contract does not recognise")
        src, bit = res.fields["value"].fields["args"]
        ctx.oblige("reads-the-encoded-string", self.same(src, enc))
        mul = self.is_ctor(bit, "Mul", 2)
        if not mul:
            raise Unsupported("the bit index of Bool.decode has a form this contract does not recognise")
        if mul:
            a, b = bit.fields["args"]
            if self.const(b) is None and self.const(a) is not None and start is not None:
                a, b = b, a      # 8 * start
            cb = self.const(b)
            ctx.oblige("byte-index-times-8", z3.BoolVal(False) if cb is None else ((cb == 8) if is_z3(cb) else z3.BoolVal(cb == 8)))
            if start is None:
                ca = self.const(a)
                ctx.oblige("byte-index-0-when-no-start-index", z3.BoolVal(False) if ca is None else ((ca == 0) if is_z3(ca) else z3.BoolVal(ca == 0)))
            else:
                ctx.oblige("byte-index-is-the-start-index", self.same(a, start))


class BoolEncode(_BoolCodec):
    """Bool.encode() = setbit(0x00, 0, value): one byte whose most significant bit is the value."""
    target = "pyteal.ast.abi.bool.Bool.encode"

    def setup(self, ctx, I):
        this, var = self.this(ctx)
        ctx.ghost.update(var=var)
        return {"args": [this]}

    def post(self, ctx, I, outcome, st):
        var = ctx.ghost["var"]
        if outcome[0] == "raise":
            ctx.oblige("never-raises", z3.BoolVal(False))
            return
        res = outcome[1]
        if not self.is_ctor(res, "SetBit", 3):
            raise Unsupported("Bool.encode returns a form this contract does not recognise")
        ok = True
        if ok:
            base, idx, v = res.fields["args"]
            ok = self.is_ctor(base, "Bytes", 1) and base.fields["args"][0] == b"\x00" and self.const(idx) == 0 \
                and isinstance(v, SObj) and v.cls is self.pt.ScratchLoad and v.fields["var"] is var
        ctx.oblige("setbit-of-a-single-zero-byte-at-bit-0-with-the-own-value", z3.BoolVal(bool(ok)))


# ---- _encode_bool_sequence (pyteal/ast/abi/bool.py): semantic loop contract ---------------------------------------------------------
I_ = z3.IntSort()
BITS = z3.Function("bitsOf", I_, z3.ArraySort(I_, z3.BoolSort()))   # denotation of a byte-string expression: bit j (AVM getbit order) is set
BLEN = z3.Function("byteLenOf", I_, I_)                              # ... and its length in bytes
TRUTH = z3.Function("truthOf", I_, z3.BoolSort())                    # a uint64 expression evaluates to non-zero
GETOF = z3.Function("getOf", I_, I_)                                 # Bool value -> the expression its get() returns
INTVAL = z3.Function("intValueOf", I_, I_)


class EncodeBoolSequence(Contract):
    """For every number n of Bool values: the returned expression denotes a byte string of ceil(n/8) bytes whose bit j (getbit order:
    most significant bit of byte 0 first - the ARC-4 packing) is the truth of values[j].get() for j < n and 0 for j >= n, and every
    setbit it executes addresses a bit inside the string (index < 8 * length: setbit fails otherwise).
    Callees by their AVM meaning (fragment catalogue / spec AVM): Bytes(0x00 * m) = m zero bytes; SetBit(b, Int(i), v) = b with bit i := truth(v),
    same length, defined iff i < 8 * len(b)."""
    target = "pyteal.ast.abi.bool._encode_bool_sequence"

    def __init__(self):
        import pyteal as pt
        from pyteal.ast.abi import bool as B
        from pyvc.interp import SymRepeat
        from pyvc.engine import LoopSpec
        self.pt, self.B, self.SymRepeat = pt, B, SymRepeat
        self.raises_only = ()
        self.fields, self.var_kinds = {}, {}
        self.inline_ok = ()
        self.callees = {pt.Bytes: self.c_bytes, pt.Int: self.c_int, pt.SetBit: self.c_setbit, B.Bool.__dict__["get"]: self.c_get}
        self.loops = {("_encode_bool_sequence", 0): LoopSpec(inv=self.inv)}

    def c_bytes(self, I, args, kwargs):
        a = args[0]
        if not (isinstance(a, self.SymRepeat) and a.unit == b"\x00"):
            raise Unsupported("Bytes(...) of something else than 0x00 * length")
        t = I.ctx.fresh_ref(self.pt.Expr, "zeros")
        j = z3.Int("jz!")
        I.ctx.assume(BLEN(t.term) == z3.If(a.count > 0, a.count, 0))
        I.ctx.assume(z3.ForAll([j], z3.Not(z3.Select(BITS(t.term), j))))
        return t

    def c_int(self, I, args, kwargs):
        t = I.ctx.fresh_ref(self.pt.Expr, "int")
        I.ctx.assume(INTVAL(t.term) == args[0])
        I.ctx.oblige("Int-constant-is-a-uint64", z3.And(args[0] >= 0, args[0] < 2 ** 64))
        return t

    def c_get(self, I, args, kwargs):
        return SRef(GETOF(args[0].term), self.pt.Expr)

    def c_setbit(self, I, args, kwargs):
        base, idx, val = args
        if not all(isinstance(x, SRef) for x in args):
            raise Unsupported("SetBit on non-reference operands")
        i = INTVAL(idx.term)
        I.ctx.oblige("setbit-index-lies-inside-the-string", z3.And(i >= 0, i < 8 * BLEN(base.term)))
        t = I.ctx.fresh_ref(self.pt.Expr, "setbit")
        I.ctx.assume(BLEN(t.term) == BLEN(base.term))
        I.ctx.assume(BITS(t.term) == z3.Store(BITS(base.term), i, TRUTH(val.term)))
        return t

    def setup(self, ctx, I):
        vals = stamp(SList(REF(self.B.Bool), name="values"))
        vals.frozen = True
        ctx.assume(z3.And(vals.length >= 0, vals.length <= 2 ** 63 - 1))    # a Python sequence: len() <= sys.maxsize (type invariant of the input)
        ctx.ghost.update(vals=vals)
        return {"args": [vals]}

    def spec(self, e, k, n_bytes, vals):
        j = z3.Int("jb!")
        want = z3.If(z3.And(j >= 0, j < k), TRUTH(GETOF(z3.Select(vals.arr, j))), z3.BoolVal(False))
        return [("length-is-ceil-n-over-8", z3.And(BLEN(e) == n_bytes, 8 * n_bytes >= vals.length, z3.Or(n_bytes == 0, 8 * (n_bytes - 1) < vals.length))),
                ("bit-j-is-value-j-and-later-bits-are-zero", z3.ForAll([j], z3.Select(BITS(e), j) == want))]

    def inv(self, ctx, env, it):
        vals = ctx.ghost["vals"]
        e = env["expr"]
        if not isinstance(e, SRef):
            raise Unsupported("expr is not an expression reference")
        return self.spec(e.term, it.k, env["length"], vals)

    def post(self, ctx, I, outcome, st):
        vals = ctx.ghost["vals"]
        if outcome[0] != "return":
            ctx.oblige("never-raises", z3.BoolVal(False))
            return
        r = outcome[1]
        if not isinstance(r, SRef):
            raise Unsupported("result is not an expression reference")
        for name, g in self.spec(r.term, vals.length, BLEN(r.term), vals):
            ctx.oblige(name, g)


class BoolSetLiteral(_BoolCodec):
    """Bool.set(<python bool>) stores Int(1) for True and Int(0) for False into the value's own variable."""
    target = "pyteal.ast.abi.bool.Bool.set"

    def setup(self, ctx, I):
        this, var = self.this(ctx)
        v = z3.Bool("value")
        ctx.ghost.update(var=var, v=v)
        return {"args": [this, v]}

    def post(self, ctx, I, outcome, st):
        var, v = ctx.ghost["var"], ctx.ghost["v"]
        if outcome[0] == "raise":
            ctx.oblige("never-raises", z3.BoolVal(False))
            return
        res = outcome[1]
        c = self.const(res.fields["value"]) if self.is_store(res, var) else None
        ctx.oblige("stores-an-Int-constant-into-the-own-variable", z3.BoolVal(c is not None))
        if c is not None:
            ctx.oblige("the-constant-is-1-for-True-and-0-for-False", (c if is_z3(c) else z3.IntVal(c)) == z3.If(v, 1, 0))


class BoolSetExpr(_BoolCodec):
    """Bool.set(<expression>) stores Not(Not(e)): every non-zero value becomes 1, so the variable always holds 0 or 1."""
    target = "pyteal.ast.abi.bool.Bool.set"

    def setup(self, ctx, I):
        this, var = self.this(ctx)
        t = z3.Int("value_expr")
        ctx.assume(t >= 0)
        e = SRef(t, self.pt.Expr)
        self.callees[("type", self.pt.Expr)] = lambda I_, x: self.pt.Expr
        self.callees[("isinstance", self.pt.Expr)] = lambda I_, x, classes: False    # neither a ComputedValue nor an ABI value: a plain expression
        ctx.ghost.update(var=var, e=e)
        return {"args": [this, e]}

    def post(self, ctx, I, outcome, st):
        var, e = ctx.ghost["var"], ctx.ghost["e"]
        if outcome[0] == "raise":
            ctx.oblige("never-raises", z3.BoolVal(False))
            return
        res = outcome[1]
        ok = self.is_store(res, var) and self.is_ctor(res.fields["value"], "Not", 1) and self.is_ctor(res.fields["value"].fields["args"][0], "Not", 1)
        if not ok:
            if self.is_store(res, var) and res.fields["value"] is e:
                ctx.oblige("an-expression-value-is-normalised-to-0-or-1-before-it-is-stored", z3.BoolVal(False))
                return
            raise Unsupported("Bool.set(<expression>) returns a form this contract does not recognise")
        ctx.oblige("stores-Not(Not(.))-of-the-given-expression", self.same(res.fields["value"].fields["args"][0].fields["args"][0], e))


# ---- linking contracts: the Uint methods hand their own width and their own variable to the helpers above ---------------------------
class _UintLink(Contract):
    method = ""

    def __init__(self):
        import pyteal as pt
        from pyteal.ast.abi import uint as U
        from pyteal.ast.abstractvar import AbstractVar
        self.pt, self.U, self.AbstractVar = pt, U, AbstractVar
        self.raises_only = ()
        self.fields, self.var_kinds, self.loops = {}, {}, {}
        self.calls = []
        self.callees = {}
        for name in ("uint_set", "uint_decode", "uint_encode"):
            self.callees[getattr(U, name)] = (lambda n: lambda I, args, kwargs: self.record(I, n, args, kwargs))(name)

    def record(self, I, name, args, kwargs):
        if kwargs:
            raise Unsupported("helper called with keyword arguments")
        I.ctx.ghost.setdefault("calls", []).append((name, list(args)))
        return SRef(z3.Int("helper_result"), self.pt.Expr)

    def this(self, ctx):
        t, n = z3.Int("stored_value"), z3.Int("bit_size")
        ctx.assume(t >= 0)
        ctx.assume(z3.Or(*[n == k for k in sorted(self.U.SUPPORTED_UINT_SIZES)]))     # invariant of UintTypeSpec (its __init__ refuses anything else)
        var = SRef(t, self.AbstractVar)
        spec = stamp(SObj(self.U.UintTypeSpec, {"size": n}))
        ctx.ghost.update(var=var, n=n, calls=[])
        return stamp(SObj(self.U.Uint, {"_stored_value": var, "_type_spec": spec})), var

    def ref(self, ctx, nm):
        t = z3.Int(nm)
        ctx.assume(t >= 0)
        return SRef(t, self.pt.Expr)

    def check(self, ctx, outcome, helper, want):
        if outcome[0] == "raise":
            ctx.oblige("never-raises", z3.BoolVal(False))
            return
        calls = ctx.ghost["calls"]
        ok = len(calls) == 1 and calls[0][0] == helper and len(calls[0][1]) == len(want)
        ctx.oblige(f"exactly-one-call-of-{helper}-whose-result-is-returned", z3.BoolVal(bool(ok and isinstance(outcome[1], SRef))))
        if not ok:
            return
        ctx.oblige("returns-the-helper-result", outcome[1].term == z3.Int("helper_result"))
        for (label, w), got in zip(want, calls[0][1]):
            if isinstance(w, str) and w == "skip":
                continue
            if w is None:
                g = z3.BoolVal(got is None)
            elif is_z3(w):
                g = (got == w) if is_z3(got) or isinstance(got, int) else z3.BoolVal(False)
            else:
                g = _Codec.same(got, w)
            ctx.oblige(f"argument-{label}", g)


class UintEncodeLink(_UintLink):
    target = "pyteal.ast.abi.uint.Uint.encode"

    def setup(self, ctx, I):
        this, var = self.this(ctx)
        return {"args": [this]}

    def post(self, ctx, I, outcome, st):
        self.check(ctx, outcome, "uint_encode", [("own-bit-size", ctx.ghost["n"]), ("own-variable", ctx.ghost["var"])])


class UintDecodeLink(_UintLink):
    target = "pyteal.ast.abi.uint.Uint.decode"

    def setup(self, ctx, I):
        this, var = self.this(ctx)
        enc = self.ref(ctx, "encoded")
        kw = {}
        for nm in ("start_index", "end_index", "length"):
            if ctx.branch(z3.Bool("has_" + nm)):
                kw[nm] = self.ref(ctx, nm)
        ctx.ghost.update(enc=enc, kw=kw)
        return {"args": [this, enc], "kwargs": kw}

    def post(self, ctx, I, outcome, st):
        kw = ctx.ghost["kw"]
        # end_index / length only matter to uint_decode through "is any of them given" (its contract O7.9): demanding positional identity
        # would flag a harmless swap, so the clause is stated at that level
        self.check(ctx, outcome, "uint_decode", [("own-bit-size", ctx.ghost["n"]), ("own-variable", ctx.ghost["var"]), ("encoded", ctx.ghost["enc"]),
                                                  ("start-index", kw.get("start_index")), ("end-index", "skip"), ("length", "skip")])
        calls = ctx.ghost["calls"]
        if outcome[0] != "raise" and len(calls) == 1 and len(calls[0][1]) == 6:
            ge, gl = calls[0][1][4], calls[0][1][5]
            given = kw.get("end_index") is not None or kw.get("length") is not None
            ctx.oblige("end-or-length-reach-the-helper-iff-the-caller-gave-one", z3.BoolVal((ge is not None or gl is not None) == given))
            for g in (ge, gl):
                if g is not None:
                    ctx.oblige("what-reaches-the-helper-as-end-or-length-is-one-of-the-caller's", z3.Or(*[_Codec.same(g, kw[k]) for k in ("end_index", "length") if k in kw]) if given else z3.BoolVal(False))


class UintSetLink(_UintLink):
    """value: a python int or a plain expression (neither ComputedValue nor ABI value; those branches: bounded copy matrix, C19 O19.4)"""
    target = "pyteal.ast.abi.uint.Uint.set"

    def setup(self, ctx, I):
        this, var = self.this(ctx)
        if ctx.branch(z3.Bool("value_is_python_int")):
            v = z3.Int("value")
        else:
            v = self.ref(ctx, "value_expr")
            self.callees[("isinstance", self.pt.Expr)] = lambda I_, x, classes: False
        ctx.ghost.update(v=v)
        return {"args": [this, v]}

    def post(self, ctx, I, outcome, st):
        self.check(ctx, outcome, "uint_set", [("own-bit-size", ctx.ghost["n"]), ("own-variable", ctx.ghost["var"]), ("the-value", ctx.ghost["v"])])


class UintSetFromUint(_UintLink):
    """Uint.set(<another abi.Uint of width m>) on a value of width n: rejected with TealInputError iff m != n; otherwise uint_set(n, own variable, that value).
    (uint_set stores a Uint's get() without a run-time check: sound only because the widths are equal - this clause - and because every store
    into a Uint's variable is range-checked - O6.17 / O6.18 and the decoders, which read exactly N/8 bytes.)"""
    target = "pyteal.ast.abi.uint.Uint.set"

    def __init__(self):
        super().__init__()
        from pyteal.errors import TealInputError
        self.raises_only = (TealInputError,)

    def setup(self, ctx, I):
        this, var = self.this(ctx)
        m, t2 = z3.Int("other_bit_size"), z3.Int("other_stored_value")
        ctx.assume(t2 >= 0)
        ctx.assume(z3.Or(*[m == k for k in sorted(self.U.SUPPORTED_UINT_SIZES)]))
        other = stamp(SObj(self.U.Uint, {"_stored_value": SRef(t2, self.AbstractVar), "_type_spec": stamp(SObj(self.U.UintTypeSpec, {"size": m}))}))
        ctx.ghost.update(m=m, other=other)
        return {"args": [this, other]}

    def post(self, ctx, I, outcome, st):
        n, m, other = ctx.ghost["n"], ctx.ghost["m"], ctx.ghost["other"]
        if outcome[0] == "raise":
            ctx.oblige("rejects-only-a-different-width", m != n)
            return
        ctx.oblige("accepts-only-the-same-width", m == n)
        calls = ctx.ghost["calls"]
        ok = len(calls) == 1 and calls[0][0] == "uint_set" and len(calls[0][1]) == 3 and calls[0][1][2] is other and calls[0][1][1] is ctx.ghost["var"]
        ctx.oblige("hands-own-variable-and-that-value-to-uint_set", z3.BoolVal(bool(ok)))
        if ok:
            ctx.oblige("with-the-own-bit-size", calls[0][1][0] == n)
