"""Region contract for the slot numbering in pyteal.compiler.scratchslots.assignScratchSlotsToSubroutines (properties C10, C11).

Region: from the function entry to (excluding) the loop `for start in subroutineBlocks.values():` that writes the numbers into the ops.
`collectScratchSlots` is a callee (summary: returns some set of global slots and some per-routine sets); `allSlots` is then an
arbitrary finite set of ScratchSlot objects - the numbering is proved for every such set.

Requires (established by ScratchSlot.__init__, contract O10.1):  a reserved slot's id is in [0, 256); ids are integers.
Ensures at the end of the region, unless TealInternalError was raised:
  (total)      every slot of allSlots has a number
  (identity)   a reserved slot is numbered with its requested id
  (injective)  two different slots of allSlots never get the same number
  (no-clash)   duplicate requested ids were rejected: reserved slots of allSlots have pairwise different ids
  (non-neg)    every number is >= 0
  (dense)      every index below the scan position is taken (a reserved id or an automatic number): automatic numbers fill the
               gaps left by the reserved ids from 0 upwards, in ascending order of the slots' ids  -> the numbering is a function of
               the (id, reserved) pairs alone (C11)
  (order)      automatic numbers are handed out in ascending id order
Raises TealInternalError only for a duplicate requested id or more than 256 slots, or when a routine's validateSlots reports errors.
  (bound)      every number is < 256: the program is rejected when allSlots has more than 256 elements, and the scan position never
               exceeds |allSlots| - 1 - by the pigeonhole lemma `scan_position_lt_card` (lemmas/Pigeonhole.lean, Lean 4 + Mathlib,
               re-checked by ./check C10), whose hypothesis (every index below the scan position is the number of a slot other than
               the current one) is discharged here from the ghost witnesses.
Summaries: `sorted(allSlots, key=lambda slot: slot.id)` = a duplicate-free enumeration of the set in non-decreasing id order (syntactic
guard); `start.validateSlots(slotsInUse=global_slots)` = the C17 contract's result list (only its emptiness matters here) - the callee
hook checks that it is given exactly the global slot set.
"""
from __future__ import annotations

import ast

import z3

from pyvc.values import *  # noqa
from pyvc.engine import LoopSpec, Unsupported, Closure
from pyvc.verifier import Contract, stamp

I_ = z3.IntSort()
B_ = z3.BoolSort()
F = "assignScratchSlotsToSubroutines"


class Pairs:
    """subroutineBlocks.items(): an arbitrary finite sequence of (routine, start block) pairs"""

    def __init__(self, contract):
        self.c = contract
        self.n = z3.Int(fresh_name("nroutines"))
        self.subs = z3.Array(fresh_name("routine"), I_, I_)
        self.starts = z3.Array(fresh_name("start"), I_, I_)

    def pyvc_iter(self, I):
        I.ctx.assume(self.n >= 0)
        return self.n, (lambda k: (SRef(z3.Select(self.subs, k), object), SRef(z3.Select(self.starts, k), self.c.TealBlock)))


class Blocks:
    def __init__(self, contract):
        self.pairs = Pairs(contract)

    def pyvc_method(self, I, name, args, kwargs, node):
        if name == "items":
            return self.pairs
        raise Unsupported(f"subroutineBlocks.{name}")


class ErrorList:
    def __init__(self):
        self.n = z3.Int(fresh_name("nerrors"))

    def pyvc_len(self):
        return self.n

    def pyvc_index(self, I, idx, node):
        return SRef(z3.Int(fresh_name("err")), object)


class AssignSlots(Contract):
    target = "pyteal.compiler.scratchslots.assignScratchSlotsToSubroutines"
    max_paths = 3000

    def __init__(self):
        from pyteal.compiler import scratchslots as S
        from pyteal.ast import ScratchSlot
        from pyteal.ir import TealBlock
        from pyteal.errors import TealInternalError
        self.S, self.ScratchSlot, self.TealBlock = S, ScratchSlot, TealBlock
        if S.NUM_SLOTS != 256:
            raise Unsupported("NUM_SLOTS is not 256")
        self.raises_only = (TealInternalError,)
        self.inline_ok = ()
        self.fields = {(ScratchSlot, "id"): INT, (ScratchSlot, "isReservedSlot"): BOOL}
        self.callees = {
            S.collectScratchSlots: self.c_collect,
            TealBlock.__dict__["validateSlots"]: self.c_validate,
            sorted: self.c_sorted,
        }
        self.var_kinds = {
            (F, "allSlots"): self.mk_all,
            (F, "slotAssignments"): self.mk_assign,
            (F, "slotIds"): self.mk_ids,
        }
        self.loops = {
            (F, 0): LoopSpec(inv=self.inv_dups, modifies=("slotIds",), ghost_step=self.step_dups, havoc=self.havoc_dups),
            (F, 1): LoopSpec(inv=lambda ctx, env, it: []),
            (F, 2): LoopSpec(inv=self.inv_number, modifies=("slotIds", "slotAssignments"), ghost_step=self.step_number, havoc=self.havoc_number),
            (F, 3): LoopSpec(inv=self.inv_scan),
        }

    # ---- region end ------------------------------------------------------------------------------------------------------
    def cut_before(self, s, fr):
        return isinstance(s, ast.For) and fr.fn_name == F and ast.unparse(s.iter) == "subroutineBlocks.values()"

    # ---- ghosts -------------------------------------------------------------------------------------------------------------
    def mk_all(self, ctx, v):
        s = stamp(SSet(REF(self.ScratchSlot), name="allSlots"))
        ctx.assume(s.card >= 0)
        m = z3.Int("ms!")
        idf, resf = self.heap(ctx)
        ctx.assume(z3.ForAll([m], z3.Implies(z3.Select(s.member, m), z3.And(m >= 0, z3.Implies(z3.Select(resf, m), z3.And(z3.Select(idf, m) >= 0, z3.Select(idf, m) < 256))))))
        ctx.ghost["all"] = s
        return s

    def heap(self, ctx):
        I = ctx.ghost["I"]
        idf = I.engine._heap(ctx, "id", INT)["id"]
        resf = I.engine._heap(ctx, "isReservedSlot", BOOL)["isReservedSlot"]
        return idf, resf

    def mk_assign(self, ctx, v):
        d = stamp(SDict(INT, INT, name="slotAssignments"))
        k = z3.Int("ka!")
        ctx.assume(z3.ForAll([k], z3.Not(z3.Select(d.has, k))))
        return d

    def mk_ids(self, ctx, v):
        s = stamp(SSet(INT, member=z3.K(I_, z3.BoolVal(False)), name="slotIds"))
        ctx.assume(s.card == 0)
        return s

    def c_collect(self, I, args, kwargs):
        g = stamp(SSet(REF(self.ScratchSlot), name="global_slots"))
        I.ctx.ghost["global"] = g

        class LocalDict:
            def pyvc_method(self_, I2, name, a, kw, node):
                if name == "values":
                    return []
                raise Unsupported(f"local_slots.{name}")
        return (g, LocalDict())

    def c_validate(self, I, args, kwargs):
        if kwargs.get("slotsInUse") is not I.ctx.ghost.get("global") or len(args) != 1 or set(kwargs) != {"slotsInUse"}:
            raise Unsupported("validateSlots is not called with slotsInUse=global_slots")
        return ErrorList()

    def c_sorted(self, I, args, kwargs):
        ctx = I.ctx
        s = args[0]
        key = kwargs.get("key")
        ok = s is ctx.ghost.get("all") and len(args) == 1 and set(kwargs) == {"key"} and isinstance(key, Closure)
        if ok:
            node = key.node
            ok = isinstance(node, ast.Lambda) and len(node.args.args) == 1 and ast.unparse(node.body) == f"{node.args.args[0].arg}.id"
        if not ok:
            raise Unsupported("sorted(...) is not `sorted(allSlots, key=lambda slot: slot.id)`")
        idf, _ = self.heap(ctx)
        L = stamp(SList(REF(self.ScratchSlot), name="sortedSlots"))
        L.frozen = True
        pos = z3.Function(fresh_name("sortedPos"), I_, I_)
        i, j, m = z3.Int(fresh_name("qi")), z3.Int(fresh_name("qj")), z3.Int(fresh_name("qm"))
        el = lambda x: z3.Select(L.arr, x)
        ctx.assume(z3.And(L.length >= 0, L.length == s.card))
        ctx.assume(z3.ForAll([i], z3.Implies(z3.And(i >= 0, i < L.length), z3.And(z3.Select(s.member, el(i)), pos(el(i)) == i))))
        ctx.assume(z3.ForAll([m], z3.Implies(z3.Select(s.member, m), z3.And(pos(m) >= 0, pos(m) < L.length, el(pos(m)) == m))))
        ctx.assume(z3.ForAll([i, j], z3.Implies(z3.And(i >= 0, i <= j, j < L.length), z3.Select(idf, el(i)) <= z3.Select(idf, el(j)))))
        ctx.ghost["sorted"] = L
        return L

    def setup(self, ctx, I):
        return {"args": [Blocks(self)]}

    # ---- loop 0: duplicate requested ids ---------------------------------------------------------------------------------
    def havoc_dups(self, ctx, env, it):
        ctx.ghost["w0"] = z3.Array(fresh_name("resWitness"), I_, I_)

    def step_dups(self, ctx, env, it, broke):
        idf, resf = self.heap(ctx)
        slot = env["slot"].term
        if "w0" in ctx.ghost:
            ctx.ghost["w0"] = z3.If(z3.Select(resf, slot), z3.Store(ctx.ghost["w0"], z3.Select(idf, slot), it.k), ctx.ghost["w0"])

    def inv_dups(self, ctx, env, it):
        idf, resf = self.heap(ctx)
        ids = env["slotIds"]
        seq = ctx.ghost["__set_enum__"][id(ctx.ghost["all"])] if it.phase != "init" or "__set_enum__" in ctx.ghost else None
        if "w0" not in ctx.ghost:
            ctx.ghost["w0"] = z3.Array("resWitness0", I_, I_)
        w0 = ctx.ghost["w0"]
        E = lambda x: z3.Select(seq.arr, x)
        i, j, x = z3.Int("i0!"), z3.Int("j0!"), z3.Int("x0!")
        k = it.k
        return [
            ("requested-ids-seen-are-recorded", z3.ForAll([i], z3.Implies(z3.And(i >= 0, i < k, z3.Select(resf, E(i))), z3.Select(ids.member, z3.Select(idf, E(i)))))),
            ("recorded-ids-come-from-a-reserved-slot", z3.ForAll([x], z3.Implies(z3.Select(ids.member, x), z3.And(z3.Select(w0, x) >= 0, z3.Select(w0, x) < k, z3.Select(resf, E(z3.Select(w0, x))),
                                                                                                                z3.Select(idf, E(z3.Select(w0, x))) == x)))),
            ("requested-ids-pairwise-different", z3.ForAll([i, j], z3.Implies(z3.And(i >= 0, i < j, j < k, z3.Select(resf, E(i)), z3.Select(resf, E(j))),
                                                                                z3.Select(idf, E(i)) != z3.Select(idf, E(j))))),
        ]

    # ---- loop 2 / 3: numbering -----------------------------------------------------------------------------------------------
    def havoc_number(self, ctx, env, it):
        ctx.ghost["auto"] = z3.Array(fresh_name("autoNumbers"), I_, B_)
        ctx.ghost["wa"] = z3.Array(fresh_name("autoWitness"), I_, I_)
        ctx.ghost["wa_pre"] = ctx.ghost["wa"]                       # loop-head values, used by the pigeonhole hypothesis
        ctx.ghost["asg_pre"] = env["slotAssignments"].val

    def step_number(self, ctx, env, it, broke):
        _, resf = self.heap(ctx)
        slot = env["slot"].term
        ctx.ghost["auto"] = z3.If(z3.Select(resf, slot), ctx.ghost["auto"], z3.Store(ctx.ghost["auto"], env["nextSlotIndex"], z3.BoolVal(True)))
        ctx.ghost["wa"] = z3.If(z3.Select(resf, slot), ctx.ghost["wa"], z3.Store(ctx.ghost["wa"], env["nextSlotIndex"], it.k))

    def reserved_facts(self, ctx, RES):
        """what loop 0 established about the whole set (stated over the set, not over its enumeration)"""
        idf, resf = self.heap(ctx)
        al = ctx.ghost["all"]
        a, b = z3.Int("ra!"), z3.Int("rb!")
        return [("reserved-ids-recorded", z3.ForAll([a], z3.Implies(z3.And(z3.Select(al.member, a), z3.Select(resf, a)), z3.Select(RES, z3.Select(idf, a))))),
                ("reserved-ids-pairwise-different", z3.ForAll([a, b], z3.Implies(z3.And(z3.Select(al.member, a), z3.Select(al.member, b), a != b, z3.Select(resf, a), z3.Select(resf, b)),
                                                                                  z3.Select(idf, a) != z3.Select(idf, b))))]

    def inv_number(self, ctx, env, it):
        idf, resf = self.heap(ctx)
        ids, asg, nxt = env["slotIds"], env["slotAssignments"], env["nextSlotIndex"]
        S = ctx.ghost["sorted"]
        if it.phase == "init":
            ctx.ghost["RES"] = ids.member          # the requested ids recorded by loop 0
            ctx.ghost["auto"] = z3.K(I_, z3.BoolVal(False))
            ctx.ghost["wa"] = z3.K(I_, z3.IntVal(-1))
            # which reserved slot requested id x: read off loop 0's witness (definition of a ghost array)
            seq0 = ctx.ghost["__set_enum__"][id(ctx.ghost["all"])]
            rw = z3.Array("reservedSlotOfId", I_, I_)
            xx = z3.Int("rwx!")
            ctx.assume(z3.ForAll([xx], z3.Select(rw, xx) == z3.Select(seq0.arr, z3.Select(ctx.ghost["w0"], xx))))
            ctx.ghost["rw"] = rw
        RES, AUTO, WA, RW = ctx.ghost["RES"], ctx.ghost["auto"], ctx.ghost["wa"], ctx.ghost["rw"]
        al = ctx.ghost["all"]
        if it.phase == "preserved":
            # pigeonhole (lemmas/Pigeonhole.lean, scan_position_lt_card): if every index below the scan position is the number of a slot of
            # allSlots other than the current one, the scan position is at most |allSlots| - 1.   T = allSlots, cur = the slot just numbered,
            # num = requested id for reserved slots / assigned number otherwise, witness a(x) = the reserved slot with id x or the
            # processed automatic slot numbered x.
            cur = z3.Select(S.arr, it.k - 1)
            xh = z3.Int("phx!")
            a_of = z3.If(z3.Select(RES, xh), z3.Select(RW, xh), z3.Select(S.arr, z3.Select(ctx.ghost["wa_pre"], xh)))
            vnum = lambda a: z3.If(z3.Select(resf, a), z3.Select(idf, a), z3.Select(ctx.ghost["asg_pre"], a))
            hyp = z3.ForAll([xh], z3.Implies(z3.And(xh >= 0, xh < nxt), z3.And(z3.Select(al.member, a_of), a_of != cur, vnum(a_of) == xh)))
            is_auto = z3.Not(z3.Select(resf, cur))
            ctx.oblige("assignScratchSlotsToSubroutines/loop2/pigeonhole-hypothesis-holds-when-an-automatic-number-is-handed-out",
                       z3.Implies(is_auto, z3.And(hyp, z3.Select(al.member, cur))))
            ctx.assume(z3.Implies(z3.And(is_auto, hyp, z3.Select(al.member, cur)), nxt + 1 <= al.card))     # conclusion of the Lean lemma
        el = lambda x: z3.Select(S.arr, x)
        num = lambda s: z3.Select(asg.val, s)
        i, j, x = z3.Int("i2!"), z3.Int("j2!"), z3.Int("x2!")
        k = it.k
        out = self.reserved_facts(ctx, RES) + [
            ("scan-position-non-negative", nxt >= 0),
            ("taken-numbers-are-requested-or-automatic", z3.ForAll([x], z3.Select(ids.member, x) == z3.Or(z3.Select(RES, x), z3.Select(AUTO, x)))),
            ("automatic-numbers-avoid-requested-ids", z3.ForAll([x], z3.Not(z3.And(z3.Select(RES, x), z3.Select(AUTO, x))))),
            ("dense-below-scan-position", z3.ForAll([x], z3.Implies(z3.And(x >= 0, x < nxt), z3.Select(ids.member, x)))),
            ("automatic-numbers-at-most-scan-position", z3.ForAll([x], z3.Implies(z3.Select(AUTO, x), z3.And(x >= 0, x <= nxt)))),
            ("requested-ids-have-their-slot", z3.ForAll([x], z3.Implies(z3.Select(RES, x), z3.And(z3.Select(al.member, z3.Select(RW, x)), z3.Select(resf, z3.Select(RW, x)),
                                                                                                     z3.Select(idf, z3.Select(RW, x)) == x)))),
            ("automatic-numbers-have-their-slot", z3.ForAll([x], z3.Implies(z3.Select(AUTO, x), z3.And(z3.Select(WA, x) >= 0, z3.Select(WA, x) < k, z3.Not(z3.Select(resf, el(z3.Select(WA, x)))),
                                                                                                       num(el(z3.Select(WA, x))) == x)))),
            ("at-most-256-slots", al.card <= 256),
            ("numbered-so-far", z3.ForAll([i], z3.Implies(z3.And(i >= 0, i < k), z3.And(
                z3.Select(asg.has, el(i)), z3.Select(ids.member, num(el(i))), num(el(i)) < 256,
                z3.If(z3.Select(resf, el(i)), num(el(i)) == z3.Select(idf, el(i)), z3.Select(AUTO, num(el(i)))))))),
            ("injective-so-far", z3.ForAll([i, j], z3.Implies(z3.And(i >= 0, i < j, j < k), num(el(i)) != num(el(j))))),
            ("automatic-numbers-ascend", z3.ForAll([i, j], z3.Implies(z3.And(i >= 0, i < j, j < k, z3.Not(z3.Select(resf, el(i))), z3.Not(z3.Select(resf, el(j)))), num(el(i)) < num(el(j))))),
        ]
        return out

    def spos(self, ctx):
        if "spos" not in ctx.ghost:
            ctx.ghost["spos"] = z3.Function("processedPos", I_, I_)
        return ctx.ghost["spos"]

    def inv_scan(self, ctx, env, it):
        ids, nxt = env["slotIds"], env["nextSlotIndex"]
        x = z3.Int("x3!")
        return [("scan-position-non-negative", nxt >= 0),
                ("dense-below-scan-position", z3.ForAll([x], z3.Implies(z3.And(x >= 0, x < nxt), z3.Select(ids.member, x))))]

    # ---- postcondition at the end of the region -----------------------------------------------------------------------------------
    def at_cut(self, ctx, I, fr):
        idf, resf = self.heap(ctx)
        al = ctx.ghost["all"]
        asg = fr.lookup("slotAssignments")
        a, b = z3.Int("pa!"), z3.Int("pb!")
        num = lambda s: z3.Select(asg.val, s)
        mem = lambda s: z3.Select(al.member, s)
        ctx.oblige("post/total", z3.ForAll([a], z3.Implies(mem(a), z3.Select(asg.has, a))))
        ctx.oblige("post/identity-on-requested-ids", z3.ForAll([a], z3.Implies(z3.And(mem(a), z3.Select(resf, a)), num(a) == z3.Select(idf, a))))
        ctx.oblige("post/injective", z3.ForAll([a, b], z3.Implies(z3.And(mem(a), mem(b), a != b), num(a) != num(b))))
        ctx.oblige("post/non-negative", z3.ForAll([a], z3.Implies(mem(a), num(a) >= 0)))
        ctx.oblige("post/every-number-below-256", z3.ForAll([a], z3.Implies(mem(a), num(a) < 256)))
        ctx.oblige("post/automatic-numbers-in-id-order", z3.ForAll([a, b], z3.Implies(z3.And(mem(a), mem(b), z3.Not(z3.Select(resf, a)), z3.Not(z3.Select(resf, b)),
                                                                                           z3.Select(idf, a) < z3.Select(idf, b)), num(a) < num(b))))

    def post(self, ctx, I, outcome, st):
        if outcome[0] == "return":
            raise Unsupported("the region end was not reached before the function returned")
