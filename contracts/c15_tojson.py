"""Region contract for R3SourceMap.to_json (property C15: "the Revision-3 JSON encoding decodes back to the same line and column
associations") - the delta bookkeeping, for every map (any number of lines, segments per line, sources, names).

Region: from the function entry up to (excluding) the statement that assembles the `encoded` dict; the two nested loops.
The segments handed to `_base64vlq_encode` are run through the *specified* Revision-3 decoder state machine (ghost):
     per generated line: column accumulator starts at 0;   source index / source line / source column / name index accumulate
     over the whole map, starting at 0;   a segment [dc] or [dc, ds, dl, dcol] or [dc, ds, dl, dcol, dn] adds its deltas
and for every segment the decoded absolute values must be the entry's own:
     generated column == col;   (source index, line, column) == (index given to the entry's source, entry.source_line,
     entry.source_column) when the entry has a source - a 1-field segment exactly when it has none;   name index == the index given to
     the entry's name when it has one - a 5-field segment exactly then.
Together with the VLQ contracts (c15_vlq: every integer list survives encode/decode) this gives the round trip of the associations up
to the string plumbing (";" / "," joins, the JSON dict, `sources` / `names` lists in index order - bounded stand-in).
`autoindex` (first-seen numbering of sources / names) is summarised: key -> IDX(key), an arbitrary function; that `sources` is listed in
that index order is checked by the bounded part (independent decoder on generated programs: seeded change C15-01 lives there).
"""
from __future__ import annotations

import ast

import z3

from pyvc.values import *  # noqa
from pyvc.engine import LoopSpec, Unsupported
from pyvc.verifier import Contract, stamp

I_ = z3.IntSort()
B_ = z3.BoolSort()
NCOLS = z3.Function("segmentsInLine", I_, I_)
COL = z3.Function("columnOf", I_, I_, I_)
ENT = z3.Function("entryAt", I_, I_, I_)
SIDX = z3.Function("indexOfSource", I_, I_)
NIDX = z3.Function("indexOfName", I_, I_)
F = "R3SourceMap.to_json"


class Mapping_:
    pass


class AutoIndex:
    def __init__(self, fn):
        self.fn = fn

    def pyvc_index(self, I, key, node):
        return self.fn(unwrap(key))


class Cols:
    def __init__(self, line):
        self.line = line

    def pyvc_iter(self, I):
        I.ctx.assume(NCOLS(self.line) >= 0)
        return NCOLS(self.line), (lambda p: COL(self.line, p))


class Lines:
    def __init__(self, n):
        self.n = n

    def pyvc_iter(self, I):
        return self.n, (lambda l: Cols(l))


class Entries:
    def __init__(self, c):
        self.c = c

    def pyvc_index(self, I, key, node):
        if not (isinstance(key, tuple) and len(key) == 2):
            raise Unsupported("entries[...] is not indexed by (line, column)")
        l, c = key
        # the index lists exactly the columns that have an entry: find which position this column has
        g = I.ctx.ghost
        if g.get("cur_line") is None or unwrap(l) is not g["cur_line"] and not z3.eq(z3.simplify(unwrap(l) - g["cur_line"]), z3.IntVal(0)):
            raise Unsupported("entries indexed with another line than the one being walked")
        return SRef(ENT(g["cur_line"], g["cur_pos"]), Mapping_)


class GList:
    """ghost for `mapping`, `mappings`, `content`: only the fact that something was appended matters"""

    def __init__(self, name):
        self.name = name
        self.length = z3.IntVal(0)
        stamp(self)

    def pyvc_havoc(self, ctx):
        self.length = z3.Int(fresh_name(self.name + "_len"))

    def pyvc_method(self, I, name, args, kwargs, node):
        if name == "append":
            self.length = self.length + 1
            I.ctx.note_mut(self)
            return None
        raise Unsupported(f"{self.name}.{name}")

    def pyvc_len(self):
        return self.length

    def __iter__(self):          # ",".join(mapping): the text itself is not modelled
        return iter(())


class ToJson(Contract):
    target = "pyteal.compiler.sourcemap.R3SourceMap.to_json"
    max_paths = 4000

    def __init__(self):
        from pyteal.compiler import sourcemap as SM
        self.SM = SM
        self.raises_only = (AssertionError,)
        self.inline_ok = ()
        none_field = lambda ctx, ref: None
        self.fields = {
            (SM.R3SourceMap, "entries"): lambda ctx, ref: Entries(self), (SM.R3SourceMap, "index"): lambda ctx, ref: Lines(ctx.ghost["nlines"]),
            (Mapping_, "source"): REF(object, optional=True), (Mapping_, "name"): REF(object, optional=True),
            (Mapping_, "source_line"): INT, (Mapping_, "source_column"): INT, (Mapping_, "source_content"): none_field,
        }
        self.callees = {SM.autoindex: self.c_autoindex, SM._base64vlq_encode: self.c_encode}
        self.var_kinds = {(F, "mapping"): lambda ctx, v: GList("mapping"), (F, "mappings"): lambda ctx, v: GList("mappings"), (F, "content"): lambda ctx, v: GList("content")}
        self.loops = {(F, 0): LoopSpec(inv=self.inv_lines, modifies=("mappings", "content"), havoc=self.havoc_lines),
                      (F, 1): LoopSpec(inv=self.inv_cols, modifies=("mapping", "content"), havoc=self.havoc_cols)}

    def cut_before(self, s, fr):
        return isinstance(s, ast.Assign) and fr.fn_name == F and isinstance(s.targets[0], ast.Name) and s.targets[0].id == "encoded"

    def at_cut(self, ctx, I, fr):
        ctx.oblige("region-end-reached", z3.BoolVal(True))

    def c_autoindex(self, I, args, kwargs):
        g = I.ctx.ghost
        n = g.get("autoindex_count", 0)
        g["autoindex_count"] = n + 1
        if n > 1:
            raise Unsupported("more than two autoindex() tables")
        return AutoIndex(SIDX if n == 0 else NIDX)       # `sources, names = autoindex(), autoindex()`

    # ---- the specified decoder, run on every emitted segment --------------------------------------------------------------
    def c_encode(self, I, args, kwargs):
        ctx = I.ctx
        g = ctx.ghost
        ds = list(args)
        D = g["dec"]
        e = ENT(g["cur_line"], g["cur_pos"])
        heap = lambda name, kind: I.engine._heap(ctx, name, kind)[name]
        src, nm = z3.Select(heap("source", REF(object, optional=True)), e), z3.Select(heap("name", REF(object, optional=True)), e)
        sl, sc = z3.Select(heap("source_line", INT), e), z3.Select(heap("source_column", INT), e)
        has_src, has_name = src != NONE_REF, nm != NONE_REF
        tag = f"to_json/segment"
        ctx.oblige(f"{tag}/field-count-is-1-4-or-5", z3.BoolVal(len(ds) in (1, 4, 5)))
        if len(ds) not in (1, 4, 5):
            return "<vlq>"
        D["gcol"] = D["gcol"] + ds[0]
        ctx.oblige(f"{tag}/generated-column-decodes-to-the-entry-column", D["gcol"] == COL(g["cur_line"], g["cur_pos"]))
        ctx.oblige(f"{tag}/source-fields-present-iff-the-entry-has-a-source", z3.BoolVal(len(ds) >= 4) == has_src)
        if len(ds) >= 4:
            D["spos"], D["sline"], D["scol"] = D["spos"] + ds[1], D["sline"] + ds[2], D["scol"] + ds[3]
            ctx.oblige(f"{tag}/source-decodes-to-the-entry-source", z3.And(D["spos"] == SIDX(src), D["sline"] == sl, D["scol"] == sc))
        ctx.oblige(f"{tag}/name-field-present-iff-the-entry-has-a-name", z3.BoolVal(len(ds) == 5) == z3.And(has_src, has_name))
        if len(ds) == 5:
            D["npos"] = D["npos"] + ds[4]
            ctx.oblige(f"{tag}/name-decodes-to-the-entry-name", D["npos"] == NIDX(nm))
        return "<vlq>"

    # ---- entry ---------------------------------------------------------------------------------------------------------------
    def setup(self, ctx, I):
        me = SRef(z3.Int("self"), self.SM.R3SourceMap)
        n = z3.Int("nlines")
        ctx.assume(n >= 0)
        ctx.ghost.update(nlines=n, dec={"gcol": z3.IntVal(0), "spos": z3.IntVal(0), "sline": z3.IntVal(0), "scol": z3.IntVal(0), "npos": z3.IntVal(0)}, cur_line=None, cur_pos=None)
        return {"args": [me]}

    def fresh_dec(self, ctx, keep_gcol=None):
        D = ctx.ghost["dec"]
        for k in ("spos", "sline", "scol", "npos", "gcol"):
            D[k] = z3.Int(fresh_name("dec_" + k))

    def state_eq(self, ctx, env, with_gcol):
        D = ctx.ghost["dec"]
        cl = [D["spos"] == env["spos"], D["sline"] == env["sline"], D["scol"] == env["scol"], D["npos"] == env["npos"]]
        if with_gcol:
            cl.append(D["gcol"] == env["gcol"])
        return z3.And(*cl)

    def havoc_lines(self, ctx, env, it):
        self.fresh_dec(ctx)
        ctx.ghost["cur_line"] = it.k

    def inv_lines(self, ctx, env, it):
        ctx.ghost["cur_line"] = it.k
        return [("decoder-state-equals-the-running-values", self.state_eq(ctx, env, False))]

    def havoc_cols(self, ctx, env, it):
        self.fresh_dec(ctx)
        ctx.ghost["cur_pos"] = it.k

    def inv_cols(self, ctx, env, it):
        g = ctx.ghost
        g["cur_pos"] = it.k
        if it.phase == "init":
            g["dec"]["gcol"] = z3.IntVal(0)          # the decoder's column accumulator restarts on every generated line
        return [("decoder-state-equals-the-running-values", self.state_eq(ctx, env, True))]

    def post(self, ctx, I, outcome, st):
        if outcome[0] == "return":
            raise Unsupported("the region end was not reached before the function returned")
