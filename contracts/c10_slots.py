"""Contracts for ScratchSlot.__init__ (property C10, obligation O10.1)."""
from __future__ import annotations

import z3

from pyvc.values import *  # noqa
from pyvc.verifier import Contract, stamp


class ScratchSlotInit(Contract):
    """Requested id in [0,256) is kept and flagged reserved, other ids are rejected; automatic ids come from the
    class counter, which is strictly increased, so that two automatic slots never share an id (G-ids preserved)."""
    target = "pyteal.ast.scratch.ScratchSlot.__init__"

    def __init__(self):
        from pyteal.ast.scratch import ScratchSlot
        from pyteal.errors import TealInputError
        self.SS = ScratchSlot
        self.raises_only = (TealInputError,)
        self.callees, self.fields, self.var_kinds, self.loops = {}, {}, {}, {}

    def setup(self, ctx, I):
        # the class attribute nextSlotId is modelled as a ghost cell read/written through the real class object
        n0 = z3.Int("nextSlotId0")
        ctx.assume(n0 >= 256)   # invariant of the counter (initial value NUM_SLOTS, only reset to values >= 256 by the package)
        self.saved = self.SS.nextSlotId
        holder = _ClassCell(self.SS, n0)
        ctx.ghost.update(n0=n0, holder=holder)
        req = z3.Int("requestedSlotId")
        is_none = ctx.branch(z3.Bool("requested_is_None"))
        this = stamp(SObj(self.SS, {}))
        ctx.ghost.update(req=req, is_none=is_none, this=this)
        I.engine.class_cells = {(self.SS, "nextSlotId"): holder}
        return {"args": [this, None if is_none else req]}

    def post(self, ctx, I, outcome, st):
        g = ctx.ghost
        req, this, n0, holder = g["req"], g["this"], g["n0"], g["holder"]
        if outcome[0] == "raise":
            ctx.oblige("rejects-only-ids-outside-0..255", z3.And(z3.BoolVal(not g["is_none"]), z3.Or(req < 0, req >= 256)))
            return
        sid, res = this.fields.get("id"), this.fields.get("isReservedSlot")
        if g["is_none"]:
            ctx.oblige("automatic-id-is-the-counter", sid == n0)
            ctx.oblige("automatic-id-not-a-user-slot", sid >= 256)
            ctx.oblige("counter-strictly-increases", holder.value > n0)
            ctx.oblige("automatic-slot-not-reserved", z3.BoolVal(res is False))
        else:
            ctx.oblige("accepts-only-ids-in-0..255", z3.And(req >= 0, req < 256))
            ctx.oblige("requested-id-kept", sid == req)
            ctx.oblige("requested-slot-reserved", z3.BoolVal(res is True))
            ctx.oblige("counter-untouched", holder.value == n0)


class _ClassCell:
    def __init__(self, cls, value):
        self.cls, self.value = cls, value
