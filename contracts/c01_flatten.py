"""Contract for pyteal.compiler.flatten.flattenBlocks (properties C01 / C04 / C20; obligations O1.26, O4.5, O20.2).

requires  wf_blocks(blocks): duplicate-free list, closed under successors (what sortBlocks returns), a non-terminal
          simple block has a successor, a non-terminal conditional block has both
ensures   for every block k (symbolic list length, symbolic k):
            emitted code = the block's ops, then a *transfer tail* made of branch ops only, such that - executing the tail
            for condition class nz / z - the condition is popped exactly once by a conditional block (never by a simple
            one) and control either falls through, allowed only when the graph successor is block k+1, or jumps to the
            label object of the graph successor's index; terminal blocks get no tail.      (no opcode shape is pinned)
          every label object targeted by some tail is defined, exactly once, immediately in front of the code of the block
          it names, and the branch and the definition share the same LabelReference object
raises    nothing (no ValueError / KeyError / IndexError / AssertionError) under wf_blocks with the two block classes
"""
from __future__ import annotations

import z3

from pyvc.values import *  # noqa
from pyvc.engine import LoopSpec, Unsupported
from pyvc.verifier import Contract, stamp
from pyvc import fragsem

I_ = z3.IntSort()
B_ = z3.BoolSort()
terminal = z3.Function("isTerminal", I_, B_)
kind = z3.Function("blockKind", I_, I_)          # 0 simple, 1 conditional, 2 other
IDX = z3.Function("indexInList", I_, I_)         # spec: position of a block in `blocks`
LIDX = z3.Function("labelIndex", I_, I_)         # ghost: which block index a LabelReference object names
F = "flattenBlocks"


class OpsSeg:
    """block.ops of an abstract block: opaque; list(...) of it is a fresh list beginning with the block's own ops."""

    def __init__(self, term):
        self.term = term

    def pyvc_list(self, I):
        return [("OPS", self.term)]


def run_tail(tail_ops, cls):
    """Meaning of a transfer tail for condition class cls in {'nz','z'} -> (pops, ('fall',) | ('jump', label SRef)) or None if ill-formed."""
    pops = 0
    for op in tail_ops:
        if not isinstance(op, SObj):
            return None
        m = str(op.fields["op"])
        args = op.fields["args"]
        if m == "b":
            return pops, ("jump", args[0])
        if m == "bnz":
            pops += 1
            if cls == "nz":
                return pops, ("jump", args[0])
        elif m == "bz":
            pops += 1
            if cls == "z":
                return pops, ("jump", args[0])
        else:
            return None
    return pops, ("fall",)


class CodeBlocks:
    """codeblocks: list of per-block code lists. The code list of the current iteration stays a live python list
    (it is still appended to); it is frozen into descriptor arrays when the loop invariant is re-established."""
    pyvc_mut_ok = False

    def __init__(self, ctx):
        self.count = z3.IntVal(0)
        self.TN = z3.Array(fresh_name("TGT_NZ"), I_, I_)   # target block index for class nz, -1 = falls through / no tail
        self.TZ = z3.Array(fresh_name("TGT_Z"), I_, I_)
        self.pending = None

    def pyvc_havoc(self, ctx):
        self.count = ctx.fresh_int("ncode")
        self.TN = z3.Array(fresh_name("TGT_NZ"), I_, I_)
        self.TZ = z3.Array(fresh_name("TGT_Z"), I_, I_)
        self.pending = None

    def pyvc_method(self, I, name, args, kwargs, node):
        if name == "append":
            if self.pending is not None:
                raise Unsupported("codeblocks: two appends in one iteration")
            self.pending = args[0]
            I.ctx.note_mut(self)
            return None
        raise Unsupported(f"codeblocks.{name}")

    def pyvc_iter(self, I):
        return self.count, (lambda k: CodeVal(k))

    def pyvc_len(self):
        return self.count


class CodeVal:
    def __init__(self, k):
        self.k = k


class TealOut:
    """teal: the output list. Tracks, per emitted segment, whether a label was put in front of it and which object."""
    pyvc_mut_ok = False

    def __init__(self, ctx):
        self.nseg = z3.IntVal(0)
        self.EM = z3.Array(fresh_name("labelEmitted"), I_, B_)
        self.OBJ = z3.Array(fresh_name("labelObj"), I_, I_)
        self.pending_label = None
        self.bad = []

    def pyvc_havoc(self, ctx):
        self.nseg = ctx.fresh_int("nseg")
        self.EM = z3.Array(fresh_name("labelEmitted"), I_, B_)
        self.OBJ = z3.Array(fresh_name("labelObj"), I_, I_)
        self.pending_label = None

    def pyvc_method(self, I, name, args, kwargs, node):
        if name == "append":
            lab = args[0]
            if not isinstance(lab, SObj) or "label" not in lab.fields or self.pending_label is not None:
                I.ctx.oblige("output/only-labels-appended", False)
                return None
            self.pending_label = lab.fields["label"]
            I.ctx.note_mut(self)
            return None
        raise Unsupported(f"teal.{name}")

    def pyvc_iadd(self, I, other):
        if not isinstance(other, CodeVal):
            raise Unsupported("teal += unexpected value")
        I.ctx.oblige("output/blocks-in-order", other.k == self.nseg, detail="code of block k is emitted as the k-th segment")
        self.EM = z3.Store(self.EM, self.nseg, z3.BoolVal(self.pending_label is not None))
        if self.pending_label is not None:
            self.OBJ = z3.Store(self.OBJ, self.nseg, self.pending_label.term)
        self.pending_label = None
        self.nseg = self.nseg + 1
        I.ctx.note_mut(self)
        return self


class FlattenBlocks(Contract):
    target = "pyteal.compiler.flatten.flattenBlocks"
    max_paths = 4000

    def __init__(self):
        from pyteal.compiler import flatten
        from pyteal.ir import TealBlock, TealSimpleBlock, TealConditionalBlock, LabelReference, TealOp, TealLabel
        from pyteal.errors import TealInternalError
        self.TealBlock, self.TSB, self.TCB, self.LabelReference = TealBlock, TealSimpleBlock, TealConditionalBlock, LabelReference
        self.raises_only = ()
        self.callees = dict(fragsem.default_callees())
        self.callees[TealBlock.__dict__["isTerminal"]] = lambda I, args, kwargs: terminal(args[0].term)
        self.callees[("type", TealBlock)] = self.c_type
        self.callees[LabelReference] = self.c_new_label
        self.fields = {
            (TealBlock, "ops"): lambda ctx, ref: OpsSeg(ref.term),
            (TealBlock, "nextBlock"): REF(TealBlock, optional=True),
            (TealBlock, "trueBlock"): REF(TealBlock, optional=True),
            (TealBlock, "falseBlock"): REF(TealBlock, optional=True),
            (TealBlock, "_sframes_container"): REF(object, optional=True),
            (LabelReference, "label"): STR,
        }
        self.var_kinds = {
            (F, "codeblocks"): lambda ctx, v: CodeBlocks(ctx),
            (F, "references"): lambda ctx, v: self.mk_refs(ctx),
            (F, "referer"): lambda ctx, v: self.mk_referer(ctx),
            (F, "labelRefs"): lambda ctx, v: self.mk_labelrefs(ctx),
            (F, "teal"): lambda ctx, v: TealOut(ctx),
        }
        self.loops = {
            (F, 0): LoopSpec(inv=self.inv0, havoc=self.havoc0, modifies=("references", "referer", "labelRefs", "codeblocks")),
            (F, 1): LoopSpec(inv=self.inv1, havoc=self.havoc1, modifies=("labelRefs", "teal")),
            (F + ".<locals>.blockIndexByReference", 0): LoopSpec(inv=self.inv_idx),
        }

    def mk_labelrefs(self, ctx):
        d = stamp(SDict(INT, REF(self.LabelReference), name="labelRefs"))
        k = z3.Int("kl!")
        ctx.assume(z3.ForAll([k], z3.Not(z3.Select(d.has, k))))

        def on_store(I, idx, v):
            # ghost: the label object just created names block index `idx` (valid because the object is fresh)
            if v is not I.ctx.ghost.get("last_label"):
                raise Unsupported("labelRefs: stored object is not the label created by this call")
            I.ctx.assume(LIDX(v.term) == unwrap(idx))
        d.on_store = on_store
        return d

    def mk_referer(self, ctx):
        d = stamp(SDict(INT, INT, name="referer"))
        k = z3.Int("kf!")
        ctx.assume(z3.ForAll([k], z3.Not(z3.Select(d.has, k))))
        return d

    def mk_refs(self, ctx):
        d = stamp(SDict(INT, INT, name="references"))
        d.default = z3.IntVal(0)
        k = z3.Int("kr!")
        ctx.assume(z3.ForAll([k], z3.Not(z3.Select(d.has, k))))   # freshly created: empty
        return d

    # ---- abstract inputs ----------------------------------------------------------------------------------
    def setup(self, ctx, I):
        blocks = stamp(SList(REF(self.TealBlock), name="blocks"))
        n = blocks.length
        ctx.assume(n >= 0)
        j, l = z3.Ints("jb! lb!")
        arr = blocks.arr
        el = lambda x: z3.Select(arr, x)
        H = lambda name: I.engine._heap(ctx, name, REF(self.TealBlock, optional=True))[name]
        nxt, tru, fls = H("nextBlock"), H("trueBlock"), H("falseBlock")
        inlist = lambda r: z3.And(IDX(r) >= 0, IDX(r) < n, el(IDX(r)) == r)
        wf = z3.ForAll([j], z3.Implies(z3.And(j >= 0, j < n), z3.And(
            el(j) >= 0, IDX(el(j)) == j,                       # objects; duplicate-free (IDX is a left inverse)
            z3.Or(kind(el(j)) == 0, kind(el(j)) == 1),         # only the two block classes
            z3.Implies(z3.And(kind(el(j)) == 0, z3.Not(terminal(el(j)))), z3.And(z3.Select(nxt, el(j)) >= 0, inlist(z3.Select(nxt, el(j))))),
            z3.Implies(z3.And(kind(el(j)) == 1, z3.Not(terminal(el(j)))),
                       z3.And(z3.Select(tru, el(j)) >= 0, inlist(z3.Select(tru, el(j))), z3.Select(fls, el(j)) >= 0, inlist(z3.Select(fls, el(j))))))))
        ctx.assume(wf)
        ctx.ghost.update(blocks=blocks, n=n)
        return {"args": [blocks]}

    def c_type(self, I, ref):
        k = kind(ref.term)
        if I.ctx.branch(k == 0):
            return self.TSB
        if I.ctx.branch(k == 1):
            return self.TCB
        return object

    def c_new_label(self, I, args, kwargs):
        """LabelReference(text): a fresh object (distinct from every label created so far) holding `text`."""
        ctx = I.ctx
        r = ctx.fresh_ref(self.LabelReference, "label")
        ctx.assume(r.term >= 0)
        lr = I.ctx.ghost["env_main"]["labelRefs"] if "env_main" in I.ctx.ghost else None
        if lr is not None:
            j = z3.Int("jl!")
            ctx.assume(z3.ForAll([j], z3.Implies(z3.Select(lr.has, j), z3.Select(lr.val, j) != r.term)))   # allocation: fresh
        I.engine.heap_write(ctx, r, "label", STR, args[0] if is_z3(args[0]) else z3.StringVal(str(args[0])))
        ctx.ghost["last_label"] = r
        return r

    # ---- nested helper: blockIndexByReference --------------------------------------------------------------------
    def inv_idx(self, ctx, env, it):
        blocks, block = ctx.ghost["blocks"], env["block"]
        j = z3.Int("ji!")
        return [("not-found-so-far", z3.ForAll([j], z3.Implies(z3.And(j >= 0, j < it.k), z3.Select(blocks.arr, j) != block.term)))]

    # ---- loop 0: lowering -------------------------------------------------------------------------------------------
    def label_facts(self, ctx, lr: SDict, t):
        """label object registered for index t exists and names t"""
        return z3.And(z3.Select(lr.has, t), LIDX(z3.Select(lr.val, t)) == t)

    def havoc0(self, ctx, env, it):
        ctx.ghost["env_main"] = env
        r = ctx.fresh_ref(object, "root_expr")
        ctx.assume(r.term >= -1)
        env.set("root_expr", r)
        refs = env["references"]
        refs.default = z3.IntVal(0)

    def freeze(self, ctx, env, it, k):
        """Turn the code list appended in this iteration into descriptors; returns the lowered_ok obligations."""
        I = ctx.ghost["I"]
        cb: CodeBlocks = env["codeblocks"]
        blocks, n = ctx.ghost["blocks"], ctx.ghost["n"]
        obs = []
        code = cb.pending
        cb.pending = None
        if code is None:
            obs.append(("lowered/one-code-list-per-block", z3.BoolVal(False)))
            return obs
        b = z3.Select(blocks.arr, k)
        if not (isinstance(code, list) and code and code[0] == ("OPS", b) or (isinstance(code, list) and code and isinstance(code[0], tuple) and code[0][0] == "OPS")):
            obs.append(("lowered/code-starts-with-the-blocks-ops", z3.BoolVal(False)))
            return obs
        obs.append(("lowered/code-starts-with-the-blocks-ops", code[0][1] == b))
        tail = code[1:]
        lr = env["labelRefs"]
        heap = ctx.ghost["__heap__"]
        succ = {"nz": None, "z": None}
        is_term = terminal(b)
        knd = kind(b)
        tn = tz = z3.IntVal(-1)
        for cls in ("nz", "z"):
            r = run_tail(tail, cls)
            if r is None:
                obs.append((f"lowered/tail-only-branches", z3.BoolVal(False)))
                return obs
            pops, out = r
            want = z3.If(knd == 0, z3.Select(heap["nextBlock"], b), z3.Select(heap["trueBlock" if cls == "nz" else "falseBlock"], b))
            obs.append((f"lowered/{cls}/condition-popped-once-iff-conditional",
                        z3.Implies(z3.Not(is_term), z3.If(knd == 1, pops == 1, pops == 0))))
            if out[0] == "fall":
                obs.append((f"lowered/{cls}/fallthrough-only-into-next-block", z3.Implies(z3.Not(is_term), IDX(want) == k + 1)))
            else:
                lab = out[1]
                t = LIDX(lab.term)
                obs.append((f"lowered/{cls}/jump-targets-graph-successor", z3.And(z3.Not(is_term), t == IDX(want))))
                obs.append((f"lowered/{cls}/branch-shares-registered-label-object", z3.And(z3.Select(lr.has, t), z3.Select(lr.val, t) == lab.term)))
                if cls == "nz":
                    tn = t
                else:
                    tz = t
        obs.append(("lowered/terminal-block-has-no-tail", z3.Implies(is_term, z3.BoolVal(len(tail) == 0))))
        cb.TN = z3.Store(cb.TN, k, tn)
        cb.TZ = z3.Store(cb.TZ, k, tz)
        cb.count = cb.count + 1
        return obs

    def inv0(self, ctx, env, it):
        ctx.ghost["env_main"] = env
        blocks, n = ctx.ghost["blocks"], ctx.ghost["n"]
        cb, refs, referer, lr = env["codeblocks"], env["references"], env["referer"], env["labelRefs"]
        out = []
        i = it.k
        if it.phase == "preserved":
            out += self.freeze(ctx, env, it, i - 1)
        k, j = z3.Ints("k0! j0!")
        out.append(("one-code-list-per-block", cb.count == i))
        rd = lambda d, x: z3.If(z3.Select(d.has, x), z3.Select(d.val, x), 0)
        out.append(("reference-counts-non-negative", z3.ForAll([j], rd(refs, j) >= 0)))
        for nm, T in (("nz", cb.TN), ("z", cb.TZ)):
            t = z3.Select(T, k)
            out.append((f"targets-{nm}-are-referenced-labelled-and-in-range",
                        z3.ForAll([k], z3.Implies(z3.And(k >= 0, k < i, t >= 0),
                                                  z3.And(t < n, rd(refs, t) > 0, self.label_facts(ctx, lr, t))))))
        out.append(("referenced-blocks-have-a-referer", z3.ForAll([j], z3.Implies(rd(refs, j) > 0, z3.Select(referer.has, j)))))
        out.append(("referers-are-valid-block-indices",
                    z3.ForAll([j], z3.Implies(z3.Select(referer.has, j), z3.And(z3.Select(referer.val, j) >= 0, z3.Select(referer.val, j) < n)))))
        out.append(("registered-labels-name-their-index", z3.ForAll([j], z3.Implies(z3.Select(lr.has, j), LIDX(z3.Select(lr.val, j)) == j))))
        return out

    # ---- loop 1: assembling the output ---------------------------------------------------------------------------------
    def havoc1(self, ctx, env, it):
        r = ctx.fresh_ref(object, "root_expr")
        ctx.assume(r.term >= -1)
        env.set("root_expr", r)

    def inv1(self, ctx, env, it):
        ctx.ghost["env_main"] = env
        n = ctx.ghost["n"]
        cb, refs, referer, lr, teal = env["codeblocks"], env["references"], env["referer"], env["labelRefs"], env["teal"]
        i = it.k
        k, j = z3.Ints("k1! j1!")
        rd = lambda d, x: z3.If(z3.Select(d.has, x), z3.Select(d.val, x), 0)
        out = [("segments-in-order", teal.nseg == i),
               ("label-in-front-iff-referenced", z3.ForAll([k], z3.Implies(z3.And(k >= 0, k < i), z3.Select(teal.EM, k) == (rd(refs, k) != 0)))),
               ("label-object-is-the-registered-one", z3.ForAll([k], z3.Implies(z3.And(k >= 0, k < i, z3.Select(teal.EM, k)),
                                                                               z3.And(z3.Select(lr.has, k), z3.Select(teal.OBJ, k) == z3.Select(lr.val, k))))),
               ("registered-labels-name-their-index", z3.ForAll([j], z3.Implies(z3.Select(lr.has, j), LIDX(z3.Select(lr.val, j)) == j))),
               ("referenced-blocks-have-a-referer", z3.ForAll([j], z3.Implies(rd(refs, j) > 0, z3.Select(referer.has, j)))),
               ("referers-are-valid-block-indices",
                z3.ForAll([j], z3.Implies(z3.Select(referer.has, j), z3.And(z3.Select(referer.val, j) >= 0, z3.Select(referer.val, j) < n)))),
               # facts established by loop 0 that loop 1 relies on (it does not modify them)
               ("targets-stay-labelled", z3.ForAll([k], z3.Implies(z3.And(k >= 0, k < n), z3.And(
                   z3.Implies(z3.Select(cb.TN, k) >= 0, z3.And(z3.Select(cb.TN, k) < n, rd(refs, z3.Select(cb.TN, k)) > 0)),
                   z3.Implies(z3.Select(cb.TZ, k) >= 0, z3.And(z3.Select(cb.TZ, k) < n, rd(refs, z3.Select(cb.TZ, k)) > 0)))))),
               ]
        return out

    def post(self, ctx, I, outcome, st):
        if outcome[0] != "return":
            return  # exception paths are reported by the engine (raises_only is empty)
        n = ctx.ghost["n"]
        env = ctx.ghost["env_main"]
        cb, refs, lr, teal = env["codeblocks"], env["references"], env["labelRefs"], env["teal"]
        res = outcome[1]
        ctx.oblige("returns-the-assembled-list", z3.BoolVal(res is teal))
        ctx.oblige("every-block-emitted-once-in-order", z3.And(teal.nseg == n, cb.count == n))
        k = z3.Int("kp!")
        rd = lambda d, x: z3.If(z3.Select(d.has, x), z3.Select(d.val, x), 0)
        for nm, T in (("nz", cb.TN), ("z", cb.TZ)):
            t = z3.Select(T, k)
            ctx.oblige(f"every-{nm}-target-label-is-defined-in-front-of-its-block",
                       z3.ForAll([k], z3.Implies(z3.And(k >= 0, k < n, t >= 0),
                                                 z3.And(t < n, z3.Select(teal.EM, t), z3.Select(teal.OBJ, t) == z3.Select(lr.val, t)))))
