"""Contracts for the Base64-VLQ codec of pyteal/compiler/sourcemap.py (property C15, clause "the Revision-3 JSON encoding
decodes back to the same line and column associations", for *every* integer delta, any sign, any magnitude).

Independent specification (Source Map Revision 3 proposal, "Base 64 VLQ"): a signed integer v is first mapped to the natural
number u(v) = 2|v| + [v < 0]; u is written little-endian in base 32, one sextet per base-32 digit, with bit 5 (value 32) set
on every sextet except the last.  With  U(u, 0) = u,  U(u, m+1) = U(u, m) div 32  (the m-th quotient), the m-th sextet of u is
      U(u, m) mod 32  +  (32 if it is not the last sextet)
and the sequence stops at the first n >= 1 with U(u, n) = 0.

  Canon(digits, starts, n, values):   the digit sequence is the concatenation, for i < n, of the sextets of u(values[i]);
                                      starts[i] is the (ghost) index where value i begins.

 * VlqEncode  : real `_base64vlq_encode(*values)`  ensures Canon(the sextets handed to the base64 alphabet, ...)   and every sextet in 0..63
 * VlqDecode  : real `_base64vlq_decode(s)`        requires Canon(sextets of s, ...)   ensures  result == values   (element-wise, same length)
 * the alphabet step (bytes(map(_b64chars.__getitem__, ...)).decode()  /  map(_b64table.__getitem__, s.encode("ascii"))) is not
   symbolic: that the two tables are inverse bijections on 0..63 is obligation E (64 cases evaluated on the real module globals).
The round trip decode(encode(vs)) == vs is the composition of the two contracts (the encoder's postcondition is literally the
decoder's precondition).

Python semantics assumed by the encoding: unbounded ints; x & 31 = x mod 32, x >> 5 = x div 32 (floor), x << s = x * 2**s for s >= 0;
a | b = a + b when the operands' bit ranges are disjoint (pyvc.interp.binop states the side conditions; otherwise uninterpreted).
Module globals shiftsize / flag / mask are read at their import-time values (5, 32, 31) - checked concretely below.
"""
from __future__ import annotations

import z3

from pyvc.values import *  # noqa
from pyvc.engine import LoopSpec, Unsupported
from pyvc.verifier import Contract, stamp
from pyvc.interp import _StarArgs

I_ = z3.IntSort()
U = z3.Function("vlqU", I_, I_, I_)      # U(u, m): m-th quotient of u by 32


def enc_u(v):
    return 2 * z3.If(v >= 0, v, -v) + z3.If(v < 0, 1, 0)


def unfold_U(u, m):
    """definitional unfolding of U at (u, m) (explicit instances only, no quantified axiom)"""
    return [U(u, 0) == u, U(u, m + 1) == U(u, m) / 32]


def canon_clauses(digits_arr, ndigits, starts, n, values_arr, tagv=""):
    """Canon as a list of (name, formula) - index-form quantifiers only."""
    i, j, m = z3.Int("ci!" + tagv), z3.Int("cj!" + tagv), z3.Int("cm!" + tagv)
    ui = enc_u(z3.Select(values_arr, i))
    si, si1 = z3.Select(starts, i), z3.Select(starts, i + 1)
    return [
        ("starts-frame", z3.And(z3.Select(starts, 0) == 0, z3.Select(starts, n) == ndigits)),
        ("segments-nonempty", z3.ForAll([i], z3.Implies(z3.And(i >= 0, i < n), si < si1))),
        ("starts-within", z3.ForAll([i], z3.Implies(z3.And(i >= 0, i <= n), z3.And(si >= 0, si <= ndigits)))),
        ("sextets", z3.ForAll([i, j], z3.Implies(z3.And(i >= 0, i < n, j >= si, j < si1),
                                                   z3.Select(digits_arr, j) == U(ui, j - si) % 32 + z3.If(j == si1 - 1, 0, 32)),
                              **({"patterns": [z3.MultiPattern(z3.Select(digits_arr, j), z3.Select(starts, i))]}
                                 if z3.is_const(digits_arr) and z3.is_const(starts) else {}))),
        ("segment-ends-at-zero-quotient", z3.ForAll([i], z3.Implies(z3.And(i >= 0, i < n), U(ui, si1 - si) == 0))),
    ]


def instance(clauses, name, *terms):
    """the instance of the universally quantified clause `name` at `terms` (derived mechanically from the clause itself,
    so adding it where the clause is already a hypothesis adds no assumption)"""
    q = dict(clauses)[name]
    assert z3.is_quantifier(q) and q.is_forall() and q.num_vars() == len(terms)
    return z3.substitute_vars(q.body(), *reversed([t if z3.is_expr(t) else z3.IntVal(t) for t in terms]))


def in_range(arr, n, tag=""):
    j = z3.Int("jr!" + tag)
    return z3.ForAll([j], z3.Implies(z3.And(j >= 0, j < n), z3.And(z3.Select(arr, j) >= 0, z3.Select(arr, j) < 64)))


class _Base(Contract):
    def __init__(self):
        from pyteal.compiler import sourcemap as SM
        self.SM = SM
        self.raises_only = ()
        self.callees, self.fields, self.var_kinds, self.loops = {}, {}, {}, {}
        self.inline_ok = ()
        if (SM.shiftsize, SM.flag, SM.mask) != (5, 32, 31):
            raise Unsupported("module constants shiftsize/flag/mask are not (5, 32, 31)")


class Sextets:
    """ghost stand-in for a str / bytes object over the base64 alphabet: only its sextet sequence is visible"""

    def __init__(self, digits: SList):
        self.digits = digits

    def pyvc_method(self, I, name, args, kwargs, node):
        if name in ("encode", "decode"):
            return self
        raise Unsupported(f"method {name} on a base64 text")


class VlqEncode(_Base):
    target = "pyteal.compiler.sourcemap._base64vlq_encode"

    def __init__(self):
        super().__init__()
        SM = self.SM
        fn = "_base64vlq_encode"
        self.var_kinds = {(fn, "results"): lambda ctx, v: self.fresh_results(ctx)}
        self.callees[map] = self.c_map
        self.callees[bytes] = self.c_bytes
        self.loops = {(fn, 0): LoopSpec(inv=self.inv_outer, havoc=self.havoc_outer, ghost_step=self.step_outer, modifies=("results",)),
                      (fn, 1): LoopSpec(inv=self.inv_inner, modifies=("results",))}

    def fresh_results(self, ctx):
        l = SList(INT, name="results")
        l.length = z3.IntVal(0)
        return l

    def c_map(self, I, args, kwargs):
        f, seq = args
        if not is_getitem_of(f, self.SM._b64chars):
            raise Unsupported("map(): first argument is not _b64chars.__getitem__")
        if not isinstance(seq, SList):
            raise Unsupported("map(): second argument is not the sextet list")
        j = z3.Int("jm!")
        # bytes.__getitem__ raises IndexError outside 0..63 (negative indices would silently wrap: also excluded)
        I.ctx.oblige("every-sextet-in-alphabet-range", in_range(seq.arr, seq.length, "m"))
        return Sextets(seq)

    def c_bytes(self, I, args, kwargs):
        if len(args) == 1 and isinstance(args[0], Sextets):
            return args[0]
        raise Unsupported("bytes() of something else")

    def setup(self, ctx, I):
        values = stamp(SList(INT, name="values"))
        values.frozen = True
        ctx.assume(values.length >= 0)
        ctx.ghost.update(values=values, starts=z3.Array("starts0", I_, I_))
        ctx.assume(z3.Select(ctx.ghost["starts"], 0) == 0)   # choice of the ghost witness
        return {"args": [_StarArgs(values)]}

    # ---- outer loop: k values encoded -------------------------------------------------------------------------
    def havoc_outer(self, ctx, env, it):
        ctx.ghost["starts"] = z3.Array(fresh_name("starts"), I_, I_)

    def inv_outer(self, ctx, env, it):
        values, starts = ctx.ghost["values"], ctx.ghost["starts"]
        res = env["results"]
        return [("results-nonneg-length", res.length >= 0), ("sextets-in-0..63", in_range(res.arr, res.length))] \
            + canon_clauses(res.arr, res.length, starts, it.k, values.arr)

    def step_outer(self, ctx, env, it, broke):
        # witness for the ghost start index of the next value: where the sextet list now ends
        res = env["results"]
        ctx.ghost["starts"] = z3.Store(ctx.ghost["starts"], it.k + 1, res.length)

    # ---- inner loop: m sextets of the current value emitted ----------------------------------------------------
    def inv_inner(self, ctx, env, it):
        res = env["results"]
        if it.phase == "init":
            # entry state of this value: u = the sign-folded value, s = where its sextets begin, pre = the sextets so far
            ctx.ghost["u"], ctx.ghost["s"], ctx.ghost["pre"] = env["v"], res.length, res.arr
        u, s, pre = ctx.ghost["u"], ctx.ghost["s"], ctx.ghost["pre"]
        m = res.length - s
        for a in unfold_U(u, m):
            ctx.assume(a)
        j = z3.Int("ji!")
        return [
            ("emitted-count", m >= 0),
            ("sextets-in-0..63", in_range(res.arr, res.length, "i")),
            ("current-is-mth-quotient", env["v"] == U(u, m)),
            ("folded-nonneg", u >= 0),
            ("continuing-means-positive", z3.Or(m == 0, env["v"] > 0)),
            ("emitted-are-continuation-sextets", z3.ForAll([j], z3.Implies(z3.And(j >= s, j < res.length),
                                                                            z3.Select(res.arr, j) == U(u, j - s) % 32 + 32))),
            ("earlier-sextets-untouched", z3.ForAll([j], z3.Implies(z3.And(j >= 0, j < s), z3.Select(res.arr, j) == z3.Select(pre, j)))),
        ]

    def post(self, ctx, I, outcome, st):
        if outcome[0] != "return":
            ctx.oblige("never-raises", False)
            return
        r = outcome[1]
        if not isinstance(r, Sextets):
            raise Unsupported("result is not the base64 text of the sextet list")
        values, starts = ctx.ghost["values"], ctx.ghost["starts"]
        d = r.digits
        for name, f in canon_clauses(d.arr, d.length, starts, values.length, values.arr, "p"):
            ctx.oblige("canonical/" + name, f)


class VlqDecode(_Base):
    target = "pyteal.compiler.sourcemap._base64vlq_decode"

    def __init__(self):
        super().__init__()
        fn = "_base64vlq_decode"
        self.var_kinds = {(fn, "results"): lambda ctx, v: self.fresh_results(ctx)}
        self.callees[map] = self.c_map
        self.loops = {(fn, 0): LoopSpec(inv=self.inv, modifies=("results",))}

    def fresh_results(self, ctx):
        l = SList(INT, name="decoded")
        l.length = z3.IntVal(0)
        return l

    def c_map(self, I, args, kwargs):
        f, seq = args
        if not is_getitem_of(f, self.SM._b64table):
            raise Unsupported("map(): first argument is not _b64table.__getitem__")
        if not isinstance(seq, Sextets):
            raise Unsupported("map(): second argument is not the text")
        return seq.digits

    def setup(self, ctx, I):
        values = stamp(SList(INT, name="values"))
        digits = stamp(SList(INT, name="digits"))
        values.frozen = digits.frozen = True
        starts = z3.Array("starts", I_, I_)
        ctx.assume(values.length >= 0)
        ctx.assume(digits.length >= 0)
        for _, f in canon_clauses(digits.arr, digits.length, starts, values.length, values.arr):
            ctx.assume(f)
        ctx.ghost.update(values=values, digits=digits, starts=starts)
        return {"args": [Sextets(digits)]}

    def inv(self, ctx, env, it):
        values, digits, starts = ctx.ghost["values"], ctx.ghost["digits"], ctx.ghost["starts"]
        res = env["results"]
        n, i, jpos = values.length, res.length, it.k
        si, si1 = z3.Select(starts, i), z3.Select(starts, i + 1)
        ui = enc_u(z3.Select(values.arr, i))
        m = jpos - si
        p2 = self_pow2(ctx)
        for a in unfold_U(ui, m):
            ctx.assume(a)
        # pow2 unfoldings at the current shift (definition of 2**s on s >= 0)
        ctx.assume(p2(0) == 1)
        ctx.assume(z3.Implies(env["shift"] >= 0, z3.And(p2(env["shift"] + 5) == 32 * p2(env["shift"]), p2(env["shift"]) >= 1)))
        if it.phase == "iter":
            pre = canon_clauses(digits.arr, digits.length, starts, n, values.arr)   # the precondition (assumed in setup)
            ctx.assume(instance(pre, "sextets", i, jpos))
            ctx.assume(instance(pre, "segments-nonempty", i))
            ctx.assume(instance(pre, "segment-ends-at-zero-quotient", i))
            ctx.assume(instance(pre, "starts-within", i + 1))
            # cut lemma (proved on its own, then used): undoing the sign folding of the current value gives the value back
            vi = z3.Select(values.arr, i)
            unfold = (ui / 2) * z3.If(ui % 2 != 0, -1, 1) == vi
            ctx.oblige("_base64vlq_decode/loop0/lemma/sign-unfolding-inverts-sign-folding", unfold)
            ctx.assume(unfold)
            # and the last sextet of a segment is the whole remaining quotient (its successor quotient is 0)
            last = z3.Implies(z3.And(i < n, U(ui, m + 1) == 0, U(ui, m) >= 0), z3.And(U(ui, m) == U(ui, m) % 32, U(ui, m) < 32))
            ctx.oblige("_base64vlq_decode/loop0/lemma/last-sextet-is-the-remaining-quotient", last)
            ctx.assume(last)
        t = z3.Int("jt!")
        return [
            ("decoded-count-in-range", z3.And(i >= 0, i <= n)),
            ("position-inside-current-segment", z3.And(jpos >= si, z3.Implies(i < n, jpos < si1), z3.Implies(i == n, jpos == digits.length))),
            ("shift-tracks-position", z3.If(i < n, env["shift"] == 5 * m, env["shift"] == 0)),
            ("accumulator", z3.If(i < n, z3.And(env["value"] + U(ui, m) * p2(env["shift"]) == ui, U(ui, m) >= 0), env["value"] == 0)),
            ("decoded-prefix-correct", z3.ForAll([t], z3.Implies(z3.And(t >= 0, t < i), z3.Select(res.arr, t) == z3.Select(values.arr, t)))),
        ]

    def post(self, ctx, I, outcome, st):
        if outcome[0] != "return":
            ctx.oblige("never-raises", False)
            return
        r = outcome[1]
        values = ctx.ghost["values"]
        t = z3.Int("jq!")
        ctx.oblige("same-number-of-values", r.length == values.length)
        ctx.oblige("values-recovered", z3.ForAll([t], z3.Implies(z3.And(t >= 0, t < values.length), z3.Select(r.arr, t) == z3.Select(values.arr, t))))


def is_getitem_of(f, table):
    recv = getattr(f, "recv", getattr(f, "__self__", None))
    name = getattr(f, "name", getattr(f, "__name__", ""))
    return recv is table and name == "__getitem__"


def self_pow2(ctx):
    return ctx.engine.pow2 if hasattr(ctx, "engine") else ctx.ghost["I"].engine.pow2


def alphabet_bijection():
    """E: the two module tables are inverse on 0..63 and the alphabet is the RFC 4648 base64 alphabet (real globals, 64 cases)."""
    from pyteal.compiler import sourcemap as SM
    std = b"ABCDEFGHIJKLMNOPQRSTUVWXYZabcdefghijklmnopqrstuvwxyz0123456789+/"
    bad = []
    for d in range(64):
        c = SM._b64chars[d]
        if c != std[d]:
            bad.append({"sextet": d, "what": f"alphabet[{d}] is {chr(c)!r}, expected {chr(std[d])!r}"})
        elif SM._b64table[c] != d:
            bad.append({"sextet": d, "what": f"decode table maps {chr(c)!r} to {SM._b64table[c]}, expected {d}"})
    return 64, bad
