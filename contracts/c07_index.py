"""Contract for pyteal.ast.abi.tuple._index_tuple (property C07: element access decodes the bytes ARC-4 assigns to that element).

Specification: the ARC-4 position function of contracts/c06_layout.py (element-by-element walk, dynamic heads are 2 bytes):
   OFF(i) = head bytes occupied by elements 0..i-1 (a partly filled bool byte counts),  BIT(i) = bools already in the open byte.
   bit position of a bool element i:   8*OFF(i)                 if BIT(i) == 0   (opens a byte)
                                       8*(OFF(i)-1) + BIT(i)     otherwise        (shares the previous byte)
   head / value position of a non-bool element i:  OFF(i)

Contract of  _index_tuple(value_types, encoded, index, output)  for every type sequence and index:
  raises ValueError  iff  not 0 <= index < len(value_types);  raises TypeError iff output's type spec differs from value_types[index]
  otherwise returns exactly one of
    decode_bit(encoded, Int(bitpos(index)))                                   for a bool element
    decode(encoded, start = uint16 at OFF(index)
                   [, end = uint16 at OFF(j) for the FIRST dynamic element j after index; absent iff there is none])   for a dynamic element
    decode of the window [OFF(index), OFF(index) + byte_length_static) of encoded     for a static element, where the abbreviated forms
        (no start / no length / neither) are used only when they denote the same window of an encoding whose length is OFF(n)
        (all elements static)
Callee contracts used (proved in c06_layout): _consecutive_bool_type_spec_num (maximal run), _bool_sequence_length (ceil(n/8)).
Class facts assumed: a value is a `Bool` instance iff its type spec is the bool type spec; equal type specs agree on
bool-ness, dynamic-ness and static length; the bool type spec is static with... (nothing else: its length is never asked).
"""
from __future__ import annotations

import z3

from pyvc.values import *  # noqa
from pyvc.engine import LoopSpec, Unsupported
from pyvc.verifier import Contract, stamp
from .c06_layout import Pos, isB, isDyn, blen, ceil8, consecutive_contract

I_ = z3.IntSort()
SAME = z3.Function("sameTypeSpec", I_, I_, z3.BoolSort())
OUTSPEC = z3.Function("typeSpecOfValue", I_, I_)
F = "_index_tuple"


class IntLit:
    def __init__(self, v):
        self.v = v


class HeadRead:
    def __init__(self, at):
        self.at = at


class Decoded:
    def __init__(self, kind, **kw):
        self.kind, self.kw = kind, kw


class IndexTuple(Contract):
    target = "pyteal.ast.abi.tuple._index_tuple"
    max_paths = 3000

    def __init__(self):
        import pyteal as pt
        from pyteal.ast.abi import bool as B, type as T, tuple as TU
        self.B, self.TypeSpec, self.BaseType, self.Bool, self.BoolTypeSpec = B, T.TypeSpec, T.BaseType, B.Bool, B.BoolTypeSpec
        self.raises_only = (ValueError, TypeError)
        self.inline_ok = ()
        self.fields, self.var_kinds = {}, {}
        self.callees = {
            B._consecutive_bool_type_spec_num: lambda I, args, kwargs: consecutive_contract(I, args[0], args[1], isB),
            B._bool_sequence_length: lambda I, args, kwargs: ceil8(args[0]),
            T.TypeSpec.__dict__["byte_length_static"]: lambda I, args, kwargs: blen(args[0].term),
            T.TypeSpec.__dict__["is_dynamic"]: lambda I, args, kwargs: isDyn(args[0].term),
            B.BoolTypeSpec: lambda I, args, kwargs: "BOOLSPEC",
            ("type", T.TypeSpec): lambda I, ref: (B.BoolTypeSpec if I.ctx.branch(isB(ref.term)) else T.TypeSpec),
            ("type", B.Bool): lambda I, ref: (B.Bool if I.ctx.branch(isB(OUTSPEC(ref.term))) else T.BaseType),
            T.BaseType.__dict__["type_spec"]: lambda I, args, kwargs: SRef(OUTSPEC(args[0].term), T.TypeSpec),
            T.BaseType.__dict__["decode"]: self.c_decode,
            B.Bool.__dict__["decode"]: self.c_decode,
            B.Bool.__dict__["decode_bit"]: self.c_decode_bit,
            pt.Int: lambda I, args, kwargs: IntLit(args[0]),
            pt.ExtractUint16: self.c_extract16,
        }
        self.loops = {(F, 0): LoopSpec(inv=self.inv_before), (F, 1): LoopSpec(inv=self.inv_after)}

    # ---- callee summaries (pure constructors of the result expression) -------------------------------------------------------
    def c_decode(self, I, args, kwargs):
        if args[1] is not I.ctx.ghost["encoded"] or len(args) != 2 or not set(kwargs) <= {"start_index", "end_index", "length"}:
            raise Unsupported("decode called with unexpected arguments")
        return Decoded("decode", **kwargs)

    def c_decode_bit(self, I, args, kwargs):
        if args[1] is not I.ctx.ghost["encoded"] or not isinstance(args[2], IntLit):
            raise Unsupported("decode_bit called with unexpected arguments")
        return Decoded("bit", bit=args[2].v)

    def c_extract16(self, I, args, kwargs):
        if args[0] is not I.ctx.ghost["encoded"] or not isinstance(args[1], IntLit):
            raise Unsupported("ExtractUint16 on something else")
        return HeadRead(args[1].v)

    def eq_typespec(self, I, x, y):
        if y == "BOOLSPEC":
            return isB(x.term)
        if isinstance(y, SRef):
            return SAME(x.term, y.term)
        raise Unsupported("TypeSpec == other")

    # ---- entry ---------------------------------------------------------------------------------------------------------------
    def setup(self, ctx, I):
        I.engine.eq_handlers[self.TypeSpec] = self.eq_typespec
        types = stamp(SList(REF(self.TypeSpec), name="value_types"))
        types.frozen = True
        n = types.length
        ctx.assume(n >= 0)
        j, a, b = z3.Int("jt!"), z3.Int("sa!"), z3.Int("sb!")
        e = z3.Select(types.arr, j)
        ctx.assume(z3.ForAll([j], z3.And(e >= 0, blen(e) >= 0)))
        ctx.assume(z3.ForAll([j], z3.Implies(isB(e), z3.Not(isDyn(e)))))          # the bool type is static
        ctx.assume(z3.ForAll([a, b], z3.Implies(SAME(a, b), z3.And(isB(a) == isB(b), isDyn(a) == isDyn(b), blen(a) == blen(b)))))
        pos = Pos(types.arr, tag="7", dyn_heads=True)
        for f in pos.base():
            ctx.assume(f)
        index = z3.Int("index")
        encoded = SRef(z3.Int("encoded"), object)
        output = SRef(z3.Int("output"), self.Bool)       # class used for attribute lookup; the dynamic class is symbolic (hook)
        ctx.ghost.update(types=types, pos=pos, index=index, encoded=encoded, output=output)
        return {"args": [types, encoded, index, output]}

    def bitpos(self, pos, i):
        return z3.If(pos.BIT(i) == 0, 8 * pos.OFF(i), 8 * (pos.OFF(i) - 1) + pos.BIT(i))

    # ---- loop 0: elements before `index` ------------------------------------------------------------------------------------
    def inv_before(self, ctx, env, it):
        g_ = ctx.ghost
        types, pos = g_["types"], g_["pos"]
        i, n = it.k, types.length
        if it.phase == "preserved":
            for a in pos.unfold(i - 1):
                ctx.assume(a)
        offset, g = env["offset"], env["ignoreNext"]
        L, start = env["lastBoolLength"], env["lastBoolStart"]
        out = [("ignoreNext-non-negative", g >= 0), ("within-prefix", z3.And(i >= 0, i <= g_["index"], g_["index"] < n))]
        aligned = z3.And(offset == pos.OFF(i), z3.Implies(z3.And(i < n, isB(pos.el(i))), pos.BIT(i) == 0))
        out.append(("aligned-when-not-skipping", z3.Implies(g == 0, aligned)))
        p = L - g
        r = i - p
        j = z3.Int("jrun7!")
        inrun = z3.And(g <= L - 1, p >= 1, r >= 0, i + g <= n,
                       z3.ForAll([j], z3.Implies(z3.And(j >= i, j < i + g), isB(pos.el(j)))),
                       z3.Or(i + g == n, z3.Not(isB(pos.el(i + g)))),
                       offset == pos.OFF(r) + ceil8(L), start == pos.OFF(r),
                       pos.OFF(i) == pos.OFF(r) + ceil8(p), pos.BIT(i) == p % 8)
        out.append(("inside-bool-run", z3.Implies(g > 0, inrun)))
        t = z3.Int("t0!")
        out.append(("offset-non-negative", offset >= 0))
        out.append(("a-dynamic-element-before-makes-the-offset-at-least-2", z3.ForAll([t], z3.Implies(z3.And(t >= 0, t < i, isDyn(pos.el(t))), offset >= 2))))
        return out

    # ---- loop 1: elements after a dynamic `index` ---------------------------------------------------------------------------
    def inv_after(self, ctx, env, it):
        g_ = ctx.ghost
        types, pos, index = g_["types"], g_["pos"], g_["index"]
        n = types.length
        i = index + 1 + it.k
        if it.phase == "init":
            for a in pos.unfold(index):
                ctx.assume(a)
        if it.phase == "preserved":
            for a in pos.unfold(i - 1):
                ctx.assume(a)
        nxt, g = env["nextDynamicValueOffset"], env["ignoreNext"]
        t, j = z3.Int("t7!"), z3.Int("jrun8!")
        out = [("ignoreNext-non-negative", g >= 0), ("not-found-yet", z3.Not(zbool_(env["hasNextDynamicValue"]))),
               ("no-dynamic-element-so-far", z3.ForAll([t], z3.Implies(z3.And(t > index, t < i), z3.Not(isDyn(pos.el(t))))))]
        aligned = z3.And(nxt == pos.OFF(i), z3.Implies(z3.And(i < n, isB(pos.el(i))), pos.BIT(i) == 0))
        out.append(("aligned-when-not-skipping", z3.Implies(g == 0, aligned)))
        if env.has("boolLength") and not isinstance(env["boolLength"], int):
            L = env["boolLength"]
            p = L - g
            r = i - p
            inrun = z3.And(g <= L - 1, p >= 1, r > index, i + g <= n,
                           z3.ForAll([j], z3.Implies(z3.And(j >= i, j < i + g), isB(pos.el(j)))),
                           z3.Or(i + g == n, z3.Not(isB(pos.el(i + g)))),
                           nxt == pos.OFF(r) + ceil8(L),
                           pos.OFF(i) == pos.OFF(r) + ceil8(p), pos.BIT(i) == p % 8)
            out.append(("inside-bool-run", z3.Implies(g > 0, inrun)))
        else:
            out.append(("inside-bool-run", g == 0))
        return out

    # ---- postcondition ----------------------------------------------------------------------------------------------------------
    def post(self, ctx, I, outcome, st):
        g_ = ctx.ghost
        types, pos, index, output = g_["types"], g_["pos"], g_["index"], g_["output"]
        n = types.length
        inrange = z3.And(index >= 0, index < n)
        vt = pos.el(index)
        same = SAME(OUTSPEC(output.term), vt)
        if outcome[0] == "raise":
            if outcome[1] is ValueError:
                ctx.oblige("ValueError-only-when-index-out-of-range", z3.Not(inrange))
            elif outcome[1] is TypeError:
                ctx.oblige("TypeError-only-when-output-type-differs", z3.And(inrange, z3.Not(same)))
            return
        r = outcome[1]
        if not isinstance(r, Decoded):
            raise Unsupported("result is not a decode expression")
        for a in pos.unfold(index):
            ctx.assume(a)
        ctx.oblige("returns-only-for-valid-index-and-type", z3.And(inrange, same))
        t = z3.Int("tp7!")
        none_dyn_after = z3.ForAll([t], z3.Implies(z3.And(t > index, t < n), z3.Not(isDyn(pos.el(t)))))
        all_static = z3.ForAll([t], z3.Implies(z3.And(t >= 0, t < n), z3.Not(isDyn(pos.el(t)))))
        if r.kind == "bit":
            ctx.oblige("bool/element-is-bool", isB(vt))
            ctx.oblige("bool/bit-position", r.kw["bit"] == self.bitpos(pos, index))
            return
        ctx.oblige("non-bool/element-is-not-bool", z3.Not(isB(vt)))
        kw = r.kw
        s, e, ln = kw.get("start_index"), kw.get("end_index"), kw.get("length")
        if isinstance(s, HeadRead):
            ctx.oblige("dynamic/element-is-dynamic", isDyn(vt))
            ctx.oblige("dynamic/head-position", s.at == pos.OFF(index))
            if ln is not None:
                ctx.oblige("dynamic/no-length-argument", False)
            if e is None:
                ctx.oblige("dynamic/no-end-only-if-last-dynamic", none_dyn_after)
            elif isinstance(e, HeadRead):
                jn = z3.Int("jn7!")
                ctx.oblige("dynamic/end-is-head-of-next-dynamic-element",
                           z3.Exists([jn], z3.And(jn > index, jn < n, isDyn(pos.el(jn)), e.at == pos.OFF(jn),
                                                  z3.ForAll([t], z3.Implies(z3.And(t > index, t < jn), z3.Not(isDyn(pos.el(t))))))))
            else:
                ctx.oblige("dynamic/end-is-a-head-read", False)
            return
        ctx.oblige("static/element-is-static", z3.Not(isDyn(vt)))
        if e is not None:
            ctx.oblige("static/no-end-argument", False)
        lo = s.v if isinstance(s, IntLit) else (0 if s is None else None)
        if lo is None:
            ctx.oblige("static/start-is-a-literal", False)
            return
        ctx.oblige("static/start-position", lo == pos.OFF(index))
        if isinstance(ln, IntLit):
            ctx.oblige("static/length", ln.v == blen(vt))
        elif ln is None:
            # window runs to the end of `encoded`: only right when the encoding ends with this element (all static, last)
            ctx.oblige("static/open-window-only-for-last-element-of-static-tuple", z3.And(all_static, pos.OFF(index) + blen(vt) == pos.OFF(n)))
        else:
            ctx.oblige("static/length-is-a-literal", False)


def zbool_(v):
    if isinstance(v, bool):
        return z3.BoolVal(v)
    return v
