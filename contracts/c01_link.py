"""Linking contracts for the N-ary constructs (property C01; closes the "arities 2, 3, 5 only" gap of the fragment catalogue):
TealBlock.FromOp, NaryExpr.__teal__ and Seq.__teal__ for EVERY number of arguments.

Each child  arg.__teal__(options)  is a callee: its i-th call returns a pair (START(i), END(i)) of blocks of a fresh sub-graph
(allocation facts: the blocks of different calls, and the blocks the construct creates itself, are pairwise different objects; END(i)
is a TealSimpleBlock whose nextBlock the construct may set).  The contracts state exactly how the construct links these sub-graphs:

  FromOp(op, a_0..a_{n-1})   n = 0: (opBlock, opBlock)
                              n > 0: START(0) .. END(0) -> START(1) .. END(1) -> ... -> END(n-1) -> opBlock;   result (START(0), opBlock)
  NaryExpr(a_0..a_{n-1})      START(0) .. END(0) -> START(1) .. END(1) -> OP(1) -> START(2) .. END(2) -> OP(2) ... ;
                              result (START(0), OP(n-1))  (n = 1: (START(0), END(0))), every OP(i) holding exactly [the n-ary op]
  Seq(a_0..a_{n-1})           S -> START(0) .. END(0) -> START(1) ... -> END(n-1);  result (S, END(n-1)), S a fresh empty block  (n = 0: (S, S))
  and nothing else is written: nextBlock of every block other than the listed END(i) / OP(i) / S is unchanged (frame).
From the linking, the meaning "children in order, then the operator (FromOp) / the operator after every child but the first
(NaryExpr) / nothing (Seq)" follows by the composition lemma A1 (L-frag) that the fragment catalogue also rests on.
"""
from __future__ import annotations

import z3

from pyvc.values import *  # noqa
from pyvc.engine import LoopSpec, Unsupported
from pyvc.verifier import Contract, stamp

I_ = z3.IntSort()
START = z3.Function("childStart", I_, I_)
END = z3.Function("childEnd", I_, I_)
OPB = z3.Function("opBlockOf", I_, I_)        # the operator block created after child i (NaryExpr)


class Child:
    def __teal__(self, options):  # pragma: no cover (callee key only)
        raise RuntimeError


class _Link(Contract):
    max_paths = 2000

    def __init__(self):
        from pyteal.ir import TealBlock, TealSimpleBlock, TealOp
        self.TealBlock, self.TSB, self.TealOp = TealBlock, TealSimpleBlock, TealOp
        self.raises_only = ()
        self.inline_ok = ()
        self.fields = {(TealSimpleBlock, "nextBlock"): REF(TealBlock, optional=True), (TealBlock, "nextBlock"): REF(TealBlock, optional=True)}
        self.var_kinds = {}
        self.callees = {
            Child.__dict__["__teal__"]: self.c_child,
            TealSimpleBlock: self.c_new_block,
            TealSimpleBlock.__dict__["setNextBlock"]: self.c_set_next,
            TealOp: lambda I, a, k: ("tealop", a[0], a[1]),
        }

    def heap(self, ctx):
        return ctx.ghost["I"].engine._heap(ctx, "nextBlock", REF(self.TealBlock, optional=True))["nextBlock"]

    def c_child(self, I, args, kwargs):
        ctx = I.ctx
        i = ctx.ghost.get("call_no", 0)
        # the loop variable gives the call number when the loop is symbolic
        idx = ctx.ghost.get("cur_index")
        if idx is None:
            raise Unsupported("child __teal__ called outside the argument loop")
        if args[1] is not ctx.ghost["options"]:
            raise Unsupported("child compiled with other options")
        return (SRef(START(idx), self.TealBlock), SRef(END(idx), self.TSB))

    def c_new_block(self, I, args, kwargs):
        ctx = I.ctx
        r = ctx.fresh_ref(self.TSB, "blk")
        ctx.assume(r.term >= 0)
        j = z3.Int(fresh_name("ja"))
        # allocation: a new object, different from every child block and from the blocks created so far
        ctx.assume(z3.ForAll([j], z3.And(r.term != START(j), r.term != END(j))))
        for b in ctx.ghost.setdefault("created", []):
            ctx.assume(r.term != b[0].term)
        ctx.ghost["created"].append((r, args[0] if args else None))
        I.engine.heap_write(ctx, r, "nextBlock", REF(self.TealBlock, optional=True), None)
        return r

    def c_set_next(self, I, args, kwargs):
        blk, nxt = args
        I.engine.heap_write(I.ctx, blk, "nextBlock", REF(self.TealBlock, optional=True), nxt)
        return None

    def base_setup(self, ctx, I):
        args = stamp(SList(REF(Child), name="args"))
        args.frozen = True
        n = args.length
        ctx.assume(n >= 0)
        i, j = z3.Int("ai!"), z3.Int("aj!")
        ctx.assume(z3.ForAll([i], z3.And(START(i) >= 0, END(i) >= 0, z3.Select(args.arr, i) >= 0)))
        ctx.assume(z3.ForAll([i, j], z3.Implies(i != j, z3.And(END(i) != END(j), START(i) != START(j)))))       # separate allocations
        options = SRef(z3.Int("options"), object)
        ctx.assume(options.term >= 0)
        H0 = self.heap(ctx)
        ctx.ghost.update(args=args, options=options, H0=H0)
        return args, options

    def frame(self, ctx, written):
        """every block other than those in `written` (a predicate on block terms) keeps its nextBlock"""
        b = z3.Int("fb!")
        return z3.ForAll([b], z3.Implies(z3.Not(written(b)), z3.Select(self.heap(ctx), b) == z3.Select(ctx.ghost["H0"], b)))


class FromOp(_Link):
    target = "pyteal.ir.tealblock.TealBlock.FromOp"

    def __init__(self):
        super().__init__()
        self.loops = {("TealBlock.FromOp", 0): LoopSpec(inv=self.inv, modifies=("heap:nextBlock",), havoc=self.havoc)}

    def setup(self, ctx, I):
        from pyvc.interp import _StarArgs
        args, options = self.base_setup(ctx, I)
        op = SRef(z3.Int("op"), self.TealOp)
        ctx.ghost["op"] = op
        return {"args": [self.TealBlock, options, op, _StarArgs(args)]}

    def havoc(self, ctx, env, it):
        ctx.ghost["cur_index"] = it.k
        # `start` / `prevArgEnd` are None before the first child and blocks afterwards: one abstract reference each
        env.set("start", SRef(z3.Int(fresh_name("start")), self.TealBlock))
        env.set("prevArgEnd", SRef(z3.Int(fresh_name("prevArgEnd")), self.TSB))

    def inv(self, ctx, env, it):
        g = ctx.ghost
        g["cur_index"] = it.k
        H = self.heap(ctx)
        k = it.k
        i = z3.Int("li!")
        opb = g["created"][0][0].term
        written = lambda b: z3.Or(b == opb, z3.Exists([i], z3.And(i >= 0, i < k - 1, b == END(i))))
        out = [("links-so-far", z3.ForAll([i], z3.Implies(z3.And(i >= 0, i < k - 1), z3.Select(H, END(i)) == START(i + 1)))),
               ("op-block-open", z3.Select(H, opb) == NONE_REF),
               ("frame", self.frame(ctx, written))]
        if it.phase != "init":
            out += [("start-is-first-child", unwrap(env["start"]) == z3.If(k > 0, START(0), NONE_REF)),
                    ("previous-end", unwrap(env["prevArgEnd"]) == z3.If(k > 0, END(k - 1), NONE_REF))]
        return out

    def post(self, ctx, I, outcome, st):
        if outcome[0] != "return":
            ctx.oblige("never-raises", False)
            return
        g = ctx.ghost
        n = g["args"].length
        H = self.heap(ctx)
        s, e = outcome[1]
        opb = g["created"][0][0]
        ctx.oblige("post/op-block-holds-exactly-the-op", z3.BoolVal(isinstance(g["created"][0][1], list) and len(g["created"][0][1]) == 1 and g["created"][0][1][0] is g["op"] and len(g["created"]) == 1))
        ctx.oblige("post/end-is-the-op-block", unwrap(e) == opb.term)
        ctx.oblige("post/start", unwrap(s) == z3.If(n == 0, opb.term, START(0)))
        i = z3.Int("pi!")
        ctx.oblige("post/children-linked-in-order", z3.ForAll([i], z3.Implies(z3.And(i >= 0, i < n - 1), z3.Select(H, END(i)) == START(i + 1))))
        ctx.oblige("post/last-child-linked-to-op", z3.Implies(n > 0, z3.Select(H, END(n - 1)) == opb.term))
        ctx.oblige("post/op-block-has-no-successor", z3.Select(H, opb.term) == NONE_REF)
        ctx.oblige("post/frame", self.frame(ctx, lambda b: z3.Or(b == opb.term, z3.Exists([i], z3.And(i >= 0, i < n, b == END(i))))))


class NaryTeal(_Link):
    target = "pyteal.ast.naryexpr.NaryExpr.__teal__"

    def __init__(self):
        super().__init__()
        from pyteal.ast.naryexpr import NaryExpr
        self.NaryExpr = NaryExpr
        self.fields[(NaryExpr, "args")] = lambda ctx, ref: ctx.ghost["args"]
        self.fields[(NaryExpr, "op")] = lambda ctx, ref: ctx.ghost["the_op"]
        self.callees[self.TSB] = self.c_op_block
        self.loops = {("NaryExpr.__teal__", 0): LoopSpec(inv=self.inv, modifies=("heap:nextBlock",), havoc=self.havoc)}

    def c_op_block(self, I, args, kwargs):
        ctx = I.ctx
        idx = ctx.ghost["cur_index"]
        ok = isinstance(args[0], list) and len(args[0]) == 1 and isinstance(args[0][0], tuple) and args[0][0][0] == "tealop" \
            and args[0][0][1] is ctx.ghost["self"] and args[0][0][2] is ctx.ghost["the_op"]
        if not ok:
            raise Unsupported("operator block does not hold exactly [TealOp(self, self.op)]")
        r = SRef(OPB(idx), self.TSB)
        I.engine.heap_write(ctx, r, "nextBlock", REF(self.TealBlock, optional=True), None)
        return r

    def setup(self, ctx, I):
        args, options = self.base_setup(ctx, I)
        i, j = z3.Int("oi!"), z3.Int("oj!")
        ctx.assume(z3.ForAll([i, j], z3.And(OPB(i) >= 0, OPB(i) != START(j), OPB(i) != END(j), z3.Implies(i != j, OPB(i) != OPB(j)))))   # allocation
        me = SRef(z3.Int("self"), self.NaryExpr)
        ctx.ghost.update(self=me, the_op=SRef(z3.Int("nary_op"), object))
        return {"args": [me, options]}

    def havoc(self, ctx, env, it):
        ctx.ghost["cur_index"] = it.k
        env.set("start", SRef(z3.Int(fresh_name("start")), self.TealBlock))
        env.set("end", SRef(z3.Int(fresh_name("end")), self.TSB))

    def chain(self, ctx, H, k):
        """links established after k children"""
        i = z3.Int("ci!")
        return z3.ForAll([i], z3.Implies(z3.And(i >= 1, i < k), z3.And(
            z3.Select(H, z3.If(i == 1, END(0), OPB(i - 1))) == START(i), z3.Select(H, END(i)) == OPB(i))))

    def inv(self, ctx, env, it):
        g = ctx.ghost
        g["cur_index"] = it.k
        H = self.heap(ctx)
        k = it.k
        i = z3.Int("wi!")
        written = lambda b: z3.Exists([i], z3.And(i >= 0, i < k, z3.Or(b == END(i), z3.And(i >= 1, b == OPB(i)))))
        out = [("links-so-far", self.chain(ctx, H, k)),
               ("last-op-block-open", z3.Implies(k >= 2, z3.Select(H, OPB(k - 1)) == NONE_REF)),
               ("frame", self.frame(ctx, written))]
        if it.phase != "init":
            out += [("start-is-first-child", unwrap(env["start"]) == z3.If(k > 0, START(0), NONE_REF)),
                    ("end-so-far", unwrap(env["end"]) == z3.If(k == 0, NONE_REF, z3.If(k == 1, END(0), OPB(k - 1))))]
        return out

    def post(self, ctx, I, outcome, st):
        if outcome[0] != "return":
            ctx.oblige("never-raises", False)
            return
        g = ctx.ghost
        n = g["args"].length
        H = self.heap(ctx)
        s, e = outcome[1]
        i = z3.Int("qi!")
        if s is None or e is None:
            ctx.oblige("post/none-only-without-arguments", n == 0)
            return
        ctx.oblige("post/start", unwrap(s) == z3.If(n == 0, NONE_REF, START(0)))
        ctx.oblige("post/end", unwrap(e) == z3.If(n == 0, NONE_REF, z3.If(n == 1, END(0), OPB(n - 1))))
        ctx.oblige("post/chain", self.chain(ctx, H, n))
        ctx.oblige("post/last-op-block-has-no-successor", z3.Implies(n >= 2, z3.Select(H, OPB(n - 1)) == NONE_REF))
        ctx.oblige("post/frame", self.frame(ctx, lambda b: z3.Exists([i], z3.And(i >= 0, i < n, z3.Or(b == END(i), z3.And(i >= 1, b == OPB(i)))))))


class SeqTeal(_Link):
    target = "pyteal.ast.seq.Seq.__teal__"

    def __init__(self):
        super().__init__()
        from pyteal.ast.seq import Seq
        self.Seq = Seq
        self.fields[(Seq, "args")] = lambda ctx, ref: ctx.ghost["args"]
        self.loops = {("Seq.__teal__", 0): LoopSpec(inv=self.inv, modifies=("heap:nextBlock",), havoc=self.havoc)}

    def setup(self, ctx, I):
        args, options = self.base_setup(ctx, I)
        me = SRef(z3.Int("self"), self.Seq)
        return {"args": [me, options]}

    def havoc(self, ctx, env, it):
        ctx.ghost["cur_index"] = it.k

    def inv(self, ctx, env, it):
        g = ctx.ghost
        g["cur_index"] = it.k
        H = self.heap(ctx)
        k = it.k
        S = g["created"][0][0].term
        i = z3.Int("si!")
        written = lambda b: z3.Or(b == S, z3.Exists([i], z3.And(i >= 0, i < k - 1, b == END(i))))
        return [("head-linked", z3.If(k > 0, z3.Select(H, S) == START(0), z3.Select(H, S) == NONE_REF)),
                ("links-so-far", z3.ForAll([i], z3.Implies(z3.And(i >= 0, i < k - 1), z3.Select(H, END(i)) == START(i + 1)))),
                ("start-and-end", z3.And(unwrap(env["start"]) == S, unwrap(env["end"]) == z3.If(k == 0, S, END(k - 1)))),
                ("frame", self.frame(ctx, written))]

    def post(self, ctx, I, outcome, st):
        if outcome[0] != "return":
            ctx.oblige("never-raises", False)
            return
        g = ctx.ghost
        n = g["args"].length
        H = self.heap(ctx)
        s, e = outcome[1]
        S = g["created"][0]
        i = z3.Int("ri!")
        ctx.oblige("post/head-is-a-fresh-empty-block", z3.BoolVal(len(g["created"]) == 1 and S[1] == []))
        ctx.oblige("post/start", unwrap(s) == S[0].term)
        ctx.oblige("post/end", unwrap(e) == z3.If(n == 0, S[0].term, END(n - 1)))
        ctx.oblige("post/head-linked-to-first-child", z3.If(n > 0, z3.Select(H, S[0].term) == START(0), z3.Select(H, S[0].term) == NONE_REF))
        ctx.oblige("post/children-linked-in-order", z3.ForAll([i], z3.Implies(z3.And(i >= 0, i < n - 1), z3.Select(H, END(i)) == START(i + 1))))
        ctx.oblige("post/frame", self.frame(ctx, lambda b: z3.Or(b == S[0].term, z3.Exists([i], z3.And(i >= 0, i < n - 1, b == END(i))))))


CS, CE, PS, PE, BR = (z3.Function(n, I_, I_) for n in ("condStart", "condEnd", "predStart", "predEnd", "branchBlockOf"))


class CondChild:
    def __teal__(self, options):  # pragma: no cover
        raise RuntimeError


class PredChild:
    def __teal__(self, options):  # pragma: no cover
        raise RuntimeError


class Arms:
    def __init__(self, n):
        self.n = n

    def pyvc_iter(self, I):
        return self.n, (lambda k: (SRef(z3.Int(fresh_name("cond")), CondChild), SRef(z3.Int(fresh_name("pred")), PredChild)))


class CondTeal(_Link):
    """Cond([c_0, p_0], ..., [c_{n-1}, p_{n-1}]), n >= 1:
         c_0 .. -> B_0 -true-> p_0 .. -> E        B_i a fresh conditional block (root_expr = c_i), E a fresh empty block (the result's end)
                   B_0 -false-> c_1 .. -> B_1 ... ;  B_{n-1} -false-> [err]       result (start of c_0, E);  nothing else written."""
    target = "pyteal.ast.cond.Cond.__teal__"

    def __init__(self):
        super().__init__()
        from pyteal.ast.cond import Cond
        from pyteal.ir import TealConditionalBlock, Op
        self.Cond, self.TCB, self.Op = Cond, TealConditionalBlock, Op
        opt = REF(self.TealBlock, optional=True)
        self.fields.update({(TealConditionalBlock, "trueBlock"): opt, (TealConditionalBlock, "falseBlock"): opt, (self.TealBlock, "trueBlock"): opt, (self.TealBlock, "falseBlock"): opt,
                            (Cond, "args"): lambda ctx, ref: ctx.ghost["arms"]})
        self.callees.update({
            CondChild.__dict__["__teal__"]: lambda I, a, k: (SRef(CS(I.ctx.ghost["cur_index"]), self.TealBlock), SRef(CE(I.ctx.ghost["cur_index"]), self.TSB)),
            PredChild.__dict__["__teal__"]: lambda I, a, k: (SRef(PS(I.ctx.ghost["cur_index"]), self.TealBlock), SRef(PE(I.ctx.ghost["cur_index"]), self.TSB)),
            TealConditionalBlock: self.c_branch,
            TealConditionalBlock.__dict__["setTrueBlock"]: lambda I, a, k: I.engine.heap_write(I.ctx, a[0], "trueBlock", opt, a[1]),
            TealConditionalBlock.__dict__["setFalseBlock"]: lambda I, a, k: I.engine.heap_write(I.ctx, a[0], "falseBlock", opt, a[1]),
            self.TealOp: lambda I, a, k: ("tealop", a[0], a[1]),
        })
        self.loops = {("Cond.__teal__", 0): LoopSpec(inv=self.inv, modifies=("heap:nextBlock", "heap:trueBlock", "heap:falseBlock"), havoc=self.havoc)}

    def hp(self, ctx, name):
        return ctx.ghost["I"].engine._heap(ctx, name, REF(self.TealBlock, optional=True))[name]

    def c_branch(self, I, args, kwargs):
        ctx = I.ctx
        if args != [[]] or set(kwargs) != {"root_expr"}:
            raise Unsupported("branch block is not TealConditionalBlock([], root_expr=cond)")
        r = SRef(BR(ctx.ghost["cur_index"]), self.TCB)
        ctx.ghost["branch_roots_ok"] = ctx.ghost.get("branch_roots_ok", True) and (kwargs["root_expr"] is ctx.ghost.get("cur_cond"))
        return r

    def setup(self, ctx, I):
        n = z3.Int("n_arms")
        ctx.assume(n >= 1)          # Cond.__init__ rejects an empty argument list
        i, j = z3.Int("ci!"), z3.Int("cj!")
        fs = (CS, CE, PS, PE, BR)
        ctx.assume(z3.ForAll([i], z3.And(*[f(i) >= 0 for f in fs])))
        # allocation: all these blocks are different objects
        ctx.assume(z3.ForAll([i, j], z3.And(*[f(i) != g(j) for f in fs for g in fs if f is not g])))
        ctx.assume(z3.ForAll([i, j], z3.Implies(i != j, z3.And(*[f(i) != f(j) for f in fs]))))
        options = SRef(z3.Int("options"), object)
        me = SRef(z3.Int("self"), self.Cond)
        ctx.ghost.update(arms=Arms(n), n=n, options=options, self=me,
                         H0={h: self.hp(ctx, h) for h in ("nextBlock", "trueBlock", "falseBlock")})
        return {"args": [me, options]}

    def c_new_block(self, I, args, kwargs):
        ctx = I.ctx
        r = ctx.fresh_ref(self.TSB, "blk")
        ctx.assume(r.term >= 0)
        j = z3.Int(fresh_name("ja"))
        ctx.assume(z3.ForAll([j], z3.And(*[r.term != f(j) for f in (CS, CE, PS, PE, BR)])))
        for b in ctx.ghost.setdefault("created", []):
            ctx.assume(r.term != b[0].term)
        ctx.ghost["created"].append((r, args[0] if args else None))
        I.engine.heap_write(ctx, r, "nextBlock", REF(self.TealBlock, optional=True), None)
        return r

    def havoc(self, ctx, env, it):
        ctx.ghost["cur_index"] = it.k
        env.set("start", SRef(z3.Int(fresh_name("start")), self.TealBlock))
        env.set("prevBranch", SRef(z3.Int(fresh_name("prevBranch")), self.TCB))

    def links(self, ctx, k, E):
        i = z3.Int("li!")
        N, T, F_ = self.hp(ctx, "nextBlock"), self.hp(ctx, "trueBlock"), self.hp(ctx, "falseBlock")
        return z3.And(z3.ForAll([i], z3.Implies(z3.And(i >= 0, i < k), z3.And(z3.Select(N, CE(i)) == BR(i), z3.Select(T, BR(i)) == PS(i), z3.Select(N, PE(i)) == E))),
                      z3.ForAll([i], z3.Implies(z3.And(i >= 0, i < k - 1), z3.Select(F_, BR(i)) == CS(i + 1))))

    def frames(self, ctx, k, extra=lambda b: z3.BoolVal(False)):
        b, i = z3.Int("fb!"), z3.Int("fi!")
        H0 = ctx.ghost["H0"]
        E = ctx.ghost["created"][0][0].term
        wn = lambda x: z3.Or(x == E, extra(x), z3.Exists([i], z3.And(i >= 0, i < k, z3.Or(x == CE(i), x == PE(i)))))
        wt = lambda x: z3.Exists([i], z3.And(i >= 0, i < k, x == BR(i)))
        return z3.And(z3.ForAll([b], z3.Implies(z3.Not(wn(b)), z3.Select(self.hp(ctx, "nextBlock"), b) == z3.Select(H0["nextBlock"], b))),
                      z3.ForAll([b], z3.Implies(z3.Not(wt(b)), z3.Select(self.hp(ctx, "trueBlock"), b) == z3.Select(H0["trueBlock"], b))),
                      z3.ForAll([b], z3.Implies(z3.Not(wt(b)), z3.Select(self.hp(ctx, "falseBlock"), b) == z3.Select(H0["falseBlock"], b))))

    def inv(self, ctx, env, it):
        g = ctx.ghost
        g["cur_index"] = it.k
        k = it.k
        E = g["created"][0][0].term
        out = [("links-so-far", self.links(ctx, k, E)), ("end-block-open", z3.Select(self.hp(ctx, "nextBlock"), E) == NONE_REF), ("frame", self.frames(ctx, k))]
        if it.phase != "init":
            out += [("start-is-first-condition", unwrap(env["start"]) == z3.If(k > 0, CS(0), NONE_REF)),
                    ("previous-branch", unwrap(env["prevBranch"]) == z3.If(k > 0, BR(k - 1), NONE_REF))]
        return out

    def post(self, ctx, I, outcome, st):
        if outcome[0] != "return":
            ctx.oblige("never-raises", False)
            return
        g = ctx.ghost
        n = g["n"]
        s, e = outcome[1]
        created = g["created"]
        ok = len(created) == 2 and created[0][1] == [] and isinstance(created[1][1], list) and len(created[1][1]) == 1 and created[1][1][0][:1] == ("tealop",) \
            and created[1][1][0][1] is g["self"] and created[1][1][0][2] is self.Op.err
        ctx.oblige("post/end-block-empty-and-error-block-holds-err", z3.BoolVal(bool(ok)))
        if not ok:
            return
        E, ERR = created[0][0].term, created[1][0].term
        ctx.oblige("post/result", z3.And(unwrap(s) == CS(0), unwrap(e) == E))
        ctx.oblige("post/arms-linked", self.links(ctx, n, E))
        ctx.oblige("post/last-branch-falls-to-err", z3.Select(self.hp(ctx, "falseBlock"), BR(n - 1)) == ERR)
        ctx.oblige("post/end-and-err-blocks-open", z3.And(z3.Select(self.hp(ctx, "nextBlock"), E) == NONE_REF, z3.Select(self.hp(ctx, "nextBlock"), ERR) == NONE_REF))
        ctx.oblige("post/frame", self.frames(ctx, n, extra=lambda x: x == ERR))
