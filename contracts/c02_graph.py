"""Contract for pyteal.compiler.subroutines.graph_search (property C02: which calls are re-entrant decides where local slots are
spilled):   graph_search(graph, start, end)  returns True  iff  `end` is reachable from `start` by a path of at least one edge.

Graph: an arbitrary mapping node -> set of successor nodes, closed (every successor is a key).  REACH(x) ("x is reachable from
start in >= 1 steps") is the least predicate with   EDGE(start, x) -> REACH(x)   and   REACH(y) & EDGE(y, z) -> REACH(z).
The two closure rules are used as they stand; the *induction principle* of the least fixed point is used once, instantiated with the
final visited set V (if V contains the successors of start and is closed under edges, it contains every reachable node) - stated
explicitly as hypothesis `lfp-induction` in the evidence (a property of the definition of reachability, not of the code).
Loop invariant: everything on the stack or visited is reachable; `end` is not yet visited; every successor of `start` and of a
visited node is visited or still on the stack (ghost position witnesses).  Node equality / hashing is object identity
(SubroutineDefinition: equality by id + implementation, ids are unique per definition - class fact).  Termination is not proved.
"""
from __future__ import annotations

import z3

from pyvc.values import *  # noqa
from pyvc.engine import LoopSpec, Unsupported, RaiseSignal
from pyvc.verifier import Contract, stamp

I_ = z3.IntSort()
B_ = z3.BoolSort()
SUCC = z3.Function("successorsOf", I_, z3.ArraySort(I_, B_))
HASKEY = z3.Function("isGraphKey", I_, B_)
REACH = z3.Function("reachableFromStart", I_, B_)
F = "graph_search"


class Node:
    pass


class Graph:
    def __init__(self, c):
        self.c = c

    def pyvc_index(self, I, key, node):
        k = unwrap(key)
        if not I.ctx.branch(HASKEY(k)):
            raise RaiseSignal(KeyError, node)
        s = stamp(SSet(REF(Node), member=SUCC(k), name="succ"))
        I.ctx.assume(s.card >= 0)
        I.ctx.ghost["last_succ"] = s
        return s


class GraphSearch(Contract):
    target = "pyteal.compiler.subroutines.graph_search"
    max_paths = 2000

    def __init__(self):
        self.raises_only = ()
        self.inline_ok = ()
        self.fields, self.callees = {}, {}
        self.var_kinds = {(F, "visited"): self.mk_visited,
                          (F, "stack"): self.mk_stack}
        self.loops = {(F, 0): LoopSpec(inv=self.inv, modifies=("stack", "visited"), havoc=self.havoc, ghost_step=self.step)}

    def mk_visited(self, ctx, v):
        s = stamp(SSet(REF(Node), member=z3.K(I_, z3.BoolVal(False)), name="visited"))
        ctx.ghost["visited_obj"] = s
        return s

    def mk_stack(self, ctx, v):
        if not isinstance(v, SList) or getattr(v, "enum_of", None) is not ctx.ghost.get("last_succ"):
            raise Unsupported("stack does not start as list(graph[start])")
        l = stamp(SList(REF(Node), arr=v.arr, length=v.length, name="stack"))
        z = z3.Int("zw!")
        pos = ctx.ghost["__set_pos__"][id(v.enum_of)]
        row = z3.Array("pendingStart0", I_, I_)
        ctx.assume(z3.ForAll([z], z3.Select(row, z) == pos(z)))       # definition of the ghost witness
        ctx.ghost["PWS"] = row
        return l

    def setup(self, ctx, I):
        start, end = SRef(z3.Int("start"), Node), SRef(z3.Int("end"), Node)
        ctx.assume(z3.And(start.term >= 0, end.term >= 0, HASKEY(start.term)))
        x, y, z = z3.Int("gx!"), z3.Int("gy!"), z3.Int("gz!")
        edge = lambda a, b: z3.Select(SUCC(a), b)
        ctx.assume(z3.ForAll([y, z], z3.Implies(z3.And(HASKEY(y), edge(y, z)), z3.And(HASKEY(z), z >= 0))))          # closed graph
        ctx.assume(z3.ForAll([x], z3.Implies(edge(start.term, x), REACH(x))))                                          # closure rule 1
        ctx.assume(z3.ForAll([y, z], z3.Implies(z3.And(REACH(y), edge(y, z)), REACH(z))))                              # closure rule 2
        pw0 = z3.Function("pendingAt0", I_, I_, I_)
        ctx.ghost.update(start=start, end=end, PW=pw0)
        return {"args": [Graph(self), start, end]}

    def havoc(self, ctx, env, it):
        ctx.ghost["PW"] = z3.Function(fresh_name("pendingAt"), I_, I_, I_)
        ctx.ghost["PWS"] = z3.Array(fresh_name("pendingStart"), I_, I_)
        ctx.ghost["V_pre"] = env["visited"].member
        ctx.ghost["stack_pre"] = (env["stack"].arr, env["stack"].length)

    def step(self, ctx, env, it, broke):
        g = ctx.ghost
        if broke == "continue":
            return      # `current` was already visited: nothing was pushed, the witnesses stay
        cur = env["current"].term
        # reached only when `current` was new and is not `end`: its successors were appended on top of the stack
        s = g["last_succ"]
        pos = g["__set_pos__"].get(id(s))
        if pos is None:
            return
        base = env["stack"].length - s.card
        # lemmas about the stack after `pop` + `+= list(graph[current])`, proved on their own and then used (cut rule)
        st = env["stack"]
        a0, L = g["stack_pre"]
        zz, pp = z3.Int(fresh_name("lz")), z3.Int(fresh_name("lp"))
        lemmas = [("pushed-successors-sit-at-their-witness-position",
                   z3.ForAll([zz], z3.Implies(z3.Select(SUCC(cur), zz), z3.And(base + pos(zz) >= 0, base + pos(zz) < st.length, z3.Select(st.arr, base + pos(zz)) == zz)))),
                  ("stack-below-the-popped-top-unchanged",
                   z3.And(st.length >= L - 1, z3.ForAll([pp], z3.Implies(z3.And(pp >= 0, pp < L - 1), z3.Select(st.arr, pp) == z3.Select(a0, pp)))))]
        for name, f in lemmas:
            ctx.oblige("graph_search/loop0/lemma/" + name, f)
            ctx.assume(f)
        y, z = z3.Int(fresh_name("yw")), z3.Int(fresh_name("zw"))
        old = g["PW"]
        new = z3.Function(fresh_name("pendingAt"), I_, I_, I_)
        # definition of the updated ghost witness: the row of `current` points into the block just pushed
        ctx.assume(z3.ForAll([y, z], new(y, z) == z3.If(y == cur, base + pos(z), old(y, z))))
        g["PW"] = new

    def inv(self, ctx, env, it):
        g = ctx.ghost
        stack, V = env["stack"], env["visited"].member
        start, end = g["start"].term, g["end"].term
        p, x, y, z = z3.Int("ip!"), z3.Int("ix!"), z3.Int("iy!"), z3.Int("iz!")
        edge = lambda a, b: z3.Select(SUCC(a), b)
        at = lambda q: z3.Select(stack.arr, q)
        pend = lambda w, node: z3.And(w >= 0, w < stack.length, at(w) == node)
        return [
            ("stack-length", stack.length >= 0),
            ("stack-nodes-reachable", z3.ForAll([p], z3.Implies(z3.And(p >= 0, p < stack.length), z3.And(REACH(at(p)), HASKEY(at(p)))))),
            ("visited-nodes-reachable-and-not-end", z3.ForAll([x], z3.Implies(z3.Select(V, x), z3.And(REACH(x), HASKEY(x), x != end)))),
            ("successors-of-start-visited-or-pending", z3.ForAll([x], z3.Implies(edge(start, x), z3.Or(z3.Select(V, x), pend(z3.Select(g["PWS"], x), x))))),
            ("successors-of-visited-visited-or-pending", z3.ForAll([y, z], z3.Implies(z3.And(z3.Select(V, y), edge(y, z)),
                                                                                      z3.Or(z3.Select(V, z), pend(g["PW"](y, z), z))))),
        ]

    def post(self, ctx, I, outcome, st):
        if outcome[0] != "return":
            ctx.oblige("never-raises", False)
            return
        g = ctx.ghost
        end, start = g["end"].term, g["start"].term
        r = outcome[1]
        if r is True:
            ctx.oblige("true-only-if-reachable", REACH(end))
        elif r is False:
            # induction principle of the least fixed point REACH, instantiated with the final visited set
            V = ctx.ghost["I"].contract._final_visited(ctx)
            x, y, z = z3.Int("px!"), z3.Int("py!"), z3.Int("pz!")
            edge = lambda a, b: z3.Select(SUCC(a), b)
            closed = z3.And(z3.ForAll([x], z3.Implies(edge(start, x), z3.Select(V, x))),
                            z3.ForAll([y, z], z3.Implies(z3.And(z3.Select(V, y), edge(y, z)), z3.Select(V, z))))
            ctx.oblige("false/visited-set-closed-under-edges", closed)
            ctx.assume(z3.Implies(closed, z3.ForAll([x], z3.Implies(REACH(x), z3.Select(V, x)))))      # lfp-induction (see module docstring)
            ctx.oblige("false-only-if-unreachable", z3.Not(REACH(end)))
        else:
            ctx.oblige("result-is-a-boolean-constant", False)

    def _final_visited(self, ctx):
        return ctx.ghost["visited_obj"].member
