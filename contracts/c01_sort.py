"""Contract for pyteal.compiler.sort.sortBlocks (properties C01 / C04 / C20): the list it returns satisfies the precondition
`wf_blocks` that the flattenBlocks contract requires.

For every block graph (cycles, sharing, self loops; getOutgoing returns 0, 1 or 2 blocks - the two block classes):
  returns `order` with
    (distinct)   no block occurs twice
    (closed)     every successor (getOutgoing) of a block in `order` is in `order`
    (entry)      `start` is in `order`
    (end-last)   the last element is `end`
  raises TealInternalError exactly when `end` was not found among the visited blocks; raises nothing else (no IndexError on the
  stack / list operations)
Ghost state: INORD (block -> visited), POS (block -> its index), PW (index, k -> stack position still holding the k-th successor).
Not proved: that only reachable blocks are listed (every listed block was pushed as a successor of a listed block or is `start` -
true by construction of the stack, not stated), termination (the visited set grows; partial correctness only).
"""
from __future__ import annotations

import z3

from pyvc.values import *  # noqa
from pyvc.engine import LoopSpec, Unsupported
from pyvc.verifier import Contract, stamp

I_ = z3.IntSort()
B_ = z3.BoolSort()
NOUT = z3.Function("numOutgoing", I_, I_)
OUT = z3.Function("outgoingOf", I_, I_, I_)
F = "sortBlocks"


class SortBlocks(Contract):
    target = "pyteal.compiler.sort.sortBlocks"
    max_paths = 2000

    def __init__(self):
        from pyteal.ir import TealBlock
        from pyteal.errors import TealInternalError
        self.TealBlock = TealBlock
        self.raises_only = (TealInternalError,)
        self.inline_ok = ()
        self.fields = {}
        self.callees = {TealBlock.__dict__["getOutgoing"]: self.c_out}
        self.var_kinds = {(F, "S"): self.mk_stack, (F, "order"): self.mk_order, (F, "visited"): self.mk_visited}
        self.loops = {(F, 0): LoopSpec(inv=self.inv_dfs, modifies=("S", "order", "visited"), havoc=self.havoc_dfs, ghost_step=self.step_dfs),
                      (F, 1): LoopSpec(inv=self.inv_find)}

    def c_out(self, I, args, kwargs):
        b = args[0].term
        ctx = I.ctx
        n = NOUT(b)
        ctx.assume(z3.And(n >= 0, n <= 2, z3.Implies(n >= 1, OUT(b, 0) >= 0), z3.Implies(n >= 2, OUT(b, 1) >= 0)))
        if ctx.branch(n == 0):
            return []
        if ctx.branch(n == 1):
            return [SRef(OUT(b, 0), self.TealBlock)]
        return [SRef(OUT(b, 0), self.TealBlock), SRef(OUT(b, 1), self.TealBlock)]

    def mk_stack(self, ctx, v):
        if not (isinstance(v, list) and len(v) == 1 and v[0] is ctx.ghost["start"]):
            raise Unsupported("S does not start as [start]")
        l = stamp(SList(REF(self.TealBlock), name="S"))
        l.arr = z3.Store(l.arr, 0, v[0].term)
        l.length = z3.IntVal(1)
        return l

    def mk_order(self, ctx, v):
        l = stamp(SList(REF(self.TealBlock), name="order"))
        l.length = z3.IntVal(0)
        return l

    def mk_visited(self, ctx, v):
        return stamp(SSet(INT, member=z3.K(I_, z3.BoolVal(False)), name="visited"))

    def setup(self, ctx, I):
        start = SRef(z3.Int("start"), self.TealBlock)
        end = SRef(z3.Int("end"), self.TealBlock)
        ctx.assume(z3.And(start.term >= 0, end.term >= 0))
        ctx.ghost.update(start=start, end=end, INORD=z3.K(I_, z3.BoolVal(False)), POS=z3.K(I_, z3.IntVal(-1)),
                         PW=z3.K(I_, z3.K(I_, z3.IntVal(-1))))
        return {"args": [start, end]}

    # ---- loop 0: depth-first traversal -----------------------------------------------------------------------------------
    def havoc_dfs(self, ctx, env, it):
        ctx.ghost["INORD"] = z3.Array(fresh_name("inOrder"), I_, B_)
        ctx.ghost["POS"] = z3.Array(fresh_name("posOf"), I_, I_)
        ctx.ghost["PW"] = z3.Array(fresh_name("pendingAt"), I_, z3.ArraySort(I_, I_))

    def step_dfs(self, ctx, env, it, broke):
        g = ctx.ghost
        n = env["n"].term
        S, order = env["S"], env["order"]
        was = z3.Select(g["INORD"], n)
        # when n was new it has just been appended at index len(order)-1 and its successors sit on top of the stack
        idx = order.length - 1
        base = S.length - NOUT(n)
        row = z3.Store(z3.Store(z3.Select(g["PW"], idx), 0, base), 1, base + 1)
        g["PW"] = z3.If(was, g["PW"], z3.Store(g["PW"], idx, row))
        g["POS"] = z3.If(was, g["POS"], z3.Store(g["POS"], n, idx))
        g["INORD"] = z3.Store(g["INORD"], n, z3.BoolVal(True))

    def inv_dfs(self, ctx, env, it):
        g = ctx.ghost
        S, order, visited = env["S"], env["order"], env["visited"]
        INORD, POS, PW = g["INORD"], g["POS"], g["PW"]
        i, j, k, x, p = z3.Int("si!"), z3.Int("sj!"), z3.Int("sk!"), z3.Int("sx!"), z3.Int("sp!")
        o = lambda t: z3.Select(order.arr, t)
        succ = OUT(o(i), k)
        return [
            ("lengths-non-negative", z3.And(S.length >= 0, order.length >= 0)),
            ("stack-holds-blocks", z3.ForAll([p], z3.Implies(z3.And(p >= 0, p < S.length), z3.Select(S.arr, p) >= 0))),
            ("visited-is-the-set-of-listed-blocks", z3.ForAll([x], z3.Select(visited.member, x) == z3.Select(INORD, x))),
            ("listed-blocks-indexed", z3.ForAll([i], z3.Implies(z3.And(i >= 0, i < order.length), z3.And(o(i) >= 0, z3.Select(INORD, o(i)), z3.Select(POS, o(i)) == i)))),
            ("index-is-inverse", z3.ForAll([x], z3.Implies(z3.Select(INORD, x), z3.And(z3.Select(POS, x) >= 0, z3.Select(POS, x) < order.length, o(z3.Select(POS, x)) == x)))),
            ("successors-listed-or-pending", z3.ForAll([i, k], z3.Implies(z3.And(i >= 0, i < order.length, k >= 0, k < NOUT(o(i))),
                                                                         z3.Or(z3.Select(INORD, succ),
                                                                               z3.And(z3.Select(z3.Select(PW, i), k) >= 0, z3.Select(z3.Select(PW, i), k) < S.length,
                                                                                      z3.Select(S.arr, z3.Select(z3.Select(PW, i), k)) == succ))))),
            ("start-listed-or-pending", z3.Or(z3.Select(INORD, g["start"].term), z3.And(S.length >= 1, z3.Select(S.arr, 0) == g["start"].term))),
        ]

    # ---- loop 1: find `end` -------------------------------------------------------------------------------------------------
    def inv_find(self, ctx, env, it):
        order = env["order"]
        j = z3.Int("fj!")
        return [("not-found-so-far", z3.And(env["endIndex"] == -1, z3.ForAll([j], z3.Implies(z3.And(j >= 0, j < it.k), z3.Select(order.arr, j) != ctx.ghost["end"].term))))]

    # ---- postcondition ---------------------------------------------------------------------------------------------------------
    def post(self, ctx, I, outcome, st):
        g = ctx.ghost
        INORD, POS = g["INORD"], g["POS"]
        end, start = g["end"].term, g["start"].term
        if outcome[0] == "raise":
            ctx.oblige("raises-only-when-end-was-not-reached", z3.Not(z3.Select(INORD, end)))
            return
        r = outcome[1]
        if not isinstance(r, SList):
            raise Unsupported("result is not the order list")
        n = r.length
        o = lambda t: z3.Select(r.arr, t)
        i, j, k = z3.Int("pi!"), z3.Int("pj!"), z3.Int("pk!")
        e0 = z3.Select(POS, end)          # where `end` was before it was moved to the back
        final_pos = lambda b: z3.If(b == end, n - 1, z3.If(z3.Select(POS, b) < e0, z3.Select(POS, b), z3.Select(POS, b) - 1))
        ctx.oblige("post/end-was-reached", z3.Select(INORD, end))
        ctx.oblige("post/non-empty-and-end-last", z3.And(n >= 1, o(n - 1) == end))
        ctx.oblige("post/no-block-twice", z3.ForAll([i, j], z3.Implies(z3.And(i >= 0, i < j, j < n), o(i) != o(j))))
        ctx.oblige("post/listed-iff-visited", z3.ForAll([i], z3.Implies(z3.And(i >= 0, i < n), z3.Select(INORD, o(i)))))
        ctx.oblige("post/every-visited-block-listed", z3.ForAll([i], z3.Implies(z3.Select(INORD, i), z3.And(final_pos(i) >= 0, final_pos(i) < n, o(final_pos(i)) == i))))
        ctx.oblige("post/closed-under-successors", z3.ForAll([i, k], z3.Implies(z3.And(i >= 0, i < n, k >= 0, k < NOUT(o(i))), z3.Select(INORD, OUT(o(i), k)))))
        ctx.oblige("post/start-listed", z3.Select(INORD, start))
