"""Contracts for verifyOpsForVersion / verifyOpsForMode / verifyProgramVersion (property C04, obligation O4.1)."""
from __future__ import annotations

import z3

from pyvc.values import *  # noqa
from pyvc.engine import LoopSpec
from pyvc.verifier import Contract, stamp

minv = z3.Function("op_min_version", z3.IntSort(), z3.IntSort())
opmode = z3.Function("op_mode", z3.IntSort(), z3.IntSort())  # Flag value: 1 Signature, 2 Application, 3 both
isop = z3.Function("is_tealop", z3.IntSort(), z3.BoolSort())
opof = z3.Function("op_of", z3.IntSort(), z3.IntSort())


class _VerifyBase(Contract):
    def __init__(self):
        from pyteal.ir import TealComponent, TealOp, Op
        from pyteal.errors import TealInputError
        self.TealComponent, self.TealOp, self.Op = TealComponent, TealOp, Op
        self.raises_only = (TealInputError,)
        self.var_kinds = {}
        self.callees = {("isinstance", TealComponent): self.c_isinstance,
                        TealOp.__dict__["getOp"]: self.c_getOp}
        self.inline_ok = ()
        self.narrow = {TealComponent: [TealOp]}
        self.fields = {(Op, "min_version"): lambda ctx, ref: minv(ref.term),
                       (Op, "mode"): lambda ctx, ref: opmode(ref.term)}

    def c_isinstance(self, I, v, classes):
        if classes == (self.TealOp,) or classes is self.TealOp:
            return isop(v.term)
        raise Exception("unexpected isinstance")

    def c_getOp(self, I, args, kwargs):
        r = SRef(opof(args[0].term), self.Op)
        I.ctx.assume(z3.And(opmode(r.term) >= 1, opmode(r.term) <= 3))
        return r

    def mk_list(self, ctx):
        teal = stamp(SList(REF(self.TealComponent), name="teal"))
        ctx.assume(teal.length >= 0)
        j = z3.Int("j!")
        ctx.assume(z3.ForAll([j], z3.Select(teal.arr, j) >= 0))
        ctx.ghost["teal"] = teal
        return teal


class VerifyOpsForVersion(_VerifyBase):
    target = "pyteal.compiler.compiler.verifyOpsForVersion"

    def __init__(self):
        super().__init__()
        self.loops = {("verifyOpsForVersion", 0): LoopSpec(inv=self.inv)}

    def setup(self, ctx, I):
        teal = self.mk_list(ctx)
        version = z3.Int("version")
        ctx.ghost["version"] = version
        return {"args": [teal, version]}

    def legal(self, ctx, j):
        t = z3.Select(ctx.ghost["teal"].arr, j)
        return z3.Implies(isop(t), minv(opof(t)) <= ctx.ghost["version"])

    def inv(self, ctx, env, it):
        j = z3.Int("jv!")
        return [("all-earlier-ops-legal", z3.ForAll([j], z3.Implies(z3.And(j >= 0, j < it.k), self.legal(ctx, j))))]

    def post(self, ctx, I, outcome, st):
        teal = ctx.ghost["teal"]
        j = z3.Int("jp!")
        if outcome[0] == "raise":
            ctx.oblige("rejects-only-when-some-op-is-too-new",
                       z3.Exists([j], z3.And(j >= 0, j < teal.length, z3.Not(self.legal(ctx, j)))))
        else:
            ctx.oblige("accepts-only-when-every-op-exists-at-version",
                       z3.ForAll([j], z3.Implies(z3.And(j >= 0, j < teal.length), self.legal(ctx, j))))


class VerifyOpsForMode(_VerifyBase):
    target = "pyteal.compiler.compiler.verifyOpsForMode"

    def __init__(self):
        super().__init__()
        self.loops = {("verifyOpsForMode", 0): LoopSpec(inv=self.inv)}

    def setup(self, ctx, I):
        teal = self.mk_list(ctx)
        m = z3.Int("mode")
        ctx.assume(z3.Or(m == 1, m == 2))
        mode = 1 if ctx.branch(m == 1) else 2   # Mode.Signature = 1, Mode.Application = 2 (Flag values)
        ctx.ghost["mode"] = mode
        return {"args": [teal, mode]}

    def legal(self, ctx, j):
        t = z3.Select(ctx.ghost["teal"].arr, j)
        mode = ctx.ghost["mode"]
        om = opmode(opof(t))
        has = (om == 1) if False else z3.Or(om == mode, om == 3)
        return z3.Implies(isop(t), has)

    def inv(self, ctx, env, it):
        j = z3.Int("jv!")
        return [("all-earlier-ops-legal", z3.ForAll([j], z3.Implies(z3.And(j >= 0, j < it.k), self.legal(ctx, j))))]

    def post(self, ctx, I, outcome, st):
        teal = ctx.ghost["teal"]
        j = z3.Int("jp!")
        if outcome[0] == "raise":
            ctx.oblige("rejects-only-when-some-op-is-not-in-mode",
                       z3.Exists([j], z3.And(j >= 0, j < teal.length, z3.Not(self.legal(ctx, j)))))
        else:
            ctx.oblige("accepts-only-when-every-op-is-in-mode",
                       z3.ForAll([j], z3.Implies(z3.And(j >= 0, j < teal.length), self.legal(ctx, j))))


class VerifyProgramVersion(Contract):
    target = "pyteal.errors.verifyProgramVersion"

    def __init__(self):
        from pyteal.errors import TealInputError
        self.raises_only = (TealInputError,)
        self.callees, self.fields, self.var_kinds, self.loops = {}, {}, {}, {}

    def setup(self, ctx, I):
        a, b = z3.Ints("minVersion version")
        ctx.ghost.update(a=a, b=b)
        return {"args": [a, b, "msg"]}

    def post(self, ctx, I, outcome, st):
        a, b = ctx.ghost["a"], ctx.ghost["b"]
        if outcome[0] == "raise":
            ctx.oblige("rejects-iff-needs-newer-version", a > b)
        else:
            ctx.oblige("accepts-iff-version-suffices", a <= b)
