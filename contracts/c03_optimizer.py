"""Contracts for the scratch-slot optimiser (properties C03 / C05, obligations O3.4 / O3.5).

_has_load_dependencies(cur_block, start, slot, pos):
    returns True  <=>  some op other than the one at (cur_block, pos) in the graph reachable from `start` is a
    `load` of `slot`   (position identified by block *identity* and op index)
"""
from __future__ import annotations

import z3

from pyvc.values import *  # noqa
from pyvc.engine import LoopSpec, Unsupported
from pyvc.verifier import Contract, stamp

I_ = z3.IntSort()
OPSARR = z3.Function("opsOf", I_, z3.ArraySort(I_, I_))
OPSLEN = z3.Function("numOps", I_, I_)
ISOP = z3.Function("isTealOp", I_, z3.BoolSort())
OPC = z3.Function("opcodeOf", I_, I_)
USES = z3.Function("usesSlot", I_, I_, z3.BoolSort())
F = "_has_load_dependencies"


class SlotBag:
    def __init__(self, op):
        self.op = op

    def pyvc_contains(self, I, x):
        return USES(self.op.term, unwrap(x))


class HasLoadDependencies(Contract):
    target = "pyteal.compiler.optimizer.optimizer._has_load_dependencies"

    def __init__(self):
        from pyteal.ir import TealBlock, TealOp, Op
        from pyteal.ast import ScratchSlot
        self.TealBlock, self.TealOp, self.Op, self.ScratchSlot = TealBlock, TealOp, Op, ScratchSlot
        self.codes = {m: i for i, m in enumerate(Op)}
        self.raises_only = ()
        self.callees = {
            TealBlock.__dict__["Iterate"].__func__: self.c_iterate,
            ("type", TealOp): self.c_type,
            TealOp.__dict__["getSlots"]: lambda I, args, kwargs: SlotBag(args[0]),
        }
        self.fields = {(TealBlock, "ops"): self.f_ops, (TealOp, "op"): lambda ctx, ref: SRef(OPC(ref.term), Op)}
        self.var_kinds = {}
        self.loops = {(F, 0): LoopSpec(inv=self.inv_outer), (F, 1): LoopSpec(inv=self.inv_inner)}

    def f_ops(self, ctx, ref):
        l = stamp(SList(REF(self.TealOp), arr=OPSARR(ref.term), length=OPSLEN(ref.term), name="ops"))
        ctx.assume(OPSLEN(ref.term) >= 0)
        return l

    def c_type(self, I, ref):
        return self.TealOp if I.ctx.branch(ISOP(ref.term)) else object

    def c_iterate(self, I, args, kwargs):
        return I.ctx.ghost["blocks"]

    def setup(self, ctx, I):
        I.engine.eq_handlers[self.Op] = lambda I_, x, y: (OPC_of(x) == self.codes[y]) if not isinstance(y, SRef) else (x.term == y.term)
        blocks = stamp(SList(REF(self.TealBlock), name="reachable"))
        ctx.assume(blocks.length >= 0)
        j = z3.Int("jb!")
        ctx.assume(z3.ForAll([j], z3.Select(blocks.arr, j) >= 0))
        cur = SRef(z3.Int("cur_block"), self.TealBlock)
        start = SRef(z3.Int("start"), self.TealBlock)
        slot = SRef(z3.Int("slot"), self.ScratchSlot)
        pos = z3.Int("pos")
        ctx.assume(z3.And(cur.term >= 0, start.term >= 0, slot.term >= 0))
        ctx.ghost.update(blocks=blocks, cur=cur, slot=slot, pos=pos)
        return {"args": [cur, start, slot, pos]}

    def dep(self, ctx, b, i):
        """the op at index i of block b is a load of the slot and is not the op at (cur_block, pos)"""
        g = ctx.ghost
        op = z3.Select(OPSARR(b), i)
        return z3.And(z3.Not(z3.And(b == g["cur"].term, i == g["pos"])), ISOP(op), OPC(op) == self.codes[self.Op.load], USES(op, g["slot"].term))

    def inv_outer(self, ctx, env, it):
        blocks = ctx.ghost["blocks"]
        bj, i = z3.Ints("bj! oi!")
        b = z3.Select(blocks.arr, bj)
        return [("no-dependency-in-earlier-blocks",
                 z3.ForAll([bj, i], z3.Implies(z3.And(bj >= 0, bj < it.k, i >= 0, i < OPSLEN(b)), z3.Not(self.dep(ctx, b, i)))))]

    def inv_inner(self, ctx, env, it):
        i = z3.Int("oi2!")
        b = env["block"].term
        return [("no-dependency-in-earlier-ops", z3.ForAll([i], z3.Implies(z3.And(i >= 0, i < it.k), z3.Not(self.dep(ctx, b, i)))))]

    def post(self, ctx, I, outcome, st):
        if outcome[0] != "return":
            return
        blocks = ctx.ghost["blocks"]
        bj, i = z3.Ints("bjp! oip!")
        b = z3.Select(blocks.arr, bj)
        exists = z3.Exists([bj, i], z3.And(bj >= 0, bj < blocks.length, i >= 0, i < OPSLEN(b), self.dep(ctx, b, i)))
        res = outcome[1]
        if res is True:
            ctx.oblige("true-only-if-another-load-of-the-slot-exists", exists)
        elif res is False:
            ctx.oblige("false-only-if-no-other-load-of-the-slot-exists", z3.Not(exists))
        else:
            ctx.oblige("result-iff-another-load-exists", res == exists)


def OPC_of(x):
    return x.term


# ---- _apply_slot_to_stack ---------------------------------------------------------------------------------------------------------
NSL = z3.Function("numSlotsOf", I_, I_)
FST = z3.Function("firstSlotOf", I_, I_)
ALLSKIP = z3.Function("allSlotsSkipped", I_, z3.BoolSort())
HASDEP = z3.Function("anotherLoadExists", I_, I_, z3.BoolSort())      # meaning of _has_load_dependencies(cur_block, start, slot, pos) (its own contract)
NSTORES = z3.Function("storesOfSlotInRoutine", I_, I_)               # number of `store` ops of a slot in the routine
G = "_apply_slot_to_stack"


class SlotList:
    """op.getSlots(): a list whose length and first element are uninterpreted functions of the op"""

    def __init__(self, op, cls):
        self.op, self.cls = op, cls

    def pyvc_len(self):
        return NSL(self.op.term)

    def pyvc_index(self, I, idx, node):
        if not (isinstance(idx, int) and idx == 0):
            raise Unsupported("getSlots()[i] with i != 0")
        return SRef(FST(self.op.term), self.cls)


class SlotSet:
    """set(op.getSlots())"""

    def __init__(self, op):
        self.op = op

    def pyvc_method(self, I, name, args, kwargs, node):
        if name != "issubset" or len(args) != 1 or not isinstance(args[0], SSet):
            raise Unsupported(f"set(getSlots()).{name}")
        skip = args[0]
        want = I.ctx.ghost.get("subset_target")
        if want is not None:
            I.ctx.oblige("the-subset-test-is-against-the-set-the-contract-speaks-about", z3.BoolVal(skip is want))
        t = self.op.term
        # one-slot ops (every store / load): the set is {first}
        I.ctx.assume(z3.Implies(NSL(t) == 1, ALLSKIP(t) == skip.contains(FST(t))))
        return ALLSKIP(t)


class ApplySlotToStack(Contract):
    """The set handed to _remove_extraneous_slot_access contains only slots s such that
         (a) s is not in skip_slots,
         (b) cur_block has `store s` immediately followed by `load s` (both real TealOps with exactly one slot),
         (c) the pair's load is the only load of s in the routine (the callee _has_load_dependencies is used with its own contract O3.5),
         (d) s is stored nowhere else in the routine  -- removing every access of s is only then the same as cancelling the pair.
       (d) is what the property needs and what the code does not establish: the recorded finding O3.4."""
    target = "pyteal.compiler.optimizer.optimizer._apply_slot_to_stack"

    def __init__(self):
        from pyteal.ir import TealBlock, TealOp, Op
        from pyteal.ast import ScratchSlot
        from pyteal.errors import TealInternalError
        from pyteal.compiler.optimizer import optimizer as O
        self.TealBlock, self.TealOp, self.Op, self.ScratchSlot = TealBlock, TealOp, Op, ScratchSlot
        self.codes = {m: i for i, m in enumerate(Op)}
        self.raises_only = (TealInternalError,)
        self.callees = {
            ("type", TealOp): self.c_type,
            TealOp.__dict__["getSlots"]: lambda I, args, kwargs: SlotList(args[0], ScratchSlot),
            set: self.c_set,
            O._has_load_dependencies: self.c_hasdep,
            O._remove_extraneous_slot_access: self.c_remove,
        }
        self.fields = {(TealBlock, "ops"): self.f_ops, (TealOp, "op"): lambda ctx, ref: SRef(OPC(ref.term), Op)}
        self.var_kinds = {(G, "slots_to_remove"): lambda ctx, v: self.fresh_set(ctx)}
        self.loops = {(G, 0): LoopSpec(inv=self.inv, modifies=("slots_to_remove",))}

    def fresh_set(self, ctx):
        s = SSet(REF(self.ScratchSlot), name="slots_to_remove")
        x = z3.Int("x0!")
        ctx.assume(z3.ForAll([x], z3.Not(z3.Select(s.member, x))))
        ctx.assume(s.card == 0)
        return s

    def f_ops(self, ctx, ref):
        l = stamp(SList(REF(self.TealOp), arr=OPSARR(ref.term), length=OPSLEN(ref.term), name="ops"))
        ctx.assume(OPSLEN(ref.term) >= 0)
        return l

    def c_type(self, I, ref):
        return self.TealOp if I.ctx.branch(ISOP(ref.term)) else object

    def c_set(self, I, args, kwargs):
        if len(args) == 0:
            return self.fresh_set(I.ctx)
        if len(args) == 1 and isinstance(args[0], SlotList):
            return SlotSet(args[0].op)
        raise Unsupported("set() of something else")

    def c_hasdep(self, I, args, kwargs):
        cur, start, slot, pos = args
        g = I.ctx.ghost
        if not (isinstance(cur, SRef) and cur.term is g["cur"].term and isinstance(start, SRef) and start.term is g["start"].term):
            I.ctx.oblige("dependency-check-is-about-this-block-and-routine", z3.And(cur.term == g["cur"].term, start.term == g["start"].term))
        # the callee's own contract (HasLoadDependencies, O3.5): True iff a load of the slot exists at another place than (cur_block, pos)
        r = I.ctx.fresh_bool("hasdep") if hasattr(I.ctx, "fresh_bool") else z3.Bool(fresh_name("hasdep"))
        I.ctx.assume(r == self.other_load_exists(I.ctx, unwrap(slot), unwrap(pos)))
        return r

    def c_remove(self, I, args, kwargs):
        start, remove = args
        I.ctx.oblige("removal-covers-the-routine-the-check-was-made-for", start.term == I.ctx.ghost["start"].term)
        I.ctx.ghost["removed"] = remove
        return None

    def setup(self, ctx, I):
        I.engine.eq_handlers[self.Op] = lambda I_, x, y: (OPC_of(x) == self.codes[y]) if not isinstance(y, SRef) else (x.term == y.term)
        cur = SRef(z3.Int("cur_block"), self.TealBlock)
        start = SRef(z3.Int("start"), self.TealBlock)
        skip = SSet(REF(self.ScratchSlot), name="skip_slots")
        ctx.assume(z3.And(cur.term >= 0, start.term >= 0))
        # the routine: the blocks reachable from `start`; cur_block is one of them (the caller iterates over them)
        blocks = stamp(SList(REF(self.TealBlock), name="reachable"))
        jc = z3.Int("jcur")
        ctx.assume(z3.And(blocks.length >= 1, jc >= 0, jc < blocks.length, z3.Select(blocks.arr, jc) == cur.term))
        # one-slot ops use exactly their first slot
        o, y = z3.Int("o1!"), z3.Int("y1!")
        ctx.assume(z3.ForAll([o, y], z3.Implies(NSL(o) == 1, USES(o, y) == (y == FST(o)))))
        ctx.ghost.update(cur=cur, start=start, skip=skip, removed=None, blocks=blocks, subset_target=skip)
        return {"args": [cur, start, skip]}

    def is_other_load(self, ctx, x, p, b, i):
        g = ctx.ghost
        op = z3.Select(OPSARR(b), i)
        return z3.And(z3.Not(z3.And(b == g["cur"].term, i == p)), ISOP(op), OPC(op) == self.codes[self.Op.load], USES(op, x))

    def other_load_exists(self, ctx, x, p):
        blocks = ctx.ghost["blocks"]
        bj, i = z3.Int(fresh_name("bj")), z3.Int(fresh_name("oi"))
        b = z3.Select(blocks.arr, bj)
        return z3.Exists([bj, i], z3.And(bj >= 0, bj < blocks.length, i >= 0, i < OPSLEN(b), self.is_other_load(ctx, x, p, b, i)))

    def justified(self, ctx, x, w):
        """slot x is justified by the pair at positions w, w+1 of cur_block"""
        g = ctx.ghost
        ops = OPSARR(g["cur"].term)
        a, b = z3.Select(ops, w), z3.Select(ops, w + 1)
        return z3.And(w >= 0, w + 1 < OPSLEN(g["cur"].term),
                      ISOP(a), OPC(a) == self.codes[self.Op.store], ISOP(b), OPC(b) == self.codes[self.Op.load],
                      NSL(a) == 1, NSL(b) == 1, FST(a) == x, FST(b) == x,
                      z3.Not(g["skip"].contains(x)), z3.Not(self.other_load_exists(ctx, x, w + 1)))

    def inv(self, ctx, env, it):
        s = env["slots_to_remove"]
        x, w = z3.Int("xs!"), z3.Int("ws!")
        return [("every-collected-slot-has-a-justifying-pair-before-here",
                 z3.ForAll([x], z3.Implies(s.contains(x), z3.Exists([w], z3.And(w < it.k, self.justified(ctx, x, w))))))]

    def post(self, ctx, I, outcome, st):
        g = ctx.ghost
        if outcome[0] == "raise":
            i = z3.Int("ir!")
            ops = OPSARR(g["cur"].term)
            a, b = z3.Select(ops, i), z3.Select(ops, i + 1)
            ctx.oblige("raises-only-for-a-store-load-pair-without-exactly-one-slot",
                       z3.Exists([i], z3.And(i >= 0, i + 1 < OPSLEN(g["cur"].term), ISOP(a), OPC(a) == self.codes[self.Op.store], ISOP(b),
                                             OPC(b) == self.codes[self.Op.load], z3.Or(NSL(a) != 1, NSL(b) != 1))))
            return
        removed = g["removed"]
        if removed is None:
            ctx.oblige("removal-function-is-called", z3.BoolVal(False))
            return
        x, w = z3.Int("xp!"), z3.Int("wp!")
        ctx.oblige("removed-slots-are-justified-by-an-adjacent-store-load-pair-not-skipped-no-other-load",
                   z3.ForAll([x], z3.Implies(removed.contains(x), z3.Exists([w], self.justified(ctx, x, w)))))
        ctx.oblige("removed-slots-are-stored-nowhere-else",
                   z3.ForAll([x], z3.Implies(removed.contains(x), NSTORES(x) == 1)))


# ---- _remove_extraneous_slot_access -------------------------------------------------------------------------------------------------
H = "_remove_extraneous_slot_access"


class FilterResult:
    """filter(pred, xs) where pred has been checked against the specified predicate on an arbitrary element"""

    def __init__(self, base):
        self.base = base


class RemoveExtraneousSlotAccess(Contract):
    """For every block of the routine the op list is replaced by list(filter(keep_op, block.ops)) of ITS OWN ops, where keep_op(op) is
    False exactly for real TealOps that are `store` or `load` and whose slots all lie in `remove` (one-slot ops: whose slot is in
    `remove`).  `filter` / `list` keep their Python meaning (order-preserving sub-list of the elements on which the predicate holds)."""
    target = "pyteal.compiler.optimizer.optimizer._remove_extraneous_slot_access"

    def __init__(self):
        from pyteal.ir import TealBlock, TealOp, Op
        from pyteal.ast import ScratchSlot
        self.TealBlock, self.TealOp, self.Op, self.ScratchSlot = TealBlock, TealOp, Op, ScratchSlot
        self.codes = {m: i for i, m in enumerate(Op)}
        self.raises_only = ()
        self.callees = {
            TealBlock.__dict__["Iterate"].__func__: lambda I, args, kwargs: I.ctx.ghost["blocks"],
            ("type", TealOp): lambda I, ref: (TealOp if I.ctx.branch(ISOP(ref.term)) else object),
            TealOp.__dict__["getSlots"]: lambda I, args, kwargs: SlotList(args[0], ScratchSlot),
            set: self.c_set,
            filter: self.c_filter,
            list: self.c_list,
        }
        self.fields = {(TealBlock, "ops"): self.f_ops, (TealOp, "op"): lambda ctx, ref: SRef(OPC(ref.term), Op)}
        self.field_writes = {(TealBlock, "ops"): self.w_ops}
        self.var_kinds = {}
        self.loops = {(H, 0): LoopSpec(inv=self.inv)}

    def f_ops(self, ctx, ref):
        l = stamp(SList(REF(self.TealOp), arr=OPSARR(ref.term), length=OPSLEN(ref.term), name="ops"))
        ctx.assume(OPSLEN(ref.term) >= 0)
        return l

    def c_set(self, I, args, kwargs):
        if len(args) == 1 and isinstance(args[0], SlotList):
            return SlotSet(args[0].op)
        raise Unsupported("set() of something else")

    def c_filter(self, I, args, kwargs):
        pred, xs = args
        g = I.ctx.ghost
        if not isinstance(xs, SList):
            raise Unsupported("filter over something that is not a block's op list")
        # the predicate, on an arbitrary element: checked here once per path of the predicate
        o = SRef(z3.Int(fresh_name("anyop")), self.TealOp)
        res = I.call_closure(pred, [o], {}) if type(pred).__name__ == "Closure" else None
        if res is None:
            raise Unsupported("filter predicate is not the local keep_op")
        t = o.term
        drop = z3.And(ISOP(t), z3.Or(OPC(t) == self.codes[self.Op.store], OPC(t) == self.codes[self.Op.load]), ALLSKIP(t))
        r = res if is_z3(res) else z3.BoolVal(bool(res))
        I.ctx.oblige("keep_op-is-false-exactly-for-store-or-load-ops-whose-slots-are-all-to-be-removed", r == z3.Not(drop))
        return FilterResult(xs)

    def c_list(self, I, args, kwargs):
        if len(args) == 1 and isinstance(args[0], FilterResult):
            out = stamp(SList(REF(self.TealOp), name="kept"))
            I.ctx.assume(out.length >= 0)
            I.ctx.ghost["assigned_from"] = args[0].base
            return out
        raise Unsupported("list() of something else")

    def w_ops(self, I, block, v):
        """block.ops = v : v must be list(filter(keep_op, <the ops of this very block>))"""
        src = I.ctx.ghost.get("assigned_from")
        ok = isinstance(v, SList) and getattr(v, "name", "") == "kept" and src is not None
        I.ctx.oblige("the-new-op-list-is-the-filtered-list", z3.BoolVal(bool(ok)))
        if ok:
            I.ctx.oblige("each-block-gets-the-filter-of-its-own-ops", src.arr == OPSARR(block.term))
        I.ctx.ghost["written"] = I.ctx.ghost.get("written", 0) + 1

    def setup(self, ctx, I):
        I.engine.eq_handlers[self.Op] = lambda I_, x, y: (OPC_of(x) == self.codes[y]) if not isinstance(y, SRef) else (x.term == y.term)
        blocks = stamp(SList(REF(self.TealBlock), name="reachable"))
        ctx.assume(blocks.length >= 0)
        start = SRef(z3.Int("start"), self.TealBlock)
        remove = SSet(REF(self.ScratchSlot), name="remove")
        ctx.ghost.update(blocks=blocks, remove=remove, assigned_from=None, subset_target=remove)
        return {"args": [start, remove]}

    def inv(self, ctx, env, it):
        return [("position-in-range", it.k >= 0)]

    def post(self, ctx, I, outcome, st):
        if outcome[0] != "return":
            ctx.oblige("never-raises", z3.BoolVal(False))
