"""Contracts for the scratch-slot optimiser (properties C03 / C05, obligations O3.4 / O3.5).

_has_load_dependencies(cur_block, start, slot, pos):
    returns True  <=>  some op other than the one at (cur_block, pos) in the graph reachable from `start` is a
    `load` of `slot`   (position identified by block *identity* and op index)
"""
from __future__ import annotations

import z3

from pyvc.values import *  # noqa
from pyvc.engine import LoopSpec, Unsupported
from pyvc.verifier import Contract, stamp

I_ = z3.IntSort()
OPSARR = z3.Function("opsOf", I_, z3.ArraySort(I_, I_))
OPSLEN = z3.Function("numOps", I_, I_)
ISOP = z3.Function("isTealOp", I_, z3.BoolSort())
OPC = z3.Function("opcodeOf", I_, I_)
USES = z3.Function("usesSlot", I_, I_, z3.BoolSort())
F = "_has_load_dependencies"


class SlotBag:
    def __init__(self, op):
        self.op = op

    def pyvc_contains(self, I, x):
        return USES(self.op.term, unwrap(x))


class HasLoadDependencies(Contract):
    target = "pyteal.compiler.optimizer.optimizer._has_load_dependencies"

    def __init__(self):
        from pyteal.ir import TealBlock, TealOp, Op
        from pyteal.ast import ScratchSlot
        self.TealBlock, self.TealOp, self.Op, self.ScratchSlot = TealBlock, TealOp, Op, ScratchSlot
        self.codes = {m: i for i, m in enumerate(Op)}
        self.raises_only = ()
        self.callees = {
            TealBlock.__dict__["Iterate"].__func__: self.c_iterate,
            ("type", TealOp): self.c_type,
            TealOp.__dict__["getSlots"]: lambda I, args, kwargs: SlotBag(args[0]),
        }
        self.fields = {(TealBlock, "ops"): self.f_ops, (TealOp, "op"): lambda ctx, ref: SRef(OPC(ref.term), Op)}
        self.var_kinds = {}
        self.loops = {(F, 0): LoopSpec(inv=self.inv_outer), (F, 1): LoopSpec(inv=self.inv_inner)}

    def f_ops(self, ctx, ref):
        l = stamp(SList(REF(self.TealOp), arr=OPSARR(ref.term), length=OPSLEN(ref.term), name="ops"))
        ctx.assume(OPSLEN(ref.term) >= 0)
        return l

    def c_type(self, I, ref):
        return self.TealOp if I.ctx.branch(ISOP(ref.term)) else object

    def c_iterate(self, I, args, kwargs):
        return I.ctx.ghost["blocks"]

    def setup(self, ctx, I):
        I.engine.eq_handlers[self.Op] = lambda I_, x, y: (OPC_of(x) == self.codes[y]) if not isinstance(y, SRef) else (x.term == y.term)
        blocks = stamp(SList(REF(self.TealBlock), name="reachable"))
        ctx.assume(blocks.length >= 0)
        j = z3.Int("jb!")
        ctx.assume(z3.ForAll([j], z3.Select(blocks.arr, j) >= 0))
        cur = SRef(z3.Int("cur_block"), self.TealBlock)
        start = SRef(z3.Int("start"), self.TealBlock)
        slot = SRef(z3.Int("slot"), self.ScratchSlot)
        pos = z3.Int("pos")
        ctx.assume(z3.And(cur.term >= 0, start.term >= 0, slot.term >= 0))
        ctx.ghost.update(blocks=blocks, cur=cur, slot=slot, pos=pos)
        return {"args": [cur, start, slot, pos]}

    def dep(self, ctx, b, i):
        """the op at index i of block b is a load of the slot and is not the op at (cur_block, pos)"""
        g = ctx.ghost
        op = z3.Select(OPSARR(b), i)
        return z3.And(z3.Not(z3.And(b == g["cur"].term, i == g["pos"])), ISOP(op), OPC(op) == self.codes[self.Op.load], USES(op, g["slot"].term))

    def inv_outer(self, ctx, env, it):
        blocks = ctx.ghost["blocks"]
        bj, i = z3.Ints("bj! oi!")
        b = z3.Select(blocks.arr, bj)
        return [("no-dependency-in-earlier-blocks",
                 z3.ForAll([bj, i], z3.Implies(z3.And(bj >= 0, bj < it.k, i >= 0, i < OPSLEN(b)), z3.Not(self.dep(ctx, b, i)))))]

    def inv_inner(self, ctx, env, it):
        i = z3.Int("oi2!")
        b = env["block"].term
        return [("no-dependency-in-earlier-ops", z3.ForAll([i], z3.Implies(z3.And(i >= 0, i < it.k), z3.Not(self.dep(ctx, b, i)))))]

    def post(self, ctx, I, outcome, st):
        if outcome[0] != "return":
            return
        blocks = ctx.ghost["blocks"]
        bj, i = z3.Ints("bjp! oip!")
        b = z3.Select(blocks.arr, bj)
        exists = z3.Exists([bj, i], z3.And(bj >= 0, bj < blocks.length, i >= 0, i < OPSLEN(b), self.dep(ctx, b, i)))
        res = outcome[1]
        if res is True:
            ctx.oblige("true-only-if-another-load-of-the-slot-exists", exists)
        elif res is False:
            ctx.oblige("false-only-if-no-other-load-of-the-slot-exists", z3.Not(exists))
        else:
            ctx.oblige("result-iff-another-load-exists", res == exists)


def OPC_of(x):
    return x.term
