"""Contracts for the scratch-slot optimiser (properties C03 / C05, obligations O3.4 / O3.5).

_has_load_dependencies(cur_block, start, slot, pos):
    returns True  <=>  some op other than the one at (cur_block, pos) in the graph reachable from `start` is a
    `load` of `slot`   (position identified by block *identity* and op index)
"""
from __future__ import annotations

import z3

from pyvc.values import *  # noqa
from pyvc.engine import LoopSpec, Unsupported
from pyvc.verifier import Contract, stamp

I_ = z3.IntSort()
OPSARR = z3.Function("opsOf", I_, z3.ArraySort(I_, I_))
OPSLEN = z3.Function("numOps", I_, I_)
ISOP = z3.Function("isTealOp", I_, z3.BoolSort())
OPC = z3.Function("opcodeOf", I_, I_)
USES = z3.Function("usesSlot", I_, I_, z3.BoolSort())
F = "_has_load_dependencies"


class SlotBag:
    def __init__(self, op):
        self.op = op

    def pyvc_contains(self, I, x):
        return USES(self.op.term, unwrap(x))


class HasLoadDependencies(Contract):
    target = "pyteal.compiler.optimizer.optimizer._has_load_dependencies"

    def __init__(self):
        from pyteal.ir import TealBlock, TealOp, Op
        from pyteal.ast import ScratchSlot
        self.TealBlock, self.TealOp, self.Op, self.ScratchSlot = TealBlock, TealOp, Op, ScratchSlot
        self.codes = {m: i for i, m in enumerate(Op)}
        self.raises_only = ()
        self.callees = {
            TealBlock.__dict__["Iterate"].__func__: self.c_iterate,
            ("type", TealOp): self.c_type,
            TealOp.__dict__["getSlots"]: lambda I, args, kwargs: SlotBag(args[0]),
        }
        self.fields = {(TealBlock, "ops"): self.f_ops, (TealOp, "op"): lambda ctx, ref: SRef(OPC(ref.term), Op)}
        self.var_kinds = {}
        self.loops = {(F, 0): LoopSpec(inv=self.inv_outer), (F, 1): LoopSpec(inv=self.inv_inner)}

    def f_ops(self, ctx, ref):
        l = stamp(SList(REF(self.TealOp), arr=OPSARR(ref.term), length=OPSLEN(ref.term), name="ops"))
        ctx.assume(OPSLEN(ref.term) >= 0)
        return l

    def c_type(self, I, ref):
        return self.TealOp if I.ctx.branch(ISOP(ref.term)) else object

    def c_iterate(self, I, args, kwargs):
        # `reachable` is the routine: the blocks reachable from `start` - the scan has to cover all of it
        I.ctx.oblige("the-scan-covers-the-whole-routine-(iterates-from-start)", args[-1].term == I.ctx.ghost["start"].term)
        return I.ctx.ghost["blocks"]

    def setup(self, ctx, I):
        I.engine.eq_handlers[self.Op] = lambda I_, x, y: (OPC_of(x) == self.codes[y]) if not isinstance(y, SRef) else (x.term == y.term)
        blocks = stamp(SList(REF(self.TealBlock), name="reachable"))
        ctx.assume(blocks.length >= 0)
        j = z3.Int("jb!")
        ctx.assume(z3.ForAll([j], z3.Select(blocks.arr, j) >= 0))
        cur = SRef(z3.Int("cur_block"), self.TealBlock)
        start = SRef(z3.Int("start"), self.TealBlock)
        slot = SRef(z3.Int("slot"), self.ScratchSlot)
        pos = z3.Int("pos")
        ctx.assume(z3.And(cur.term >= 0, start.term >= 0, slot.term >= 0))
        ctx.ghost.update(blocks=blocks, cur=cur, slot=slot, pos=pos, start=start)
        return {"args": [cur, start, slot, pos]}

    def dep(self, ctx, b, i):
        """the op at index i of block b is a load of the slot and is not the op at (cur_block, pos)"""
        g = ctx.ghost
        op = z3.Select(OPSARR(b), i)
        return z3.And(z3.Not(z3.And(b == g["cur"].term, i == g["pos"])), ISOP(op), OPC(op) == self.codes[self.Op.load], USES(op, g["slot"].term))

    def inv_outer(self, ctx, env, it):
        blocks = ctx.ghost["blocks"]
        bj, i = z3.Ints("bj! oi!")
        b = z3.Select(blocks.arr, bj)
        return [("no-dependency-in-earlier-blocks",
                 z3.ForAll([bj, i], z3.Implies(z3.And(bj >= 0, bj < it.k, i >= 0, i < OPSLEN(b)), z3.Not(self.dep(ctx, b, i)))))]

    def inv_inner(self, ctx, env, it):
        i = z3.Int("oi2!")
        b = env["block"].term
        return [("no-dependency-in-earlier-ops", z3.ForAll([i], z3.Implies(z3.And(i >= 0, i < it.k), z3.Not(self.dep(ctx, b, i)))))]

    def post(self, ctx, I, outcome, st):
        if outcome[0] != "return":
            return
        blocks = ctx.ghost["blocks"]
        bj, i = z3.Ints("bjp! oip!")
        b = z3.Select(blocks.arr, bj)
        exists = z3.Exists([bj, i], z3.And(bj >= 0, bj < blocks.length, i >= 0, i < OPSLEN(b), self.dep(ctx, b, i)))
        res = outcome[1]
        if res is True:
            ctx.oblige("true-only-if-another-load-of-the-slot-exists", exists)
        elif res is False:
            ctx.oblige("false-only-if-no-other-load-of-the-slot-exists", z3.Not(exists))
        else:
            ctx.oblige("result-iff-another-load-exists", res == exists)


def OPC_of(x):
    return x.term


# ---- _apply_slot_to_stack ---------------------------------------------------------------------------------------------------------
NSL = z3.Function("numSlotsOf", I_, I_)
FST = z3.Function("firstSlotOf", I_, I_)
ALLSKIP = z3.Function("allSlotsSkipped", I_, z3.BoolSort())
HASDEP = z3.Function("anotherLoadExists", I_, I_, z3.BoolSort())      # meaning of _has_load_dependencies(cur_block, start, slot, pos) (its own contract)
NSTORES = z3.Function("storesOfSlotInRoutine", I_, I_)               # number of `store` ops of a slot in the routine
G = "_apply_slot_to_stack"


class SlotList:
    """op.getSlots(): a list whose length and first element are uninterpreted functions of the op"""

    def __init__(self, op, cls):
        self.op, self.cls = op, cls

    def pyvc_len(self):
        return NSL(self.op.term)

    def pyvc_index(self, I, idx, node):
        if not (isinstance(idx, int) and idx == 0):
            raise Unsupported("getSlots()[i] with i != 0")
        return SRef(FST(self.op.term), self.cls)


class SlotSet:
    """set(op.getSlots())"""

    def __init__(self, op):
        self.op = op

    def pyvc_method(self, I, name, args, kwargs, node):
        if name != "issubset" or len(args) != 1 or not isinstance(args[0], SSet):
            raise Unsupported(f"set(getSlots()).{name}")
        skip = args[0]
        want = I.ctx.ghost.get("subset_target")
        if want is not None:
            I.ctx.oblige("the-subset-test-is-against-the-set-the-contract-speaks-about", z3.BoolVal(skip is want))
        t = self.op.term
        # one-slot ops (every store / load): the set is {first}
        I.ctx.assume(z3.Implies(NSL(t) == 1, ALLSKIP(t) == skip.contains(FST(t))))
        return ALLSKIP(t)


class ApplySlotToStack(Contract):
    """The set handed to _remove_extraneous_slot_access contains only slots s such that
         (a) s is not in skip_slots,
         (b) cur_block has `store s` immediately followed by `load s` (both real TealOps with exactly one slot),
         (c) the pair's load is the only load of s in the routine (the callee _has_load_dependencies is used with its own contract O3.5),
         (d) s is stored nowhere else in the routine  -- removing every access of s is only then the same as cancelling the pair.
       (d) is what the property needs and what the code does not establish: the recorded finding O3.4."""
    target = "pyteal.compiler.optimizer.optimizer._apply_slot_to_stack"

    def __init__(self):
        from pyteal.ir import TealBlock, TealOp, Op
        from pyteal.ast import ScratchSlot
        from pyteal.errors import TealInternalError
        from pyteal.compiler.optimizer import optimizer as O
        self.TealBlock, self.TealOp, self.Op, self.ScratchSlot = TealBlock, TealOp, Op, ScratchSlot
        self.codes = {m: i for i, m in enumerate(Op)}
        self.raises_only = (TealInternalError,)
        self.callees = {
            ("type", TealOp): self.c_type,
            TealOp.__dict__["getSlots"]: lambda I, args, kwargs: SlotList(args[0], ScratchSlot),
            set: self.c_set,
            O._has_load_dependencies: self.c_hasdep,
            O._remove_extraneous_slot_access: self.c_remove,
        }
        self.fields = {(TealBlock, "ops"): self.f_ops, (TealOp, "op"): lambda ctx, ref: SRef(OPC(ref.term), Op)}
        self.var_kinds = {(G, "slots_to_remove"): lambda ctx, v: self.fresh_set(ctx)}
        self.loops = {(G, 0): LoopSpec(inv=self.inv, modifies=("slots_to_remove",))}

    def fresh_set(self, ctx):
        s = SSet(REF(self.ScratchSlot), name="slots_to_remove")
        x = z3.Int("x0!")
        ctx.assume(z3.ForAll([x], z3.Not(z3.Select(s.member, x))))
        ctx.assume(s.card == 0)
        return s

    def f_ops(self, ctx, ref):
        l = stamp(SList(REF(self.TealOp), arr=OPSARR(ref.term), length=OPSLEN(ref.term), name="ops"))
        ctx.assume(OPSLEN(ref.term) >= 0)
        return l

    def c_type(self, I, ref):
        return self.TealOp if I.ctx.branch(ISOP(ref.term)) else object

    def c_set(self, I, args, kwargs):
        if len(args) == 0:
            return self.fresh_set(I.ctx)
        if len(args) == 1 and isinstance(args[0], SlotList):
            return SlotSet(args[0].op)
        raise Unsupported("set() of something else")

    def c_hasdep(self, I, args, kwargs):
        cur, start, slot, pos = args
        g = I.ctx.ghost
        if not (isinstance(cur, SRef) and cur.term is g["cur"].term and isinstance(start, SRef) and start.term is g["start"].term):
            I.ctx.oblige("dependency-check-is-about-this-block-and-routine", z3.And(cur.term == g["cur"].term, start.term == g["start"].term))
        # the callee's own contract (HasLoadDependencies, O3.5): True iff a load of the slot exists at another place than (cur_block, pos)
        r = I.ctx.fresh_bool("hasdep") if hasattr(I.ctx, "fresh_bool") else z3.Bool(fresh_name("hasdep"))
        I.ctx.assume(r == self.other_load_exists(I.ctx, unwrap(slot), unwrap(pos)))
        return r

    def c_remove(self, I, args, kwargs):
        start, remove = args
        I.ctx.oblige("removal-covers-the-routine-the-check-was-made-for", start.term == I.ctx.ghost["start"].term)
        I.ctx.ghost["removed"] = remove
        return None

    def setup(self, ctx, I):
        I.engine.eq_handlers[self.Op] = lambda I_, x, y: (OPC_of(x) == self.codes[y]) if not isinstance(y, SRef) else (x.term == y.term)
        cur = SRef(z3.Int("cur_block"), self.TealBlock)
        start = SRef(z3.Int("start"), self.TealBlock)
        skip = SSet(REF(self.ScratchSlot), name="skip_slots")
        ctx.assume(z3.And(cur.term >= 0, start.term >= 0))
        # the routine: the blocks reachable from `start`; cur_block is one of them (the caller iterates over them)
        blocks = stamp(SList(REF(self.TealBlock), name="reachable"))
        jc = z3.Int("jcur")
        ctx.assume(z3.And(blocks.length >= 1, jc >= 0, jc < blocks.length, z3.Select(blocks.arr, jc) == cur.term))
        # one-slot ops use exactly their first slot
        o, y = z3.Int("o1!"), z3.Int("y1!")
        ctx.assume(z3.ForAll([o, y], z3.Implies(NSL(o) == 1, USES(o, y) == (y == FST(o)))))
        ctx.ghost.update(cur=cur, start=start, skip=skip, removed=None, blocks=blocks, subset_target=skip)
        return {"args": [cur, start, skip]}

    def is_other_load(self, ctx, x, p, b, i):
        g = ctx.ghost
        op = z3.Select(OPSARR(b), i)
        return z3.And(z3.Not(z3.And(b == g["cur"].term, i == p)), ISOP(op), OPC(op) == self.codes[self.Op.load], USES(op, x))

    def other_load_exists(self, ctx, x, p):
        blocks = ctx.ghost["blocks"]
        bj, i = z3.Int(fresh_name("bj")), z3.Int(fresh_name("oi"))
        b = z3.Select(blocks.arr, bj)
        return z3.Exists([bj, i], z3.And(bj >= 0, bj < blocks.length, i >= 0, i < OPSLEN(b), self.is_other_load(ctx, x, p, b, i)))

    def justified(self, ctx, x, w):
        """slot x is justified by the pair at positions w, w+1 of cur_block"""
        g = ctx.ghost
        ops = OPSARR(g["cur"].term)
        a, b = z3.Select(ops, w), z3.Select(ops, w + 1)
        return z3.And(w >= 0, w + 1 < OPSLEN(g["cur"].term),
                      ISOP(a), OPC(a) == self.codes[self.Op.store], ISOP(b), OPC(b) == self.codes[self.Op.load],
                      NSL(a) == 1, NSL(b) == 1, FST(a) == x, FST(b) == x,
                      z3.Not(g["skip"].contains(x)), z3.Not(self.other_load_exists(ctx, x, w + 1)))

    def inv(self, ctx, env, it):
        s = env["slots_to_remove"]
        x, w = z3.Int("xs!"), z3.Int("ws!")
        return [("every-collected-slot-has-a-justifying-pair-before-here",
                 z3.ForAll([x], z3.Implies(s.contains(x), z3.Exists([w], z3.And(w < it.k, self.justified(ctx, x, w))))))]

    def post(self, ctx, I, outcome, st):
        g = ctx.ghost
        if outcome[0] == "raise":
            i = z3.Int("ir!")
            ops = OPSARR(g["cur"].term)
            a, b = z3.Select(ops, i), z3.Select(ops, i + 1)
            ctx.oblige("raises-only-for-a-store-load-pair-without-exactly-one-slot",
                       z3.Exists([i], z3.And(i >= 0, i + 1 < OPSLEN(g["cur"].term), ISOP(a), OPC(a) == self.codes[self.Op.store], ISOP(b),
                                             OPC(b) == self.codes[self.Op.load], z3.Or(NSL(a) != 1, NSL(b) != 1))))
            return
        removed = g["removed"]
        if removed is None:
            ctx.oblige("removal-function-is-called", z3.BoolVal(False))
            return
        x, w = z3.Int("xp!"), z3.Int("wp!")
        ctx.oblige("removed-slots-are-justified-by-an-adjacent-store-load-pair-not-skipped-no-other-load",
                   z3.ForAll([x], z3.Implies(removed.contains(x), z3.Exists([w], self.justified(ctx, x, w)))))
        ctx.oblige("removed-slots-are-stored-nowhere-else",
                   z3.ForAll([x], z3.Implies(removed.contains(x), NSTORES(x) == 1)))


# ---- _remove_extraneous_slot_access -------------------------------------------------------------------------------------------------
H = "_remove_extraneous_slot_access"


class FilterResult:
    """filter(pred, xs) where pred has been checked against the specified predicate on an arbitrary element"""

    def __init__(self, base):
        self.base = base


class RemoveExtraneousSlotAccess(Contract):
    """For every block of the routine the op list is replaced by list(filter(keep_op, block.ops)) of ITS OWN ops, where keep_op(op) is
    False exactly for real TealOps that are `store` or `load` and whose slots all lie in `remove` (one-slot ops: whose slot is in
    `remove`).  `filter` / `list` keep their Python meaning (order-preserving sub-list of the elements on which the predicate holds)."""
    target = "pyteal.compiler.optimizer.optimizer._remove_extraneous_slot_access"

    def __init__(self):
        from pyteal.ir import TealBlock, TealOp, Op
        from pyteal.ast import ScratchSlot
        self.TealBlock, self.TealOp, self.Op, self.ScratchSlot = TealBlock, TealOp, Op, ScratchSlot
        self.codes = {m: i for i, m in enumerate(Op)}
        self.raises_only = ()
        self.callees = {
            TealBlock.__dict__["Iterate"].__func__: self.c_iterate,
            ("type", TealOp): lambda I, ref: (TealOp if I.ctx.branch(ISOP(ref.term)) else object),
            TealOp.__dict__["getSlots"]: lambda I, args, kwargs: SlotList(args[0], ScratchSlot),
            set: self.c_set,
            filter: self.c_filter,
            list: self.c_list,
        }
        self.fields = {(TealBlock, "ops"): self.f_ops, (TealOp, "op"): lambda ctx, ref: SRef(OPC(ref.term), Op)}
        self.field_writes = {(TealBlock, "ops"): self.w_ops}
        self.var_kinds = {}
        self.loops = {(H, 0): LoopSpec(inv=self.inv)}

    def f_ops(self, ctx, ref):
        l = stamp(SList(REF(self.TealOp), arr=OPSARR(ref.term), length=OPSLEN(ref.term), name="ops"))
        ctx.assume(OPSLEN(ref.term) >= 0)
        return l

    def c_set(self, I, args, kwargs):
        if len(args) == 1 and isinstance(args[0], SlotList):
            return SlotSet(args[0].op)
        raise Unsupported("set() of something else")

    def c_filter(self, I, args, kwargs):
        pred, xs = args
        g = I.ctx.ghost
        if not isinstance(xs, SList):
            raise Unsupported("filter over something that is not a block's op list")
        # the predicate, on an arbitrary element: checked here once per path of the predicate
        o = SRef(z3.Int(fresh_name("anyop")), self.TealOp)
        res = I.call_closure(pred, [o], {}) if type(pred).__name__ == "Closure" else None
        if res is None:
            raise Unsupported("filter predicate is not the local keep_op")
        t = o.term
        drop = z3.And(ISOP(t), z3.Or(OPC(t) == self.codes[self.Op.store], OPC(t) == self.codes[self.Op.load]), ALLSKIP(t))
        r = res if is_z3(res) else z3.BoolVal(bool(res))
        I.ctx.oblige("keep_op-is-false-exactly-for-store-or-load-ops-whose-slots-are-all-to-be-removed", r == z3.Not(drop))
        return FilterResult(xs)

    def c_list(self, I, args, kwargs):
        if len(args) == 1 and isinstance(args[0], FilterResult):
            out = stamp(SList(REF(self.TealOp), name="kept"))
            I.ctx.assume(out.length >= 0)
            I.ctx.ghost["assigned_from"] = args[0].base
            return out
        raise Unsupported("list() of something else")

    def c_iterate(self, I, args, kwargs):
        I.ctx.oblige("every-block-of-the-routine-is-filtered-(iterates-from-start)", args[-1].term == I.ctx.ghost["start"].term)
        return I.ctx.ghost["blocks"]

    def w_ops(self, I, block, v):
        """block.ops = v : v must be list(filter(keep_op, <the ops of this very block>))"""
        src = I.ctx.ghost.get("assigned_from")
        ok = isinstance(v, SList) and getattr(v, "name", "") == "kept" and src is not None
        I.ctx.oblige("the-new-op-list-is-the-filtered-list", z3.BoolVal(bool(ok)))
        if ok:
            I.ctx.oblige("each-block-gets-the-filter-of-its-own-ops", src.arr == OPSARR(block.term))
        I.ctx.ghost["written"] = I.ctx.ghost.get("written", 0) + 1

    def setup(self, ctx, I):
        I.engine.eq_handlers[self.Op] = lambda I_, x, y: (OPC_of(x) == self.codes[y]) if not isinstance(y, SRef) else (x.term == y.term)
        blocks = stamp(SList(REF(self.TealBlock), name="reachable"))
        ctx.assume(blocks.length >= 0)
        start = SRef(z3.Int("start"), self.TealBlock)
        remove = SSet(REF(self.ScratchSlot), name="remove")
        ctx.ghost.update(blocks=blocks, remove=remove, assigned_from=None, subset_target=remove, start=start)
        return {"args": [start, remove]}

    def inv(self, ctx, env, it):
        return [("position-in-range", it.k >= 0)]

    def post(self, ctx, I, outcome, st):
        if outcome[0] != "return":
            ctx.oblige("never-raises", z3.BoolVal(False))


# ---- collect_unoptimized_slots (compiler/scratchslots.py) -------------------------------------------------------------------------
NR = z3.Int("numRoutines")
STARTOF = z3.Function("startOfRoutine", I_, I_)
KEYOF = z3.Function("keyOfRoutine", I_, I_)
BLKARR = z3.Function("blocksFrom", I_, z3.ArraySort(I_, I_))
NBLK = z3.Function("numBlocksFrom", I_, I_)
SLOTARR = z3.Function("slotsOf", I_, z3.ArraySort(I_, I_))
RESERVED = z3.Function("isReservedSlot", I_, z3.BoolSort())
CU = "collect_unoptimized_slots"
CUB = "collect_unoptimized_slots.<locals>.collectSlotsFromBlock"


class RoutineMap:
    """subroutineBlocks: a mapping routine -> start block with a symbolic number of entries"""

    def pyvc_method(self, I, name, args, kwargs, node):
        if name == "items" and not args:
            return self
        raise Unsupported(f"subroutineBlocks.{name}")

    def pyvc_iter(self, I):
        return NR, (lambda k: (SRef(KEYOF(k), object), SRef(STARTOF(k), self.cls)))


class CollectUnoptimizedSlots(Contract):
    """Every slot that some `int` op of some block of some routine mentions, every reserved slot mentioned anywhere, and every global slot
    (as collectScratchSlots reports them) is in the returned skip set.  (The optimiser is only sound for slots outside this set; a larger
    set is always safe, so only this direction is stated.)"""
    target = "pyteal.compiler.scratchslots.collect_unoptimized_slots"

    def __init__(self):
        from pyteal.ir import TealBlock, TealOp, Op
        from pyteal.ast import ScratchSlot
        from pyteal.compiler import scratchslots as SS
        self.TealBlock, self.TealOp, self.Op, self.ScratchSlot = TealBlock, TealOp, Op, ScratchSlot
        self.codes = {m: i for i, m in enumerate(Op)}
        self.raises_only = ()
        self.callees = {
            TealBlock.__dict__["Iterate"].__func__: self.c_iterate,
            TealOp.__dict__["getSlots"]: self.c_slots,
            SS.collectScratchSlots: self.c_global,
            set: lambda I, args, kwargs: self.fresh_set(I.ctx),
        }
        self.fields = {(TealBlock, "ops"): self.f_ops, (TealOp, "op"): lambda ctx, ref: SRef(OPC(ref.term), Op),
                       (ScratchSlot, "isReservedSlot"): lambda ctx, ref: RESERVED(ref.term)}
        self.var_kinds = {(CU, "unoptimized_slots"): lambda ctx, v: v if isinstance(v, SSet) else self.fresh_set(ctx)}
        self.loops = {(CU, 0): LoopSpec(inv=self.inv_routines, modifies=("unoptimized_slots",)),
                      (CU, 1): LoopSpec(inv=self.inv_blocks, modifies=("unoptimized_slots",)),
                      (CUB, 0): LoopSpec(inv=self.inv_ops, modifies=("unoptimized_slots",)),
                      (CUB, 1): LoopSpec(inv=self.inv_slots, modifies=("unoptimized_slots",))}

    def fresh_set(self, ctx):
        s = SSet(REF(self.ScratchSlot), name="unoptimized_slots")
        x = z3.Int(fresh_name("x0"))
        ctx.assume(z3.ForAll([x], z3.Not(z3.Select(s.member, x))))
        return s

    def f_ops(self, ctx, ref):
        l = stamp(SList(REF(self.TealOp), arr=OPSARR(ref.term), length=OPSLEN(ref.term), name="ops"))
        l.frozen = True
        ctx.assume(OPSLEN(ref.term) >= 0)
        return l

    def c_iterate(self, I, args, kwargs):
        st = args[-1].term
        I.ctx.assume(NBLK(st) >= 0)
        l = stamp(SList(REF(self.TealBlock), arr=BLKARR(st), length=NBLK(st), name="blocks"))
        l.frozen = True
        return l

    def c_slots(self, I, args, kwargs):
        o = args[0].term
        I.ctx.assume(NSL(o) >= 0)
        l = stamp(SList(REF(self.ScratchSlot), arr=SLOTARR(o), length=NSL(o), name="slots"))
        l.frozen = True
        return l

    def c_global(self, I, args, kwargs):
        if not isinstance(args[0], RoutineMap):
            raise Unsupported("collectScratchSlots is not called on the routine map")
        g = SSet(REF(self.ScratchSlot), name="global_slots")
        I.ctx.ghost["G"] = g
        return (g, None)

    def setup(self, ctx, I):
        I.engine.eq_handlers[self.Op] = lambda I_, x, y: (OPC_of(x) == self.codes[y]) if not isinstance(y, SRef) else (x.term == y.term)
        m = RoutineMap()
        m.cls = self.TealBlock
        ctx.assume(NR >= 0)
        ctx.ghost.update(r=None, b=None, i=None, G=None)
        return {"args": [m]}

    # cond(r, b, i, j): the j-th slot of the i-th op of the b-th block of routine r must be exempt
    def must(self, r, b, i, j):
        blk = z3.Select(BLKARR(STARTOF(r)), b)
        op = z3.Select(OPSARR(blk), i)
        sl = z3.Select(SLOTARR(op), j)
        return z3.Or(OPC(op) == self.codes[self.Op.int], RESERVED(sl)), sl, blk, op

    def cov(self, S, r, b, i, j):
        c, sl, _, _ = self.must(r, b, i, j)
        return z3.Implies(c, S.contains(sl))

    def q_routines(self, S, k, tag):
        r, b, i, j = (z3.Int(f"{n}{tag}!") for n in "rbij")
        blk = z3.Select(BLKARR(STARTOF(r)), b)
        op = z3.Select(OPSARR(blk), i)
        return z3.ForAll([r, b, i, j], z3.Implies(z3.And(r >= 0, r < k, b >= 0, b < NBLK(STARTOF(r)), i >= 0, i < OPSLEN(blk), j >= 0, j < NSL(op)), self.cov(S, r, b, i, j)))

    def q_blocks(self, S, k, kb, tag):
        b, i, j = (z3.Int(f"{n}{tag}!") for n in "bij")
        blk = z3.Select(BLKARR(STARTOF(k)), b)
        op = z3.Select(OPSARR(blk), i)
        return z3.ForAll([b, i, j], z3.Implies(z3.And(b >= 0, b < kb, i >= 0, i < OPSLEN(blk), j >= 0, j < NSL(op)), self.cov(S, k, b, i, j)))

    def q_ops(self, S, k, kb, ki, tag):
        i, j = (z3.Int(f"{n}{tag}!") for n in "ij")
        blk = z3.Select(BLKARR(STARTOF(k)), kb)
        op = z3.Select(OPSARR(blk), i)
        return z3.ForAll([i, j], z3.Implies(z3.And(i >= 0, i < ki, j >= 0, j < NSL(op)), self.cov(S, k, kb, i, j)))

    def q_slots(self, S, k, kb, ki, kj, tag):
        j = z3.Int(f"j{tag}!")
        return z3.ForAll([j], z3.Implies(z3.And(j >= 0, j < kj), self.cov(S, k, kb, ki, j)))

    def inv_routines(self, ctx, env, it):
        if it.phase == "iter":
            ctx.ghost["r"] = it.k
        return [("all-earlier-routines-covered", self.q_routines(env["unoptimized_slots"], it.k, "a"))]

    def inv_blocks(self, ctx, env, it):
        k = ctx.ghost["r"]
        if it.phase == "iter":
            ctx.ghost["b"] = it.k
        S = env["unoptimized_slots"]
        return [("earlier-routines-stay-covered", self.q_routines(S, k, "b")), ("all-earlier-blocks-of-this-routine-covered", self.q_blocks(S, k, it.k, "b"))]

    def inv_ops(self, ctx, env, it):
        k, kb = ctx.ghost["r"], ctx.ghost["b"]
        if it.phase == "iter":
            ctx.ghost["i"] = it.k
        S = env["unoptimized_slots"]
        here = env["block"].term == z3.Select(BLKARR(STARTOF(k)), kb)
        return [("the-block-is-the-one-being-iterated", here), ("earlier-routines-stay-covered", self.q_routines(S, k, "c")),
                ("earlier-blocks-stay-covered", self.q_blocks(S, k, kb, "c")), ("all-earlier-ops-of-this-block-covered", self.q_ops(S, k, kb, it.k, "c"))]

    def inv_slots(self, ctx, env, it):
        k, kb, ki = ctx.ghost["r"], ctx.ghost["b"], ctx.ghost["i"]
        S = env["unoptimized_slots"]
        here = env["block"].term == z3.Select(BLKARR(STARTOF(k)), kb)
        return [("the-block-is-the-one-being-iterated", here), ("earlier-routines-stay-covered", self.q_routines(S, k, "d")),
                ("earlier-blocks-stay-covered", self.q_blocks(S, k, kb, "d")), ("earlier-ops-stay-covered", self.q_ops(S, k, kb, ki, "d")),
                ("all-earlier-slots-of-this-op-covered", self.q_slots(S, k, kb, ki, it.k, "d"))]

    def post(self, ctx, I, outcome, st):
        if outcome[0] != "return":
            ctx.oblige("never-raises", z3.BoolVal(False))
            return
        res = outcome[1]
        if not isinstance(res, SSet):
            raise Unsupported("result is not the set")
        ctx.oblige("every-slot-of-an-int-op-and-every-reserved-slot-of-any-block-of-any-routine-is-exempt", self.q_routines(res, NR, "p"))
        g = ctx.ghost.get("G")
        x = z3.Int("xg!")
        ctx.oblige("every-global-slot-is-exempt", z3.BoolVal(False) if g is None else z3.ForAll([x], z3.Implies(g.contains(x), res.contains(x))))
