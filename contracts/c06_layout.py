"""Contracts for the ARC-4 layout arithmetic of pyteal/ast/abi (properties C06 / C07).

Independent specification: the ARC-4 *position function*, defined by walking the element types one at a time
(no look-ahead, no ceiling division):
   OFF(0) = 0, BIT(0) = 0
   element i is bool:   BIT(i) == 0 -> OFF(i+1) = OFF(i) + 1, BIT(i+1) = 1        (opens a new byte)
                        BIT(i) != 0 -> OFF(i+1) = OFF(i),     BIT(i+1) = (BIT(i)+1) mod 8   (shares the byte)
   otherwise:           OFF(i+1) = OFF(i) + hlen(i), BIT(i+1) = 0     hlen = static byte length, or 2 for a dynamic head
OFF(i) is the number of head bytes occupied by elements 0..i-1 (a partly filled bool byte counts as one byte).
"""
from __future__ import annotations

import z3

from pyvc.values import *  # noqa
from pyvc.engine import LoopSpec, Unsupported
from pyvc.verifier import Contract, stamp

I_ = z3.IntSort()
isB = z3.Function("isBoolType", I_, z3.BoolSort())
isDyn = z3.Function("isDynamic", I_, z3.BoolSort())
blen = z3.Function("byte_length_static", I_, I_)


def ceil8(p):
    return (p + 7) / 8


class Pos:
    """The position function over the element array `arr` (terms are TypeSpec references)."""

    def __init__(self, arr, tag="", dyn_heads=False):
        self.arr, self.dyn_heads = arr, dyn_heads
        self.OFF = z3.Function("OFF" + tag, I_, I_)
        self.BIT = z3.Function("BIT" + tag, I_, I_)

    def el(self, i):
        return z3.Select(self.arr, i)

    def hlen(self, i):
        e = self.el(i)
        return z3.If(isDyn(e), 2, blen(e)) if self.dyn_heads else blen(e)

    def base(self):
        return [self.OFF(0) == 0, self.BIT(0) == 0]

    def unfold(self, i):
        e = self.el(i)
        return [
            z3.Implies(z3.And(isB(e), self.BIT(i) == 0), z3.And(self.OFF(i + 1) == self.OFF(i) + 1, self.BIT(i + 1) == 1)),
            z3.Implies(z3.And(isB(e), self.BIT(i) != 0), z3.And(self.OFF(i + 1) == self.OFF(i), self.BIT(i + 1) == (self.BIT(i) + 1) % 8)),
            z3.Implies(z3.Not(isB(e)), z3.And(self.OFF(i + 1) == self.OFF(i) + self.hlen(i), self.BIT(i + 1) == 0)),
            z3.And(self.BIT(i) >= 0, self.BIT(i) < 8),
        ]


class _Base(Contract):
    def __init__(self):
        from pyteal.ast.abi import bool as B, type as T
        self.B, self.TypeSpec = B, T.TypeSpec
        self.raises_only = ()
        self.callees, self.fields, self.var_kinds, self.loops = {}, {}, {}, {}
        self.inline_ok = ()

    def types_list(self, ctx, name="types"):
        l = stamp(SList(REF(self.TypeSpec), name=name))
        ctx.assume(l.length >= 0)
        j = z3.Int("jt!")
        ctx.assume(z3.ForAll([j], z3.And(z3.Select(l.arr, j) >= 0, blen(z3.Select(l.arr, j)) >= 0)))
        return l


class BoolSequenceLength(_Base):
    target = "pyteal.ast.abi.bool._bool_sequence_length"

    def setup(self, ctx, I):
        n = z3.Int("num_bools")
        ctx.assume(n >= 0)
        ctx.ghost["n"] = n
        return {"args": [n]}

    def post(self, ctx, I, outcome, st):
        n = ctx.ghost["n"]
        if outcome[0] != "return":
            ctx.oblige("never-raises", False)
            return
        r = outcome[1]
        # smallest number of bytes holding n bits
        ctx.oblige("enough-bytes", 8 * r >= n)
        ctx.oblige("no-spare-byte", z3.Or(r == 0, 8 * (r - 1) < n))
        ctx.oblige("non-negative", r >= 0)


def consecutive_contract(I, things: SList, start, pred):
    """Callee contract (proved below) of _consecutive_thing_num: maximal run of `pred` starting at `start`."""
    ctx = I.ctx
    r = ctx.fresh_int("run")
    j = z3.Int("jr!")
    ctx.assume(z3.And(r >= 0, start + r <= things.length))
    ctx.assume(z3.ForAll([j], z3.Implies(z3.And(j >= start, j < start + r), pred(z3.Select(things.arr, j)))))
    ctx.assume(z3.Or(start + r == things.length, z3.Not(pred(z3.Select(things.arr, start + r)))))
    return r


class ConsecutiveThingNum(_Base):
    target = "pyteal.ast.abi.bool._consecutive_thing_num"

    def __init__(self):
        super().__init__()

        def cond_fn(t):  # stands for the caller's predicate; its meaning is the uninterpreted isBoolType
            raise RuntimeError

        self.cond_fn = cond_fn
        self.callees[cond_fn] = lambda I, args, kwargs: isB(args[0].term)
        self.loops = {("_consecutive_thing_num", 0): LoopSpec(inv=self.inv)}

    def setup(self, ctx, I):
        things = self.types_list(ctx, "things")
        s = z3.Int("start_index")
        ctx.assume(z3.And(s >= 0, s <= things.length))   # call sites pass the index of an element (or len)
        ctx.ghost.update(things=things, s=s)
        return {"args": [things, s, self.cond_fn]}

    def inv(self, ctx, env, it):
        things, s = ctx.ghost["things"], ctx.ghost["s"]
        j = z3.Int("ji!")
        return [("count-equals-iterations", env["numConsecutiveThings"] == it.k),
                ("all-counted-satisfy", z3.ForAll([j], z3.Implies(z3.And(j >= s, j < s + it.k), isB(z3.Select(things.arr, j)))))]

    def post(self, ctx, I, outcome, st):
        things, s = ctx.ghost["things"], ctx.ghost["s"]
        if outcome[0] != "return":
            ctx.oblige("never-raises", False)
            return
        r = outcome[1]
        j = z3.Int("jp!")
        ctx.oblige("within-list", z3.And(r >= 0, s + r <= things.length))
        ctx.oblige("run-satisfies-condition", z3.ForAll([j], z3.Implies(z3.And(j >= s, j < s + r), isB(z3.Select(things.arr, j)))))
        ctx.oblige("run-is-maximal", z3.Or(s + r == things.length, z3.Not(isB(z3.Select(things.arr, s + r)))))


class BoolAwareStaticByteLength(_Base):
    target = "pyteal.ast.abi.bool._bool_aware_static_byte_length"

    def __init__(self):
        super().__init__()
        B = self.B
        self.callees[B._consecutive_bool_type_spec_num] = self.c_consecutive
        self.callees[B._bool_sequence_length] = self.c_boolseq
        self.callees[self.TypeSpec.__dict__["byte_length_static"]] = lambda I, args, kwargs: blen(args[0].term)
        self.callees[B.BoolTypeSpec] = lambda I, args, kwargs: "BOOLSPEC"
        self.loops = {("_bool_aware_static_byte_length", 0): LoopSpec(inv=self.inv)}

    def install_eq(self, engine):
        engine.eq_handlers[self.TypeSpec] = lambda I, x, y: isB(x.term) if y == "BOOLSPEC" else (_ for _ in ()).throw(Unsupported("TypeSpec == other"))

    def c_consecutive(self, I, args, kwargs):
        return consecutive_contract(I, args[0], args[1], isB)

    def c_boolseq(self, I, args, kwargs):
        return ceil8(args[0])   # contract of _bool_sequence_length (proved as O6.13) for n >= 0

    def setup(self, ctx, I):
        self.install_eq(I.engine)
        types = self.types_list(ctx)
        pos = Pos(types.arr)
        for a in pos.base():
            ctx.assume(a)
        ctx.ghost.update(types=types, pos=pos)
        return {"args": [types]}

    def inv(self, ctx, env, it):
        types, pos = ctx.ghost["types"], ctx.ghost["pos"]
        i, n = it.k, types.length
        if it.phase == "preserved":
            for a in pos.unfold(i - 1):
                ctx.assume(a)
        length, g = env["length"], env["ignoreNext"]
        out = [("ignoreNext-non-negative", g >= 0)]
        aligned = z3.And(length == pos.OFF(i),
                         z3.Implies(z3.And(i < n, isB(pos.el(i))), pos.BIT(i) == 0))
        out.append(("aligned-when-not-skipping", z3.Implies(g == 0, aligned)))
        if env.has("numBools") and not isinstance(env["numBools"], int):
            L = env["numBools"]
            p = L - g
            r = i - p
            j = z3.Int("jrun!")
            inrun = z3.And(g <= L - 1, p >= 1, r >= 0, i + g <= n,
                           z3.ForAll([j], z3.Implies(z3.And(j >= i, j < i + g), isB(pos.el(j)))),
                           z3.Or(i + g == n, z3.Not(isB(pos.el(i + g)))),
                           length == pos.OFF(r) + ceil8(L),
                           pos.OFF(i) == pos.OFF(r) + ceil8(p), pos.BIT(i) == p % 8)
            out.append(("inside-bool-run", z3.Implies(g > 0, inrun)))
        else:
            out.append(("inside-bool-run", g == 0))
        return out

    def post(self, ctx, I, outcome, st):
        types, pos = ctx.ghost["types"], ctx.ghost["pos"]
        if outcome[0] != "return":
            ctx.oblige("never-raises", False)
            return
        ctx.oblige("equals-arc4-static-length", outcome[1] == pos.OFF(types.length))
