"""Contract for TealBlock.validateSlots (property C17): the memoised depth-first exploration reports every load of a slot
that can be reached along a syntactic path on which the slot was never stored.

Vocabulary (all uninterpreted; the block graph is arbitrary - cycles, sharing, any number of ops and slots):
  ops(b)[p], nops(b)         the op list of block b                 opc(o)        its opcode (Op member code)
  slots(o)[q], nslots(o)     what TealOp.getSlots returns           HAS(o, s)     s is one of slots(o)  (W(o, s): an index witnessing it)
  expr(o)                    the op's source expression             isTerm(b)     what isTerminal() returns
  out(b)[k], nout(b)         what getOutgoing() returns
  SB(b, p, s)                slot s is stored by one of ops(b)[0..p)     - defined by unfolding over p
  AFTER(b, S)                S united with everything b stores            - the slot set handed to b's successors
A *state* is a pair (block, set of slots known to be initialised).  A load at (b, p) of s is *bad in state (b, S)* when s is
neither in S nor stored earlier in b.

  LocalRep(b, S, REP)   :  every bad load of state (b, S) has its expression in REP
  Explored(b, S, V, REP):  LocalRep(b, S, REP)  and, unless isTerm(b), every successor state (out(b)[k], AFTER(b, S)) is in V

Contract of   errors = b.validateSlots(S, visited)   with V0 / V1 the visited set before / after and REP = { e.sourceExpr : e in errors }:
  (mono)     V0 is a subset of V1
  (own)      Explored(b, S, V1, REP)
  (closure)  every state in V1 \\ V0 is Explored(., ., V1, REP)
  (list)     errors is a list of TealCompileError whose sourceExpr set is REP (ghost witness function for membership)
For the root call V0 is empty, so V1 is closed under successors and contains the successors of the root state: by induction on the
length of a syntactic path (meta-lemma M17, 3 lines, in DESIGN.md 10.3) every state reachable from the root is the root state or in
V1, hence every load reachable without a prior store has its expression reported - and assignScratchSlotsToSubroutines raises as
soon as the list is non-empty.  The recursive call is checked against this same contract (partial correctness; termination of the
recursion is not proved here - it follows from the finiteness of block x slot-subset states and the strictly growing visited set).

The memo key `(id(block), *sorted(slot.id ...))` is represented by the pair (block, slot set).  This is exact when distinct slots
have distinct ids (requires; established by ScratchSlot.__init__ - contract C10/O10.1 - and the duplicate-id check that precedes
the call in assignScratchSlotsToSubroutines); the contract checks that the key is built from exactly these two ingredients.
TealCompileError.__eq__ (used by `error not in errors`) implies identical sourceExpr: read from the real class on every run.
"""
from __future__ import annotations

import ast
import inspect

import z3

from pyvc.values import *  # noqa
from pyvc.engine import LoopSpec, Unsupported
from pyvc.verifier import Contract, stamp, SymComp

I_ = z3.IntSort()
B_ = z3.BoolSort()
SETS = z3.ArraySort(I_, B_)
VIS = z3.ArraySort(I_, z3.ArraySort(SETS, B_))
OPS = z3.Function("opsOf", I_, z3.ArraySort(I_, I_))
NOPS = z3.Function("numOps", I_, I_)
OPC = z3.Function("opcodeOf", I_, I_)
SLOTS = z3.Function("slotsOfOp", I_, z3.ArraySort(I_, I_))
NSLOTS = z3.Function("numSlotsOfOp", I_, I_)
HAS = z3.Function("opHasSlot", I_, I_, B_)
W = z3.Function("slotWitness", I_, I_, I_)
EXPR = z3.Function("exprOfOp", I_, I_)
ISTERM = z3.Function("isTerminal", I_, B_)
OUT = z3.Function("outgoingOf", I_, z3.ArraySort(I_, I_))
NOUT = z3.Function("numOutgoing", I_, I_)
SB = z3.Function("storedBefore", I_, I_, I_, B_)
AFTER = z3.Function("slotsAfter", I_, SETS, SETS)
EEXPR = z3.Function("sourceExprOfError", I_, I_)
F = "TealBlock.validateSlots"


def op_at(b, p):
    return z3.Select(OPS(b), p)


def vis(V, b, S):
    return z3.Select(z3.Select(V, b), S)


class Spec:
    def __init__(self, LOAD, STORE):
        self.LOAD, self.STORE = LOAD, STORE

    # ---- definitional unfoldings (explicit instances only) ---------------------------------------------------------
    def has_def(self, o, tag):
        q, s = z3.Int("hq!" + tag), z3.Int("hs!" + tag)
        arr, n = SLOTS(o), NSLOTS(o)
        return [n >= 0,
                z3.ForAll([q], z3.Implies(z3.And(q >= 0, q < n), HAS(o, z3.Select(arr, q)))),
                z3.ForAll([s], z3.Implies(HAS(o, s), z3.And(W(o, s) >= 0, W(o, s) < n, z3.Select(arr, W(o, s)) == s)))]

    def sb_base(self, b, tag):
        s = z3.Int("sb0!" + tag)
        return z3.ForAll([s], z3.Not(SB(b, 0, s)))

    def sb_step(self, b, p, tag):
        s = z3.Int("sbs!" + tag)
        o = op_at(b, p)
        return z3.ForAll([s], SB(b, p + 1, s) == z3.Or(SB(b, p, s), z3.And(OPC(o) == self.STORE, HAS(o, s))))

    def after_def(self, b, S, tag):
        s = z3.Int("af!" + tag)
        return z3.ForAll([s], z3.Select(AFTER(b, S), s) == z3.Or(z3.Select(S, s), SB(b, NOPS(b), s)))

    # ---- the specification -----------------------------------------------------------------------------------------------
    def bad(self, b, S, p, s):
        o = op_at(b, p)
        return z3.And(OPC(o) == self.LOAD, HAS(o, s), z3.Not(z3.Select(S, s)), z3.Not(SB(b, p, s)))

    def local_rep(self, b, S, REP, upto=None, tag=""):
        p, s = z3.Int("lp!" + tag), z3.Int("ls!" + tag)
        n = NOPS(b) if upto is None else upto
        return z3.ForAll([p, s], z3.Implies(z3.And(p >= 0, p < n, self.bad(b, S, p, s)), z3.Select(REP, EXPR(op_at(b, p)))))

    def succ_in(self, b, S, V, upto=None, tag=""):
        k = z3.Int("sk!" + tag)
        n = NOUT(b) if upto is None else upto
        return z3.ForAll([k], z3.Implies(z3.And(k >= 0, k < n), vis(V, z3.Select(OUT(b), k), AFTER(b, S))))

    def explored(self, b, S, V, REP, tag=""):
        return z3.And(self.local_rep(b, S, REP, tag=tag), z3.Implies(z3.Not(ISTERM(b)), self.succ_in(b, S, V, tag=tag)))

    def mono(self, V0, V1, tag=""):
        b, S = z3.Int("mb!" + tag), z3.Const("mS!" + tag, SETS)
        return z3.ForAll([b, S], z3.Implies(vis(V0, b, S), vis(V1, b, S)))

    def closure(self, V0, V1, REP, tag=""):
        b, S = z3.Int("cb!" + tag), z3.Const("cS!" + tag, SETS)
        return z3.ForAll([b, S], z3.Implies(z3.And(vis(V1, b, S), z3.Not(vis(V0, b, S))), self.explored(b, S, V1, REP, tag=tag + "c")))


class ErrList:
    """ghost view of a list of TealCompileError: the sequence, the set of its sourceExpr values, and a membership witness"""

    def __init__(self, name, empty=False):
        self.name = name
        self.fresh()
        if empty:
            self.length = z3.IntVal(0)
            self.rep = z3.K(I_, z3.BoolVal(False))
        stamp(self)

    def fresh(self):
        self.arr = z3.Array(fresh_name(self.name + "_arr"), I_, I_)
        self.length = z3.Int(fresh_name(self.name + "_len"))
        self.rep = z3.Array(fresh_name(self.name + "_rep"), I_, B_)
        self.wit = z3.Array(fresh_name(self.name + "_wit"), I_, I_)

    def pyvc_havoc(self, ctx):
        self.fresh()

    def inv(self, tag=""):
        j, x = z3.Int("ej!" + tag), z3.Int("ex!" + tag)
        return [("errors/length", self.length >= 0),
                ("errors/elements-in-rep", z3.ForAll([j], z3.Implies(z3.And(j >= 0, j < self.length), z3.Select(self.rep, EEXPR(z3.Select(self.arr, j)))))),
                ("errors/rep-has-witness", z3.ForAll([x], z3.Implies(z3.Select(self.rep, x), z3.And(z3.Select(self.wit, x) >= 0, z3.Select(self.wit, x) < self.length,
                                                                                                    EEXPR(z3.Select(self.arr, z3.Select(self.wit, x))) == x))))]

    def pyvc_method(self, I, name, args, kwargs, node):
        if name == "append":
            e = unwrap(args[0])
            x = EEXPR(e)
            self.wit = z3.If(z3.Select(self.rep, x), self.wit, z3.Store(self.wit, x, self.length))
            self.arr = z3.Store(self.arr, self.length, e)
            self.rep = z3.Store(self.rep, x, z3.BoolVal(True))
            self.length = self.length + 1
            I.ctx.note_mut(self)
            return None
        raise Unsupported(f"errors.{name}")

    def pyvc_contains(self, I, x):
        # list membership uses TealCompileError.__eq__, which implies identical sourceExpr (checked against the real class in setup)
        c = z3.Bool(fresh_name("err_in"))
        I.ctx.assume(z3.Implies(c, z3.Select(self.rep, EEXPR(unwrap(x)))))
        return c

    def pyvc_iter(self, I):
        cls = I.contract.TealCompileError
        return self.length, (lambda k: SRef(z3.Select(self.arr, k), cls))

    def pyvc_len(self):
        return self.length


class Visited:
    def __init__(self, V):
        self.V = V
        stamp(self)

    def pyvc_havoc(self, ctx):
        self.V = z3.Const(fresh_name("V"), VIS)

    def key(self, x):
        if not (isinstance(x, tuple) and len(x) == 2 and isinstance(x[1], KeyPart)):
            raise Unsupported("visited key is not (id(block), *sorted slot ids)")
        return unwrap(x[0]), x[1].member

    def pyvc_contains(self, I, x):
        b, S = self.key(x)
        return vis(self.V, b, S)

    def pyvc_method(self, I, name, args, kwargs, node):
        if name == "add":
            b, S = self.key(args[0])
            self.V = z3.Store(self.V, b, z3.Store(z3.Select(self.V, b), S, z3.BoolVal(True)))
            I.ctx.note_mut(self)
            return None
        raise Unsupported(f"visited.{name}")


class KeyPart:
    def __init__(self, member):
        self.member = member


class SortedIds:
    def __init__(self, member):
        self.member = member

    def pyvc_star(self):
        return [KeyPart(self.member)]


class ValidateSlots(Contract):
    target = "pyteal.ir.tealblock.TealBlock.validateSlots"
    max_paths = 4000

    def __init__(self):
        from pyteal.ir import TealBlock, TealOp, Op
        from pyteal.ast import ScratchSlot
        from pyteal.errors import TealCompileError
        self.TealBlock, self.TealOp, self.Op, self.ScratchSlot, self.TealCompileError = TealBlock, TealOp, Op, ScratchSlot, TealCompileError
        self.codes = {m: i for i, m in enumerate(Op)}
        self.spec = Spec(self.codes[Op.load], self.codes[Op.store])
        self.raises_only = ()
        self.inline_ok = ()
        self.callees = {
            TealOp.__dict__["getOp"]: lambda I, args, kwargs: SRef(OPC(args[0].term), Op),
            TealOp.__dict__["getSlots"]: self.c_slots,
            TealBlock.__dict__["isTerminal"]: lambda I, args, kwargs: ISTERM(args[0].term),
            TealBlock.__dict__["getOutgoing"]: self.c_outgoing,
            TealBlock.__dict__["validateSlots"]: self.c_recursive,
            TealCompileError: self.c_error,
            sorted: self.c_sorted,
        }
        self.fields = {(TealBlock, "ops"): self.f_ops, (TealOp, "expr"): lambda ctx, ref: SRef(EXPR(ref.term), object),
                       (ScratchSlot, "id"): INT}
        self.var_kinds = {
            (F, "errors"): lambda ctx, v: ErrList("errors", empty=True),
            (F, "visited"): self.mk_visited,
            (F, "currentSlotsInUse"): self.copy_set,
            (F, "slotsInUse"): lambda ctx, v: self.empty_set(),
        }
        self.loops = {
            (F, 0): LoopSpec(inv=self.inv_ops, modifies=("currentSlotsInUse", "errors")),
            (F, 1): LoopSpec(inv=self.inv_store, modifies=("currentSlotsInUse",)),
            (F, 2): LoopSpec(inv=self.inv_load, modifies=("errors",)),
            (F, 3): LoopSpec(inv=self.inv_children, modifies=("errors", "visited")),
            (F, 4): LoopSpec(inv=self.inv_merge, modifies=("errors",)),
        }
        # TealCompileError.__eq__ must imply `self.sourceExpr is other.sourceExpr` (structural check of the real source)
        src = inspect.getsource(TealCompileError.__eq__)
        if "self.sourceExpr is other.sourceExpr" not in src or "and" not in src:
            raise Unsupported("TealCompileError.__eq__ no longer compares sourceExpr by identity")

    # ---- ghost constructors ------------------------------------------------------------------------------------------
    def mk_visited(self, ctx, v):
        o = Visited(z3.K(I_, z3.K(SETS, z3.BoolVal(False))))
        ctx.ghost["final_visited"] = o
        return o

    def empty_set(self):
        s = stamp(SSet(REF(self.ScratchSlot), member=z3.K(I_, z3.BoolVal(False)), name="nosl"))
        return s

    def copy_set(self, ctx, v):
        if not isinstance(v, SSet):
            raise Unsupported("currentSlotsInUse is not a copy of a slot set")
        return v   # already a fresh copy (builtin set() of a symbolic set)

    def f_ops(self, ctx, ref):
        l = stamp(SList(REF(self.TealOp), arr=OPS(ref.term), length=NOPS(ref.term), name="ops"))
        l.frozen = True
        ctx.assume(NOPS(ref.term) >= 0)
        return l

    def c_slots(self, I, args, kwargs):
        o = args[0].term
        for a in self.spec.has_def(o, fresh_name("h")):
            I.ctx.assume(a)
        l = stamp(SList(REF(self.ScratchSlot), arr=SLOTS(o), length=NSLOTS(o), name="slots"))
        l.frozen = True
        return l

    def c_outgoing(self, I, args, kwargs):
        b = args[0].term
        I.ctx.assume(NOUT(b) >= 0)
        l = stamp(SList(REF(self.TealBlock), arr=OUT(b), length=NOUT(b), name="outgoing"))
        l.frozen = True
        return l

    def c_error(self, I, args, kwargs):
        r = I.ctx.fresh_ref(self.TealCompileError, "err")
        src = args[1] if len(args) > 1 else kwargs.get("sourceExpr")
        I.ctx.assume(EEXPR(r.term) == unwrap(src))
        return r

    def c_sorted(self, I, args, kwargs):
        sc = args[0]
        cur = I.ctx.ghost.get("cur_set")
        ok = isinstance(sc, SymComp) and isinstance(sc.node.elt, ast.Attribute) and sc.node.elt.attr == "id" \
            and isinstance(sc.node.elt.value, ast.Name) and isinstance(sc.gen.target, ast.Name) and sc.node.elt.value.id == sc.gen.target.id \
            and not kwargs and len(args) == 1
        if ok:
            it = I.eval(sc.gen.iter, sc.fr)
            ok = it is sc.fr.lookup("currentSlotsInUse") and isinstance(it, SSet)
        if not ok:
            raise Unsupported("memo key: sorted(...) is not over `slot.id for slot in currentSlotsInUse`")
        return SortedIds(it.member)

    def c_recursive(self, I, args, kwargs):
        ctx = I.ctx
        blk, S, visited = args[0], args[1], args[2]
        if not isinstance(S, SSet) or not isinstance(visited, Visited):
            raise Unsupported("recursive call: unexpected argument shapes")
        V0 = visited.V
        V1 = z3.Const(fresh_name("Vc"), VIS)
        R = ErrList("child")
        sp = self.spec
        t = fresh_name("r")
        ctx.assume(sp.mono(V0, V1, t))
        ctx.assume(sp.explored(blk.term, S.member, V1, R.rep, t + "o"))
        ctx.assume(sp.closure(V0, V1, R.rep, t))
        for _, f in R.inv(t):
            ctx.assume(f)
        visited.V = V1
        ctx.note_mut(visited)
        ctx.ghost["last_child"] = R
        return R

    # ---- entry ---------------------------------------------------------------------------------------------------------------
    def setup(self, ctx, I):
        I.engine.eq_handlers[self.Op] = lambda I_, x, y: (x.term == self.codes[y]) if not isinstance(y, SRef) else (x.term == y.term)
        b = SRef(z3.Int("self_block"), self.TealBlock)
        ctx.assume(b.term >= 0)
        root = ctx.branch(z3.Bool("root_call"))
        S = stamp(SSet(REF(self.ScratchSlot), name="slotsInUse"))
        if root:
            visited = None
            V0 = z3.K(I_, z3.K(SETS, z3.BoolVal(False)))
        else:
            V0 = z3.Const("V_entry", VIS)
            visited = Visited(V0)
            ctx.ghost["final_visited"] = visited
        sp = self.spec
        ctx.assume(sp.sb_base(b.term, "e"))
        ctx.assume(sp.after_def(b.term, S.member, "e"))
        ctx.ghost.update(b=b, S=S.member, V0=V0, S_obj=S)
        return {"args": [b, S, visited]}

    # ---- loop 0: ops -------------------------------------------------------------------------------------------------------------
    def common(self, ctx, env):
        g = ctx.ghost
        return g["b"].term, g["S"], env["currentSlotsInUse"], env["errors"]

    def inv_ops(self, ctx, env, it):
        b, S, cur, errs = self.common(ctx, env)
        sp = self.spec
        if it.phase != "init":
            ctx.assume(sp.sb_step(b, it.k if it.phase == "iter" else it.k - 1, fresh_name("s")))
        s = z3.Int("is!")
        return errs.inv("0") + [
            ("current-set-is-S-plus-stored-so-far", z3.ForAll([s], z3.Select(cur.member, s) == z3.Or(z3.Select(S, s), SB(b, it.k, s)))),
            ("bad-loads-so-far-reported", sp.local_rep(b, S, errs.rep, upto=it.k, tag="0")),
        ]

    # ---- loop 1: slots of a store ---------------------------------------------------------------------------------------------------
    def inv_store(self, ctx, env, it):
        b, S, cur, errs = self.common(ctx, env)
        if it.phase == "init":
            ctx.ghost["cur_pre"] = cur.member
        pre = ctx.ghost["cur_pre"]
        o = env["op"].term
        q, s = z3.Int("q1!"), z3.Int("s1!")
        return [
            ("processed-slots-added", z3.ForAll([q], z3.Implies(z3.And(q >= 0, q < it.k), z3.Select(cur.member, z3.Select(SLOTS(o), q))))),
            ("nothing-removed", z3.ForAll([s], z3.Implies(z3.Select(pre, s), z3.Select(cur.member, s)))),
            ("only-slots-of-the-op-added", z3.ForAll([s], z3.Implies(z3.Select(cur.member, s), z3.Or(z3.Select(pre, s), HAS(o, s))))),
        ]

    # ---- loop 2: slots of a load -----------------------------------------------------------------------------------------------------
    def inv_load(self, ctx, env, it):
        b, S, cur, errs = self.common(ctx, env)
        if it.phase == "init":
            ctx.ghost["rep_pre"] = errs.rep
        pre = ctx.ghost["rep_pre"]
        o = env["op"].term
        q, x = z3.Int("q2!"), z3.Int("x2!")
        return errs.inv("2") + [
            ("reported-stay-reported", z3.ForAll([x], z3.Implies(z3.Select(pre, x), z3.Select(errs.rep, x)))),
            ("uninitialised-slots-so-far-reported", z3.ForAll([q], z3.Implies(z3.And(q >= 0, q < it.k, z3.Not(z3.Select(cur.member, z3.Select(SLOTS(o), q)))),
                                                                               z3.Select(errs.rep, EXPR(o))))),
        ]

    # ---- loop 3: successors ---------------------------------------------------------------------------------------------------------------
    def inv_children(self, ctx, env, it):
        b, S, cur, errs = self.common(ctx, env)
        sp = self.spec
        V0 = ctx.ghost["V0"]
        V = env["visited"].V
        if it.phase == "init":
            ctx.ghost["rep_l3"] = errs.rep
        x = z3.Int("x3!")
        return errs.inv("3") + [
            ("visited-only-grows", sp.mono(V0, V, "3")),
            ("local-errors-kept", sp.local_rep(b, S, errs.rep, tag="3")),
            ("handled-successors-visited", sp.succ_in(b, S, V, upto=it.k, tag="3")),
            ("new-states-explored", sp.closure(V0, V, errs.rep, "3")),
        ]

    # ---- loop 4: merging a child's errors ----------------------------------------------------------------------------------------------------
    def inv_merge(self, ctx, env, it):
        b, S, cur, errs = self.common(ctx, env)
        child = ctx.ghost["last_child"]
        if it.phase == "init":
            ctx.ghost["rep_l4"] = errs.rep
        pre = ctx.ghost["rep_l4"]
        j, x = z3.Int("j4!"), z3.Int("x4!")
        return errs.inv("4") + [
            ("reported-stay-reported", z3.ForAll([x], z3.Implies(z3.Select(pre, x), z3.Select(errs.rep, x)))),
            ("merged-so-far", z3.ForAll([j], z3.Implies(z3.And(j >= 0, j < it.k), z3.Select(errs.rep, EEXPR(z3.Select(child.arr, j)))))),
        ]

    # ---- postcondition ---------------------------------------------------------------------------------------------------------------------------
    def post(self, ctx, I, outcome, st):
        if outcome[0] != "return":
            ctx.oblige("never-raises", False)
            return
        r = outcome[1]
        if not isinstance(r, ErrList):
            raise Unsupported("result is not the errors list")
        g = ctx.ghost
        b, S, V0 = g["b"].term, g["S"], g["V0"]
        sp = self.spec
        V1 = self.final_V(I, st)
        # frame: the set the caller passed in is the caller's own view of "stored so far" (it hands the same object to every successor):
        # the call works on a private copy and leaves it as it was
        so = g["S_obj"]
        ctx.oblige("post/callers-slot-set-not-modified", z3.BoolVal(True) if so.member is S else (so.member == S))
        ctx.oblige("post/visited-only-grows", sp.mono(V0, V1, "p"))
        ctx.oblige("post/own-bad-loads-reported", sp.local_rep(b, S, r.rep, tag="p"))
        ctx.oblige("post/own-successors-visited", z3.Implies(z3.Not(ISTERM(b)), sp.succ_in(b, S, V1, tag="p")))
        ctx.oblige("post/new-states-explored", sp.closure(V0, V1, r.rep, "p"))
        for name, f in r.inv("p"):
            ctx.oblige("post/" + name, f)

    def final_V(self, I, st):
        v = I.ctx.ghost.get("final_visited")
        if v is None:
            raise Unsupported("visited set not observed at exit")
        return v.V
