"""Contract for pyteal.compiler.constants.createConstantBlocks (property C12: "every constant-block index refers to the block
entry holding that value", "at every constant-load site the value pushed is exactly the one the pseudo-op form denotes").

Vocabulary (uninterpreted):  ops[j] the input components;  isOp / opc / expr of a component;
  IV(o)                   what extractIntValue(o) returns                (value identity; int and template-name values)
  DB(o) / DA(o) / DM(o)   what extractBytesValue / extractAddrValue / extractMethodSigValue return
  isBytes(v), HEX(v)      v is a bytes object; the text "0x" + v.hex()    ENC(v) = HEX(v) if isBytes(v) else v   (the block / push text)
The four extract* functions are *callees* here (trusted summaries: "returns the value the literal denotes"); their literal decoding
is the bounded part of the C12 check (independent TEAL literal decoder).

Postcondition.  With nb in {0,1,2} the number of block ops emitted first (intcblock IB..., then bytecblock BB...):
  * out has nb + len(ops) components and out[nb + j] corresponds to ops[j]:
      - not a constant load (label, other op): out[nb+j] is ops[j] itself
      - int load:   `pushint IV`  |  `intc_k` with k < len(IB) and IB[k] == IV  |  `intc i` with i < len(IB) <= 256 and IB[i] == IV
      - byte / addr / method load with value v:  `pushbytes ENC(v)`  |  `bytec_k`, BB[k] == ENC(v)  |  `bytec i`, i < len(BB) <= 256, BB[i] == ENC(v)
      - a new op carries the source expression of the op it replaces
  * an index form is used only if the corresponding block op was emitted; never raises (no KeyError / ValueError / IndexError)

Summarised statements (trusted Python semantics, each guarded by a syntactic check of the real source so that an edit there makes the
contract undecided rather than silently unsound):
  S1/S2  sorted(d, key=lambda x: d[x], reverse=True)    a duplicate-free enumeration of d's keys in non-increasing order of d[x]
  S3     the intBlock comprehension                      some list (nothing about it is needed: membership and index() are re-derived)
  S4     the byteBlock comprehension                     [ENC(b) for b in sortedBytes if byteFreqs[b] > 1] over a list sorted by that very
                                                         key keeps a prefix: lemma filter_eq_takeWhile_of_sorted, machine-checked in
                                                         lemmas/FilterPrefix.lean (Lean 4)
"""
from __future__ import annotations

import ast
import inspect
import textwrap

import z3

from pyvc.values import *  # noqa
from pyvc.engine import LoopSpec, Unsupported, Closure
from pyvc.verifier import Contract, stamp
from pyvc.interp import _StarArgs

I_ = z3.IntSort()
B_ = z3.BoolSort()
ISOP = z3.Function("isTealOp", I_, B_)
OPC = z3.Function("opcodeOf", I_, I_)
EXPR = z3.Function("exprOfOp", I_, I_)
IV = z3.Function("intValueOf", I_, I_)
DB = z3.Function("bytesValueOf", I_, I_)
DA = z3.Function("addrValueOf", I_, I_)
DM = z3.Function("methodValueOf", I_, I_)
ISBYTES = z3.Function("isBytesObject", I_, B_)
HEX = z3.Function("hexTextOf", I_, I_)
F = "createConstantBlocks"
PASS = -1


def ENC(v):
    return z3.If(ISBYTES(v), HEX(v), v)


class ConstVal:
    """marker class of byte-like constant values (bytes objects and template names)"""

    def hex(self):  # pragma: no cover  (only its identity is used: callee key)
        raise RuntimeError


class HexText:
    def __init__(self, term):
        self.term = term

    def __radd__(self, other):
        if other != "0x":
            raise Unsupported("hex text with a prefix other than 0x")
        return SRef(HEX(self.term), ConstVal)


class ArgsOf:
    def __init__(self, op):
        self.op = op

    def pyvc_star(self):
        return [("args-of", self.op)]


class NewOp:
    def __init__(self, expr, kind, rest):
        self.expr, self.kind, self.rest = expr, kind, rest


class OutList:
    def __init__(self):
        self.head = []          # block ops emitted before the per-op part: ("int"|"byte", SList-like)
        self.KIND = z3.Array(fresh_name("outKind"), I_, I_)
        self.A0 = z3.Array(fresh_name("outArg"), I_, I_)
        self.SRC = z3.Array(fresh_name("outSrc"), I_, I_)
        self.length = z3.IntVal(0)
        self.bad = None
        stamp(self)

    def pyvc_havoc(self, ctx):
        self.KIND = z3.Array(fresh_name("outKind"), I_, I_)
        self.A0 = z3.Array(fresh_name("outArg"), I_, I_)
        self.SRC = z3.Array(fresh_name("outSrc"), I_, I_)
        self.length = z3.Int(fresh_name("outLen"))

    def pyvc_method(self, I, name, args, kwargs, node):
        if name != "append":
            raise Unsupported(f"assembled.{name}")
        x = args[0]
        c = I.contract
        if isinstance(x, NewOp):
            if x.kind in (c.Op.intcblock, c.Op.bytecblock):
                ln = z3.simplify(self.length)
                if not (z3.is_int_value(ln) and ln.as_long() == len(self.head)) or len(x.rest) != 1 or not isinstance(x.rest[0], _StarArgs):
                    raise Unsupported("a constant block op emitted at an unexpected place / with unexpected arguments")
                self.head.append(("int" if x.kind is c.Op.intcblock else "byte", x.rest[0].value))
                self.KIND = z3.Store(self.KIND, self.length, c.codes[x.kind])
                self.length = self.length + 1
                I.ctx.note_mut(self)
                return None
            a0 = None
            rest = list(x.rest)
            if rest and not (isinstance(rest[0], str) and rest[0] == "//"):
                a0 = unwrap(rest.pop(0))
            # the remainder must be the comment marker followed by the replaced op's own arguments
            ok = len(rest) == 2 and rest[0] == "//" and isinstance(rest[1], tuple) and rest[1][0] == "args-of"
            if not ok:
                raise Unsupported("new constant op without the `//` + original-arguments comment")
            self.KIND = z3.Store(self.KIND, self.length, c.codes[x.kind])
            self.A0 = z3.Store(self.A0, self.length, a0 if a0 is not None else z3.IntVal(-1))
            self.SRC = z3.Store(self.SRC, self.length, unwrap(x.expr))
        elif isinstance(x, SRef):
            self.KIND = z3.Store(self.KIND, self.length, z3.IntVal(PASS))
            self.SRC = z3.Store(self.SRC, self.length, x.term)
        else:
            raise Unsupported(f"assembled.append of {x!r}")
        self.length = self.length + 1
        I.ctx.note_mut(self)
        return None


class CreateConstantBlocks(Contract):
    target = "pyteal.compiler.constants.createConstantBlocks"
    max_paths = 6000

    def __init__(self):
        from pyteal.compiler import constants as C
        from pyteal.ir import TealOp, TealComponent, Op
        self.C, self.TealOp, self.TealComponent, self.Op = C, TealOp, TealComponent, Op
        self.codes = {m: i for i, m in enumerate(Op)}
        self.raises_only = ()
        self.inline_ok = ()
        self.callees = {
            ("isinstance", TealOp): self.c_isinstance,
            ("type", ConstVal): self.c_type,
            ConstVal.__dict__["hex"]: lambda I, args, kwargs: HexText(args[0].term),
            TealOp.__dict__["getOp"]: lambda I, args, kwargs: SRef(OPC(args[0].term), Op),
            C.extractIntValue: lambda I, args, kwargs: IV(args[0].term),
            C.extractBytesValue: lambda I, args, kwargs: SRef(DB(args[0].term), ConstVal),
            C.extractAddrValue: lambda I, args, kwargs: SRef(DA(args[0].term), ConstVal),
            C.extractMethodSigValue: lambda I, args, kwargs: SRef(DM(args[0].term), ConstVal),
            TealOp: self.c_new_op,
            sorted: self.c_sorted,
        }
        self.fields = {(TealOp, "expr"): lambda ctx, ref: SRef(EXPR(ref.term), object), (TealOp, "args"): lambda ctx, ref: ArgsOf(ref.term),
                       (TealComponent, "expr"): lambda ctx, ref: SRef(EXPR(ref.term), object), (TealComponent, "args"): lambda ctx, ref: ArgsOf(ref.term)}
        self.var_kinds = {
            (F, "intFreqs"): lambda ctx, v: self.mk_dict(ctx, "intFreqs"),
            (F, "byteFreqs"): lambda ctx, v: self.mk_dict(ctx, "byteFreqs"),
            (F, "assembled"): lambda ctx, v: self.mk_out(ctx),
        }
        self.loops = {(F, 0): LoopSpec(inv=self.inv_count, modifies=("intFreqs", "byteFreqs")),
                      (F, 1): LoopSpec(inv=self.inv_emit, modifies=("assembled",))}
        self.install_comprehension_guards()
        if C.MAX_CONSTANT_BLOCK_ENTRIES != 256:
            raise Unsupported("MAX_CONSTANT_BLOCK_ENTRIES is not 256")

    # ---- syntactic guards of the summarised statements -------------------------------------------------------------------
    EXPECT_INT = "[val for i, val in enumerate(sortedInts) if intFreqs[val] > 1 and (i < 4 or isinstance(val, str) or val >= 2 ** 7)]"
    EXPECT_BYTE = "['0x' + b.hex() if type(b) is bytes else cast(str, b) for b in sortedBytes if byteFreqs[b] > 1]"

    def install_comprehension_guards(self):
        src = textwrap.dedent(inspect.getsource(self.C.createConstantBlocks))
        tree = ast.parse(src)
        _, first = inspect.getsourcelines(self.C.createConstantBlocks)
        comps = [n for n in ast.walk(tree) if isinstance(n, ast.ListComp)]
        comps.sort(key=lambda n: n.lineno)
        if len(comps) != 2:
            raise Unsupported("createConstantBlocks no longer has exactly two list comprehensions")
        for n, expect, h in zip(comps, (self.EXPECT_INT, self.EXPECT_BYTE), (self.s_int_block, self.s_byte_block)):
            if ast.unparse(n) != expect:
                raise Unsupported(f"comprehension at line {n.lineno + first - 1} changed: {ast.unparse(n)!r}")
            self.callees[("comprehension", n.lineno + first - 1)] = h

    # ---- ghost constructors ---------------------------------------------------------------------------------------------------
    def mk_dict(self, ctx, name):
        d = stamp(SDict(INT, INT, name=name))
        k = z3.Int("kd!" + name)
        ctx.assume(z3.ForAll([k], z3.Not(z3.Select(d.has, k))))
        return d

    def mk_out(self, ctx):
        o = OutList()
        ctx.ghost["out"] = o
        return o

    def c_isinstance(self, I, v, classes):
        if classes == (self.TealOp,):
            return ISOP(v.term)
        raise Unsupported(f"isinstance against {classes}")

    def c_type(self, I, ref):
        return bytes if I.ctx.branch(ISBYTES(ref.term)) else str

    def c_new_op(self, I, args, kwargs):
        expr, kind = args[0], args[1]
        if not isinstance(kind, self.Op):
            raise Unsupported("TealOp with a symbolic opcode")
        return NewOp(expr if expr is not None else SRef(z3.IntVal(NONE_REF), object), kind, list(args[2:]))

    def c_sorted(self, I, args, kwargs):
        ctx = I.ctx
        d = args[0]
        key = kwargs.get("key")
        ok = isinstance(d, SDict) and len(args) == 1 and kwargs.get("reverse") is True and isinstance(key, Closure) and set(kwargs) == {"key", "reverse"}
        if ok:
            node = key.node
            ok = isinstance(node, ast.Lambda) and len(node.args.args) == 1 and isinstance(node.body, ast.Subscript) \
                and isinstance(node.body.value, ast.Name) and isinstance(node.body.slice, ast.Name) and node.body.slice.id == node.args.args[0].arg \
                and key.frame.lookup(node.body.value.id) is d
        if not ok:
            raise Unsupported("sorted(...) is not `sorted(d, key=lambda x: d[x], reverse=True)` over a frequency dict")
        L = stamp(SList(INT, name="sorted_" + d.name))
        L.frozen = True
        pos = z3.Function(fresh_name("posIn_" + d.name), I_, I_)
        i, j, k = z3.Int(fresh_name("si")), z3.Int(fresh_name("sj")), z3.Int(fresh_name("sk"))
        ctx.assume(L.length >= 0)
        ctx.assume(z3.ForAll([i], z3.Implies(z3.And(i >= 0, i < L.length), z3.And(z3.Select(d.has, z3.Select(L.arr, i)), pos(z3.Select(L.arr, i)) == i))))
        ctx.assume(z3.ForAll([k], z3.Implies(z3.Select(d.has, k), z3.And(pos(k) >= 0, pos(k) < L.length, z3.Select(L.arr, pos(k)) == k))))
        ctx.assume(z3.ForAll([i, j], z3.Implies(z3.And(i >= 0, i <= j, j < L.length), z3.Select(d.val, z3.Select(L.arr, i)) >= z3.Select(d.val, z3.Select(L.arr, j)))))
        L.sorted_of = d
        return L

    def s_int_block(self, I, n, fr, it):
        L = stamp(SList(INT, name="intBlock0"))
        I.ctx.assume(L.length >= 0)
        return L

    def s_byte_block(self, I, n, fr, it):
        ctx = I.ctx
        d = fr.lookup("byteFreqs")
        if not isinstance(it, SList) or getattr(it, "sorted_of", None) is not d:
            raise Unsupported("byteBlock comprehension does not range over sorted(byteFreqs ...)")
        R = stamp(SList(INT, name="byteBlock0"))
        i = z3.Int(fresh_name("bi"))
        freq = lambda x: z3.Select(d.val, x)
        ctx.assume(z3.And(R.length >= 0, R.length <= it.length))
        ctx.assume(z3.ForAll([i], z3.Implies(z3.And(i >= 0, i < R.length), z3.And(freq(z3.Select(it.arr, i)) > 1, z3.Select(R.arr, i) == ENC(z3.Select(it.arr, i))))))
        ctx.assume(z3.ForAll([i], z3.Implies(z3.And(i >= R.length, i < it.length), z3.Not(freq(z3.Select(it.arr, i)) > 1))))
        return R

    # ---- entry -------------------------------------------------------------------------------------------------------------------
    def setup(self, ctx, I):
        I.engine.eq_handlers[self.Op] = lambda I_, x, y: (x.term == self.codes[y]) if not isinstance(y, SRef) else (x.term == y.term)
        ops = stamp(SList(REF(self.TealOp), name="ops"))   # class used for attribute lookup only: isinstance(op, TealOp) stays symbolic (hook)
        ops.frozen = True
        ctx.assume(ops.length >= 0)
        j = z3.Int("jo!")
        ctx.assume(z3.ForAll([j], z3.Select(ops.arr, j) >= 0))
        ctx.ghost["ops"] = ops
        return {"args": [ops]}

    def bytekind(self, o):
        c = self.codes
        return z3.And(ISOP(o), z3.Or(OPC(o) == c[self.Op.byte], OPC(o) == c[self.Op.addr], OPC(o) == c[self.Op.method_signature]))

    def den(self, o):
        c = self.codes
        return z3.If(OPC(o) == c[self.Op.byte], DB(o), z3.If(OPC(o) == c[self.Op.addr], DA(o), DM(o)))

    # ---- loop 0: frequency count ----------------------------------------------------------------------------------------------
    def inv_count(self, ctx, env, it):
        ops = ctx.ghost["ops"]
        bf = env["byteFreqs"]
        j, k = z3.Int("jc!"), z3.Int("kc!")
        o = z3.Select(ops.arr, j)
        return [("byte-values-seen-are-counted", z3.ForAll([j], z3.Implies(z3.And(j >= 0, j < it.k, self.bytekind(o)), z3.Select(bf.has, self.den(o))))),
                ("counts-positive", z3.ForAll([k], z3.Implies(z3.Select(bf.has, k), z3.Select(bf.val, k) >= 1)))]

    # ---- loop 1: emission ---------------------------------------------------------------------------------------------------------
    def block(self, out, which):
        for w, l in out.head:
            if w == which:
                return l
        return None

    def corr(self, out, j, o):
        """out[nb + j] corresponds to the input component o"""
        c, Op = self.codes, self.Op
        nb = len(out.head)
        e = nb + j
        K, A, S = z3.Select(out.KIND, e), z3.Select(out.A0, e), z3.Select(out.SRC, e)
        IB, BB = self.block(out, "int"), self.block(out, "byte")

        def loads(block, value, push, short, long_):
            alts = [z3.And(K == c[push], A == value)]
            if block is not None:
                n = block.length
                get = lambda idx: unwrap(block.get(idx))
                for kk, opk in enumerate(short):
                    alts.append(z3.And(K == c[opk], kk < n, get(z3.IntVal(kk)) == value))
                alts.append(z3.And(K == c[long_], A >= 0, A < n, n <= 256, get(A) == value))
            return z3.And(z3.Or(*alts), S == EXPR(o))
        is_int = z3.And(ISOP(o), OPC(o) == c[Op.int])
        is_byte = self.bytekind(o)
        return z3.If(is_int, loads(IB, IV(o), Op.pushint, (Op.intc_0, Op.intc_1, Op.intc_2, Op.intc_3), Op.intc),
                     z3.If(is_byte, loads(BB, ENC(self.den(o)), Op.pushbytes, (Op.bytec_0, Op.bytec_1, Op.bytec_2, Op.bytec_3), Op.bytec),
                           z3.And(K == PASS, S == o)))

    def inv_emit(self, ctx, env, it):
        ops = ctx.ghost["ops"]
        out = env["assembled"]
        j = z3.Int("je!")
        return [("one-output-per-input", out.length == len(out.head) + it.k),
                ("outputs-correspond", z3.ForAll([j], z3.Implies(z3.And(j >= 0, j < it.k), self.corr(out, j, z3.Select(ops.arr, j)))))]

    def post(self, ctx, I, outcome, st):
        if outcome[0] != "return":
            ctx.oblige("never-raises", False)
            return
        out = outcome[1]
        if not isinstance(out, OutList):
            raise Unsupported("result is not the assembled list")
        ops = ctx.ghost["ops"]
        j = z3.Int("jp!")
        ctx.oblige("post/length", out.length == len(out.head) + ops.length)
        ctx.oblige("post/every-load-site-denotes-its-value", z3.ForAll([j], z3.Implies(z3.And(j >= 0, j < ops.length), self.corr(out, j, z3.Select(ops.arr, j)))))
        kinds = [w for w, _ in out.head]
        ctx.oblige("post/blocks-first-int-then-byte", z3.BoolVal(kinds in ([], ["int"], ["byte"], ["int", "byte"])))
        for w, l in out.head:
            ctx.oblige(f"post/{w}-block-nonempty-and-addressable", z3.And(l.length >= 1, l.length <= 256))
