"""Contract for pyteal.ast.itxn.InnerTxnBuilder.MethodCall (property C14): classification of the arguments and the reference indices.

For every signature (any number of parameters, kinds in any order) and every argument list, when the call returns:
  * the result is   Seq( [Seq(t, Next()) for t in TXNS] ,  SetField(type_enum, appl) [, SetField(application_id, app_id)]
                         [, SetField(accounts, ACCTS)] [, SetField(applications, APPS)] [, SetField(assets, ASSETS)],
                         SetField(application_args, ARGS),  SetFields(extra_fields or {}) )            in this order
  * TXNS   = the transaction-typed arguments, in order, each as SetFields(arg)                       (one preceding inner txn each)
  * ACCTS / APPS / ASSETS = the account / application / asset arguments in order (arg itself, or arg.address() /
    .application_id() / .asset_id() of the ABI reference value)
  * ARGS[0] is the MethodSignature of the given string; the j-th non-transaction argument sits at ARGS[1 + NT(j)] and is
        the one-byte uint8 encoding of  (its position in ACCTS) + 1   for an account,   (position in APPS) + 1   for an application,
        (position in ASSETS)   for an asset  (ARC-4: accounts / applications are 1-based because slot 0 is the sender / the
        current application; assets are 0-based),   the argument itself (an Expr) or arg.encode() (an ABI value) otherwise
    NT / AC / PC / SC / TC count the non-transaction / account / application / asset / transaction parameters before j
    (spec functions unfolded per iteration).
  * raises only TealInputError / TealTypeError (argument count or kind / type mismatch) - or algosdk's ABIEncodingError when more
    than 255 references of one kind are passed.
Callee summaries (pure record constructors or uninterpreted queries): SetField, SetFields, Next, Seq, MethodSignature, Bytes,
uint8 encode, require_type (may raise TealTypeError), type_spec_is_assignable_to / type_spec_from_algosdk (uninterpreted: their
meaning is property C19's), type_specs_from_signature (returns an arbitrary list of parameter type specs).
Type-spec equality and `match` class patterns are resolved through the class of the real objects in abi.TransactionTypeSpecs /
abi.ReferenceTypeSpecs (their __eq__ is class identity - read from the real lists on every run).
NOT covered: the 15-argument tuple packing (MethodCall has none: known finding), what SetField / Seq emit (fragments), run-time values.
"""
from __future__ import annotations

import ast

import z3

from pyvc.values import *  # noqa
from pyvc.engine import LoopSpec, Unsupported, RaiseSignal
from pyvc.verifier import Contract, stamp, SymComp
from pyvc.interp import _StarArgs

I_ = z3.IntSort()
B_ = z3.BoolSort()
TSK = z3.Function("typeSpecKind", I_, I_)          # 0 plain ABI, 1 account, 2 asset, 3 application, 10.. transaction kinds
ARGK = z3.Function("argumentClass", I_, I_)        # 0 other, 1 Expr, 2 dict, 3 abi.Account, 4 abi.Application, 5 abi.Asset, 6 other abi.BaseType
ADDR, APPID, ASSETID, ENCODE, TSPEC = (z3.Function(n, I_, I_) for n in ("addressOf", "applicationIdOf", "assetIdOf", "encodeOf", "typeSpecOfArg"))
TYPEENUM = z3.Function("typeEnumEntry", I_, I_)
HASTE = z3.Function("hasTypeEnum", I_, B_)
ISENUM = z3.Function("isEnumInt", I_, B_)
TXNSPEC = z3.Function("typeSpecOfTxnName", I_, I_)
ASSIGN = z3.Function("assignableTo", I_, I_, B_)
NT, AC, PC, SC, TC = (z3.Function(n, I_, I_) for n in ("nonTxnBefore", "accountsBefore", "applicationsBefore", "assetsBefore", "txnsBefore"))
F = "InnerTxnBuilder.MethodCall"
K_SEL, K_IDX, K_RAW, K_ENC = 0, 1, 2, 3
ACCOUNT, ASSET, APPL = 1, 2, 3


class Arg:
    """marker class of the elements of `args` (attribute lookup only; the dynamic class is the symbolic ARGK)"""

    def address(self): raise RuntimeError
    def application_id(self): raise RuntimeError
    def asset_id(self): raise RuntimeError
    def encode(self): raise RuntimeError
    def type_spec(self): raise RuntimeError


class EnumEntry:
    pass


class GList:
    """ghost list of Int-coded entries (kind, value)"""

    def __init__(self, name):
        self.name = name
        self.K = z3.Array(fresh_name(name + "_kind"), I_, I_)
        self.V = z3.Array(fresh_name(name + "_val"), I_, I_)
        self.length = z3.IntVal(0)
        stamp(self)

    def pyvc_havoc(self, ctx):
        self.K = z3.Array(fresh_name(self.name + "_kind"), I_, I_)
        self.V = z3.Array(fresh_name(self.name + "_val"), I_, I_)
        self.length = z3.Int(fresh_name(self.name + "_len"))

    def push(self, I, kind, val):
        self.K = z3.Store(self.K, self.length, kind if is_z3(kind) else z3.IntVal(kind))
        self.V = z3.Store(self.V, self.length, val)
        self.length = self.length + 1
        I.ctx.note_mut(self)

    def pyvc_method(self, I, name, args, kwargs, node):
        if name != "append":
            raise Unsupported(f"{self.name}.{name}")
        x = args[0]
        if isinstance(x, tuple) and x and x[0] == "entry":
            self.push(I, x[1], x[2])
        elif isinstance(x, tuple) and len(x) == 2 and x[0] == "setfields" and isinstance(x[1], SRef) and self.name == "txns":
            self.push(I, K_RAW, x[1].term)        # InnerTxnBuilder.SetFields(arg): one inner transaction built from the dict argument
        elif isinstance(x, SRef):
            self.push(I, K_RAW, x.term)
        else:
            raise Unsupported(f"{self.name}.append({x!r})")
        return None

    def pyvc_len(self):
        return self.length

    def pyvc_iter(self, I):
        return self.length, (lambda k: ("entry", z3.Select(self.K, k), z3.Select(self.V, k)))


class MethodCall(Contract):
    target = "pyteal.ast.itxn.InnerTxnBuilder.MethodCall"
    max_paths = 8000

    def __init__(self):
        import pyteal as pt
        import algosdk
        from pyteal import abi
        from pyteal.ast import itxn
        from pyteal.ast.abi import util as U
        self.pt, self.abi, self.itxn = pt, abi, itxn
        self.raises_only = (pt.TealInputError, pt.TealTypeError, algosdk.error.ABIEncodingError)
        self.ABIEncodingError = algosdk.error.ABIEncodingError
        self.inline_ok = ()
        self.fields = {(EnumEntry, "name"): lambda ctx, ref: SRef(ref.term, object)}
        # codes of the real type-spec objects (class identity is their equality)
        self.ts_code = {}
        for i, t in enumerate(abi.TransactionTypeSpecs):
            if type(t).__eq__(t, type(t)()) is not True:
                raise Unsupported("transaction type spec equality is not class identity")
            self.ts_code[type(t)] = 10 + i
        for cls, code in ((abi.AccountTypeSpec, ACCOUNT), (abi.AssetTypeSpec, ASSET), (abi.ApplicationTypeSpec, APPL)):
            self.ts_code[cls] = code
        if [type(t) for t in abi.ReferenceTypeSpecs] != [abi.AccountTypeSpec, abi.AssetTypeSpec, abi.ApplicationTypeSpec]:
            raise Unsupported("abi.ReferenceTypeSpecs changed")
        IB = pt.InnerTxnBuilder
        self.callees = {
            U.type_specs_from_signature: self.c_sig,
            U.type_spec_is_assignable_to: lambda I, a, k: ASSIGN(a[0].term, a[1].term),
            U.type_spec_from_algosdk: lambda I, a, k: SRef(TXNSPEC(unwrap(a[0])), abi.TypeSpec),
            itxn.require_type: self.c_require,
            pt.MethodSignature: lambda I, a, k: ("entry", K_SEL, z3.IntVal(0)) if a[0] is I.ctx.ghost["sig"] else (_ for _ in ()).throw(Unsupported("MethodSignature of another string")),
            pt.Bytes: self.c_bytes,
            algosdk.abi.UintType.encode: self.c_u8,
            IB.__dict__["SetField"].__func__: lambda I, a, k: ("setfield", a[1], a[2]),
            IB.__dict__["SetFields"].__func__: lambda I, a, k: ("setfields", a[1]),
            IB.__dict__["Next"].__func__: lambda I, a, k: ("next",),
            pt.Seq: lambda I, a, k: ("seq", list(a)),
            ("isinstance", Arg): self.c_isinstance_arg,
            ("isinstance", abi.TypeSpec): self.c_isinstance_ts,
            ("contains", Arg): lambda I, cont, x: HASTE(cont.term) if x is pt.TxnField.type_enum else (_ for _ in ()).throw(Unsupported("`in` on an argument")),
            ("getitem", Arg): lambda I, obj, idx: SRef(TYPEENUM(obj.term), EnumEntry) if idx is pt.TxnField.type_enum else (_ for _ in ()).throw(Unsupported("[] on an argument")),
            ("type", EnumEntry): lambda I, ref: (pt.EnumInt if I.ctx.branch(ISENUM(ref.term)) else object),
            Arg.__dict__["address"]: lambda I, a, k: SRef(ADDR(a[0].term), object),
            Arg.__dict__["application_id"]: lambda I, a, k: SRef(APPID(a[0].term), object),
            Arg.__dict__["asset_id"]: lambda I, a, k: SRef(ASSETID(a[0].term), object),
            Arg.__dict__["encode"]: lambda I, a, k: ("entry", K_ENC, a[0].term),
            Arg.__dict__["type_spec"]: lambda I, a, k: SRef(TSPEC(a[0].term), abi.TypeSpec),
        }
        self.var_kinds = {
            (F, "app_args"): self.mk_app_args,
            (F, "txns_to_pass"): lambda ctx, v: self.mk(ctx, "txns"),
            (F, "accts"): lambda ctx, v: self.mk(ctx, "accts"),
            (F, "apps"): lambda ctx, v: self.mk(ctx, "apps"),
            (F, "assets"): lambda ctx, v: self.mk(ctx, "assets"),
        }
        self.loops = {(F, 0): LoopSpec(inv=self.inv, modifies=("app_args", "txns_to_pass", "accts", "apps", "assets"))}

    # ---- ghosts / callees ----------------------------------------------------------------------------------------------------
    def mk(self, ctx, name):
        g = GList(name)
        ctx.ghost[name] = g
        return g

    def mk_app_args(self, ctx, v):
        if not (isinstance(v, list) and len(v) == 1 and v[0] == ("entry", K_SEL, z3.IntVal(0))):
            raise Unsupported("app_args does not start as [MethodSignature(method_signature)]")
        g = GList("app_args")
        g.K = z3.Store(g.K, 0, z3.IntVal(K_SEL))
        g.length = z3.IntVal(1)
        ctx.ghost["app_args"] = g
        return g

    def c_sig(self, I, a, k):
        if a[0] is not I.ctx.ghost["sig"]:
            raise Unsupported("type_specs_from_signature of another string")
        return (I.ctx.ghost["specs"], None)

    def c_require(self, I, a, k):
        if I.ctx.branch(z3.Bool(fresh_name("type_mismatch"))):
            raise RaiseSignal(self.pt.TealTypeError, None)
        return None

    def c_u8(self, I, a, k):
        n = a[1]
        if I.ctx.branch(z3.Or(n < 0, n > 255)):
            raise RaiseSignal(self.ABIEncodingError, None)
        return ("u8", n)

    def c_bytes(self, I, a, k):
        if len(a) == 1 and isinstance(a[0], tuple) and a[0][0] == "u8":
            return ("entry", K_IDX, a[0][1])
        raise Unsupported("Bytes(...) of something else")

    def c_isinstance_arg(self, I, v, classes):
        pt, abi = self.pt, self.abi
        k = ARGK(v.term)
        table = {pt.Expr: k == 1, dict: k == 2, abi.Account: k == 3, abi.Application: k == 4, abi.Asset: k == 5,
                 abi.BaseType: z3.Or(k == 3, k == 4, k == 5, k == 6)}
        if len(classes) == 1 and classes[0] in table:
            return table[classes[0]]
        raise Unsupported(f"isinstance(arg, {classes})")

    def c_isinstance_ts(self, I, v, classes):
        if len(classes) == 1 and classes[0] in self.ts_code:
            return TSK(v.term) == self.ts_code[classes[0]]
        raise Unsupported(f"isinstance(type spec, {classes})")

    def eq_ts(self, I, x, y):
        if isinstance(y, SRef):
            raise Unsupported("== between two abstract type specs")
        if type(y) in self.ts_code:
            return TSK(x.term) == self.ts_code[type(y)]
        raise Unsupported(f"type spec == {y!r}")

    # ---- entry -------------------------------------------------------------------------------------------------------------------
    def setup(self, ctx, I):
        pt, abi = self.pt, self.abi
        I.engine.eq_handlers[abi.TypeSpec] = self.eq_ts
        specs = stamp(SList(REF(abi.TypeSpec), name="arg_type_specs"))
        args = stamp(SList(REF(Arg), name="args"))
        specs.frozen = args.frozen = True
        ctx.assume(z3.And(specs.length >= 0, args.length >= 0))
        j = z3.Int("js!")
        ctx.assume(z3.ForAll([j], z3.And(z3.Select(specs.arr, j) >= 0, z3.Select(args.arr, j) >= 0, TSK(z3.Select(specs.arr, j)) >= 0)))
        sig = SRef(z3.Int("method_signature"), str)
        app_id = SRef(z3.Int("app_id"), pt.Expr) if ctx.branch(z3.Bool("with_app_id")) else None
        extra = SRef(z3.Int("extra_fields"), dict) if ctx.branch(z3.Bool("with_extra")) else None
        for f in (NT, AC, PC, SC, TC):
            ctx.assume(f(0) == 0)
        for o in (sig, app_id, extra):
            if o is not None:
                ctx.assume(o.term >= 0)        # a real object, not None
        ctx.ghost.update(specs=specs, args=args, sig=sig, app_id=app_id, extra=extra)
        return {"args": [pt.InnerTxnBuilder], "kwargs": {"app_id": app_id, "method_signature": sig, "args": args, "extra_fields": extra}}

    def kind(self, ctx, j):
        return TSK(z3.Select(ctx.ghost["specs"].arr, j))

    def unfold(self, ctx, j):
        k = self.kind(ctx, j)
        istxn = self.istxn(k)
        one = lambda c: z3.If(c, 1, 0)
        return [NT(j + 1) == NT(j) + one(z3.Not(istxn)), TC(j + 1) == TC(j) + one(istxn), AC(j + 1) == AC(j) + one(k == ACCOUNT),
                PC(j + 1) == PC(j) + one(k == APPL), SC(j + 1) == SC(j) + one(k == ASSET),
                NT(j) >= 0, TC(j) >= 0, AC(j) >= 0, PC(j) >= 0, SC(j) >= 0]

    def istxn(self, k):
        return z3.And(k >= 10, k < 10 + len(self.abi.TransactionTypeSpecs))

    def corr(self, ctx, j):
        """what the lists hold for parameter j"""
        g = ctx.ghost
        a = z3.Select(g["args"].arr, j)
        k = self.kind(ctx, j)
        AA, TX, ACC, APP, AST = g["app_args"], g["txns"], g["accts"], g["apps"], g["assets"]
        p = 1 + NT(j)
        ak, av = z3.Select(AA.K, p), z3.Select(AA.V, p)
        isabi = lambda code: ARGK(a) == code
        return z3.If(self.istxn(k), z3.Select(TX.V, TC(j)) == a,
               z3.If(k == ACCOUNT, z3.And(z3.Select(ACC.V, AC(j)) == z3.If(isabi(3), ADDR(a), a), ak == K_IDX, av == AC(j) + 1),
               z3.If(k == APPL, z3.And(z3.Select(APP.V, PC(j)) == z3.If(isabi(4), APPID(a), a), ak == K_IDX, av == PC(j) + 1),
               z3.If(k == ASSET, z3.And(z3.Select(AST.V, SC(j)) == z3.If(isabi(5), ASSETID(a), a), ak == K_IDX, av == SC(j)),
                     z3.And(av == a, ak == z3.If(ARGK(a) == 1, K_RAW, K_ENC))))))

    def inv(self, ctx, env, it):
        g = ctx.ghost
        k = it.k
        if it.phase == "iter":
            for f in self.unfold(ctx, k):
                ctx.assume(f)
        if it.phase == "preserved":
            for f in self.unfold(ctx, k - 1):
                ctx.assume(f)
        j = z3.Int("jm!")
        return [("list-lengths-are-the-counts", z3.And(g["app_args"].length == 1 + NT(k), g["txns"].length == TC(k), g["accts"].length == AC(k),
                                                        g["apps"].length == PC(k), g["assets"].length == SC(k))),
                ("counts-non-negative", z3.And(NT(k) >= 0, TC(k) >= 0, AC(k) >= 0, PC(k) >= 0, SC(k) >= 0)),
                ("selector-first", z3.Select(g["app_args"].K, 0) == K_SEL),
                ("counts-monotone", z3.ForAll([j], z3.Implies(z3.And(j >= 0, j < k), z3.And(NT(j) >= 0, NT(j) < NT(k) + 1, TC(j) >= 0, TC(j) <= TC(k), AC(j) >= 0, AC(j) <= AC(k),
                                                                                         PC(j) >= 0, PC(j) <= PC(k), SC(j) >= 0, SC(j) <= SC(k),
                                                                                         z3.Implies(z3.Not(self.istxn(self.kind(ctx, j))), NT(j) < NT(k)), z3.Implies(self.istxn(self.kind(ctx, j)), TC(j) < TC(k)),
                                                                                         z3.Implies(self.kind(ctx, j) == ACCOUNT, AC(j) < AC(k)), z3.Implies(self.kind(ctx, j) == APPL, PC(j) < PC(k)),
                                                                                         z3.Implies(self.kind(ctx, j) == ASSET, SC(j) < SC(k)))))),
                ("parameters-so-far-marshalled", z3.ForAll([j], z3.Implies(z3.And(j >= 0, j < k), self.corr(ctx, j))))]

    # ---- postcondition ---------------------------------------------------------------------------------------------------------------
    def post(self, ctx, I, outcome, st):
        if outcome[0] != "return":
            return
        pt = self.pt
        g = ctx.ghost
        r = outcome[1]
        n = g["specs"].length
        if not (isinstance(r, tuple) and r[0] == "seq"):
            raise Unsupported("result is not a Seq")
        parts = r[1]
        ok = bool(parts) and isinstance(parts[0], _StarArgs) and isinstance(parts[0].value, SymComp)
        if ok:
            sc = parts[0].value
            ok = ast.unparse(sc.node.elt) == "Seq(ttp, InnerTxnBuilder.Next())" and sc.I.eval(sc.gen.iter, sc.fr) is g["txns"]
        ctx.oblige("result/transactions-first-each-followed-by-next", z3.BoolVal(bool(ok)))
        rest = parts[1:]
        import os
        if os.environ.get("C14_DEBUG"):
            print("PARTS", [(p if not isinstance(p, tuple) else p[:2]) for p in parts], g["app_id"])
        want = [("setfield", pt.TxnField.type_enum, pt.TxnType.ApplicationCall)]
        shape_ok = len(rest) >= 3 and rest[0] == want[0]
        ctx.oblige("result/type-enum-is-application-call-first", z3.BoolVal(bool(shape_ok)))
        if not shape_ok:
            return
        i = 1
        if g["app_id"] is not None:
            if os.environ.get("C14_DEBUG"):
                print("APPID", rest[i][:2] == ("setfield", pt.TxnField.application_id), rest[i][2] is g["app_id"], rest[i][2], g["app_id"])
            ctx.oblige("result/application-id-second", z3.BoolVal(rest[i][:2] == ("setfield", pt.TxnField.application_id) and rest[i][2] is g["app_id"]))
            i += 1
        present = {}
        for fld, lst in ((pt.TxnField.accounts, g["accts"]), (pt.TxnField.applications, g["apps"]), (pt.TxnField.assets, g["assets"])):
            if i < len(rest) and rest[i][0] == "setfield" and rest[i][1] is fld:
                present[fld] = rest[i][2] is lst
                ctx.oblige(f"result/{fld.arg_name}-is-the-collected-list-and-non-empty", z3.And(z3.BoolVal(bool(present[fld])), lst.length > 0))
                i += 1
            else:
                ctx.oblige(f"result/{fld.arg_name}-omitted-only-when-empty", lst.length == 0)
        last_ok = i + 2 == len(rest) and rest[i][:2] == ("setfield", pt.TxnField.application_args) and rest[i][2] is g["app_args"] and rest[i + 1][0] == "setfields"
        ctx.oblige("result/application-args-then-extra-fields-last", z3.BoolVal(bool(last_ok)))
        if last_ok:
            ex = rest[i + 1][1]
            ctx.oblige("result/extra-fields-passed-through", z3.BoolVal((ex is g["extra"]) if g["extra"] is not None else (ex == {})))
        j = z3.Int("jp!")
        ctx.oblige("post/argument-count-matches-signature", g["args"].length == n)
        ctx.oblige("post/list-lengths", z3.And(g["app_args"].length == 1 + NT(n), g["txns"].length == TC(n), g["accts"].length == AC(n), g["apps"].length == PC(n), g["assets"].length == SC(n)))
        ctx.oblige("post/selector-first", z3.Select(g["app_args"].K, 0) == K_SEL)
        ctx.oblige("post/every-parameter-marshalled-per-arc4", z3.ForAll([j], z3.Implies(z3.And(j >= 0, j < n), self.corr(ctx, j))))
