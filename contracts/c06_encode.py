"""Contract for pyteal.ast.abi.tuple._encode_tuple, integer layer (property C06, obligation O6.16):
the head length computed by the first loop - which becomes the offset stored for the first dynamic element -
equals the ARC-4 head length of the element types (position function with 2-byte heads for dynamic elements).
The Expr layer (Concat / Seq / tail accumulation) is abstracted: constructors of expression nodes return opaque objects."""
from __future__ import annotations

import z3

from pyvc.values import *  # noqa
from pyvc.engine import LoopSpec, Unsupported
from pyvc.verifier import Contract, stamp
from contracts.c06_layout import Pos, isB, isDyn, blen, ceil8, consecutive_contract

I_ = z3.IntSort()
TSOF = z3.Function("typeSpecOf", I_, I_)
F = "_encode_tuple"


class Opaque:
    """An expression / ABI value the integer layer does not look into; records the calls made on it."""

    def __init__(self, tag, log):
        self.tag, self.log = tag, log

    def pyvc_method(self, I, name, args, kwargs, node):
        self.log.append((self.tag, name, list(args)))
        return Opaque(f"{self.tag}.{name}()", self.log)

    def pyvc_bool(self):
        return True

    def _bin(self, other):
        return Opaque(f"({self.tag} op ...)", self.log)

    __add__ = __radd__ = __sub__ = __mul__ = __lt__ = __gt__ = __le__ = __ge__ = _bin


class Heads:
    """heads: list of head expressions; only its length matters here."""
    pyvc_mut_ok = False

    def __init__(self, ctx):
        self.n = z3.IntVal(0)

    def pyvc_havoc(self, ctx):
        self.n = ctx.fresh_int("nheads")
        ctx.assume(self.n >= 0)

    def pyvc_len(self):
        return self.n

    def pyvc_method(self, I, name, args, kwargs, node):
        if name == "append":
            self.n = self.n + 1
            I.ctx.note_mut(self)
            return None
        raise Unsupported(f"heads.{name}")

    def pyvc_store(self, I, idx, v):
        I.ctx.oblige("heads/placeholder-index-in-range", z3.And(unwrap(idx) >= 0, unwrap(idx) < self.n))
        I.ctx.note_mut(self)

    def pyvc_star(self):
        return [Opaque("head", [])]


class EncodeTuple(Contract):
    target = "pyteal.ast.abi.tuple._encode_tuple"

    def __init__(self):
        from pyteal.ast.abi import tuple as T, bool as B, type as TY, uint as U
        from pyteal.ast.abi.type import BaseType, TypeSpec
        import pyteal as pt
        self.T, self.B, self.BaseType, self.TypeSpec = T, B, BaseType, TypeSpec
        self.raises_only = ()
        self.log = []
        op = lambda tag: (lambda I, args, kwargs: Opaque(tag, I.ctx.ghost["log"]))
        self.callees = {
            BaseType.__dict__["type_spec"]: lambda I, args, kwargs: SRef(TSOF(args[0].term), TypeSpec),
            BaseType.__dict__["encode"]: op("elem.encode"),
            TypeSpec.__dict__["is_dynamic"]: lambda I, args, kwargs: isDyn(args[0].term),
            TypeSpec.__dict__["byte_length_static"]: lambda I, args, kwargs: blen(args[0].term),
            B._consecutive_bool_instance_num: self.c_consecutive,
            B._bool_sequence_length: lambda I, args, kwargs: ceil8(args[0]),
            B._encode_bool_sequence: op("boolseq"),
            B.BoolTypeSpec: lambda I, args, kwargs: "BOOLSPEC",
            T.Uint16: op("Uint16"), T.alloc_abstract_var: op("absvar"),
            T.Seq: op("Seq"), T.Concat: op("Concat"), T.Len: op("Len"), T.Bytes: op("Bytes"),
        }
        self.fields = {}
        self.var_kinds = {(F, "heads"): lambda ctx, v: Heads(ctx),
                          (F, "dynamicValueIndexToHeadIndex"): lambda ctx, v: self.mk_map(ctx)}
        self.loops = {(F, 0): LoopSpec(inv=self.inv0, modifies=("heads", "dynamicValueIndexToHeadIndex")),
                      (F, 1): LoopSpec(inv=self.inv1, havoc=self.havoc1, modifies=("heads",))}

    def mk_map(self, ctx):
        d = stamp(SDict(INT, INT, name="dynIdxToHead"))
        k = z3.Int("km!")
        ctx.assume(z3.ForAll([k], z3.Not(z3.Select(d.has, k))))
        return d

    def c_consecutive(self, I, args, kwargs):
        values, start = args
        return consecutive_contract(I, values, start, lambda t: isB(TSOF(t)))

    def setup(self, ctx, I):
        I.engine.eq_handlers[self.TypeSpec] = lambda I_, x, y: isB(x.term) if y == "BOOLSPEC" else (_ for _ in ()).throw(Unsupported("TypeSpec == other"))
        values = stamp(SList(REF(self.BaseType), name="values"))
        ctx.assume(values.length >= 0)
        j = z3.Int("jv!")
        ctx.assume(z3.ForAll([j], z3.And(z3.Select(values.arr, j) >= 0, blen(TSOF(z3.Select(values.arr, j))) >= 0)))
        t = z3.Int("tb!")
        ctx.assume(z3.ForAll([t], z3.Implies(isB(t), z3.Not(isDyn(t)))))   # BoolTypeSpec.is_dynamic() is False (interface fact, checked under C06 B)
        pos = Pos(values.arr, tag="enc", dyn_heads=True)
        pos.el = lambda i: TSOF(z3.Select(values.arr, i))
        for a in pos.base():
            ctx.assume(a)
        ctx.ghost.update(values=values, pos=pos, log=[])
        return {"args": [values]}

    def inv0(self, ctx, env, it):
        values, pos = ctx.ghost["values"], ctx.ghost["pos"]
        i, n = it.k, values.length
        if it.phase == "preserved":
            for a in pos.unfold(i - 1):
                ctx.assume(a)
        length, g = env["head_length_static"], env["ignoreNext"]
        dmap, heads = env["dynamicValueIndexToHeadIndex"], env["heads"]
        out = [("ignoreNext-non-negative", g >= 0)]
        aligned = z3.And(length == pos.OFF(i), z3.Implies(z3.And(i < n, isB(pos.el(i))), pos.BIT(i) == 0))
        out.append(("aligned-when-not-skipping", z3.Implies(g == 0, aligned)))
        if env.has("numBools") and not isinstance(env["numBools"], int):
            L = env["numBools"]
            p = L - g
            r = i - p
            j = z3.Int("jrun!")
            inrun = z3.And(g <= L - 1, p >= 1, r >= 0, i + g <= n,
                           z3.ForAll([j], z3.Implies(z3.And(j >= i, j < i + g), isB(pos.el(j)))),
                           z3.Or(i + g == n, z3.Not(isB(pos.el(i + g)))),
                           length == pos.OFF(r) + ceil8(L), pos.OFF(i) == pos.OFF(r) + ceil8(p), pos.BIT(i) == p % 8)
            out.append(("inside-bool-run", z3.Implies(g > 0, inrun)))
        else:
            out.append(("inside-bool-run", g == 0))
        k = z3.Int("kd!")
        out.append(("dynamic-elements-have-a-placeholder-head",
                    z3.ForAll([k], z3.Implies(z3.And(k >= 0, k < i - g, isDyn(pos.el(k)), z3.Not(isB(pos.el(k)))),
                                              z3.And(z3.Select(dmap.has, k), z3.Select(dmap.val, k) >= 0, z3.Select(dmap.val, k) < heads.n)))))
        out.append(("heads-non-negative", heads.n >= 0))
        return out

    def havoc1(self, ctx, env, it):
        for nm in ("updateVars", "updateAccumulator", "notLastDynamicValue"):
            if env.has(nm):
                pass

    def inv1(self, ctx, env, it):
        # loop 1 only builds expressions; what is carried: the facts about the placeholder map (unchanged) and the head count
        values, pos = ctx.ghost["values"], ctx.ghost["pos"]
        dmap, heads = env["dynamicValueIndexToHeadIndex"], env["heads"]
        k = z3.Int("kd1!")
        return [("dynamic-elements-have-a-placeholder-head",
                 z3.ForAll([k], z3.Implies(z3.And(k >= 0, k < values.length, isDyn(pos.el(k)), z3.Not(isB(pos.el(k)))),
                                           z3.And(z3.Select(dmap.has, k), z3.Select(dmap.val, k) >= 0, z3.Select(dmap.val, k) < heads.n)))),
                ("head-length-is-the-arc4-head-length", env["head_length_static"] == pos.OFF(values.length))]

    def post(self, ctx, I, outcome, st):
        if outcome[0] != "return":
            return
        values, pos = ctx.ghost["values"], ctx.ghost["pos"]
        # every `tail_offset.set(<python int>)` call recorded by the opaque Uint16 must pass the ARC-4 head length
        sets = [c for c in ctx.ghost["log"] if c[0] == "Uint16" and c[1] == "set" and c[2] and (is_z3(c[2][0]) or isinstance(c[2][0], int))]
        for c in sets:
            ctx.oblige("first-dynamic-offset-is-the-arc4-head-length", unwrap(c[2][0]) == pos.OFF(values.length),
                       detail="offset written for the first dynamic element == total head length (bool packing, 2-byte dynamic heads)")
        ctx.oblige("vacuity/path-reached-return", z3.BoolVal(True))
