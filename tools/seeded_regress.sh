#!/bin/bash
# Development aid (not a registered check): every kept property-breaking change under seeded/ is applied to a scratch worktree of /repo
# and the quick check of its property is run; the expected exit is 1 (violation).  Evidence and replays go outside /verif.
# usage: tools/seeded_regress.sh [scratch-dir] [id-glob]      -> /var/tmp/seeded_regress.txt
S=${1:-/var/tmp/scr_seeded}
G=${2:-*}
mkdir -p $S
[ -d $S/repo ] || git -C /repo worktree add --detach $S/repo HEAD -q
W=$S/repo
git -C $W checkout -q --detach $(git -C /repo rev-parse HEAD)
out=/var/tmp/seeded_regress.txt
: > $out
cd /verif
for d in seeded/$G/; do
  id=$(basename $d)
  prop=${id%%-*}
  git -C $W checkout -q -- . ; git -C $W clean -fdq
  if ! git -C $W apply /verif/$d/patch.diff 2>/dev/null; then echo "$id patch-does-not-apply" >> $out; continue; fi
  VERIF_EVIDENCE_DIR=$S/ev VERIF_REPO=$W ./check $prop --tier quick > $S/$id.log 2>&1; rc=$?
  echo "$id $prop rc=$rc $(grep -m1 -E '^  what:|^UNDECIDED|^CRASH' $S/$id.log | cut -c1-200)" >> $out
done
git -C $W checkout -q -- . ; git -C $W clean -fdq
echo DONE >> $out
