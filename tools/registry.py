ENGINES = [
    {"name": "fragcheck", "path": "/verif/fragcheck", "serves_properties": ["C01", "C05", "C18"],
     "kind_free_text": "fragment contracts of Expr.__teal__: real method executed on opaque child proxies, symbolic execution of the returned block graph against the documented meaning (z3, uninterpreted child semantics, cut-point simulation for loops)"},
    {"name": "pyvc", "path": "/verif/pyvc", "serves_properties": ["C02", "C03", "C04", "C06", "C07", "C10", "C13", "C16"],
     "kind_free_text": "symbolic executor of a Python subset over the real source (ast re-read on every run) with sidecar contracts, loop invariants, callee contracts; VCs discharged by z3 (cvc5 for unknowns)"},
]
NOTES = "Obligation kinds P/E/F are counted as proved; B (bounded stand-ins) are labelled and never counted. See DESIGN.md."
NOT_APPLICABLE = {}
CHECKS = {'C10': {'level': 'other',
         'engine': 'pyvc',
         'technique': 'contract on ScratchSlot.__init__ and region contract on assignScratchSlotsToSubroutines (pyvc/z3: duplicate requested ids rejected, numbering injective and below 256 - '
                      'pigeonhole step checked in Lean) + limit probes + access-path enumeration + bounded stand-in with up to 300 live variables on the spec AVM',
         'text': 'ScratchSlot.__init__ is proved to keep a requested id in [0,256) and flag it reserved, reject other ids, and hand out automatic ids >= 256 from a strictly increasing counter. The '
                 'slot assignment is proved, for every finite set of slots, to reject duplicate requested ids and more than 256 slots and to number the others injectively inside [0,256) around the '
                 'requested ids. Programs with 1..300 simultaneously live variables and every access path (direct, dynamic, by reference, forwarded by reference, dynamic by reference) must keep '
                 'every value, use the requested slots, and be rejected beyond the limits (bounded). Bounded additions: full slot occupancy (requested + automatic slots around 256, all 256 ids '
                 'requested), duplicate requested ids for every placement of the two variables over routines.',
         'note': 'the write-back loop of assignScratchSlotsToSubroutines and collectScratchSlots are bounded only; lemmas/Pigeonhole.lean is re-checked on every run.',
         'design_ref': 'DESIGN.md 5/C10'},
 'C11': {'level': 'other',
         'engine': 'pyvc',
         'technique': "region contract on the slot numbering of assignScratchSlotsToSubroutines (pyvc: the numbering is a function of the slots' (id, reserved) pairs, not of set iteration order) + "
                      'syntactic frame audit of every set iteration on the compile path (allow-list with reasons) + bounded stand-in: digests of compiled TEAL compared across fresh processes, hash '
                      'seeds, histories of successful and failing API activity, order and repetition',
         'text': 'Proved: the scratch-slot numbering fills the gaps left by requested ids in ascending id order, for every finite set of slots. Audited: every iteration over a set on the compile '
                 'path is either ordered by sorted() or classified order-insensitive with a stated reason. Bounded: the same sources (generated programs, an ABI subroutine program, routers incl. one '
                 'whose first compilation fails) are compiled in separate processes under different PYTHONHASHSEED values, after successful / failing / mixed unrelated activity, in reversed order, '
                 'and twice in one process (same object and rebuilt source); all digests must be equal. Bounded additions: a type_of / has_return query between two compilations of the same object; '
                 'one OptimizeOptions object serving two unrelated programs; sibling subroutines across the 9/10 counter boundary.',
         'note': 'no reads-frame / restore-on-all-exits contracts for class-level state (ScratchSlot.nextSlotId, SubroutineDefinition.nextSubroutineId, memoised declarations): history independence '
                 'is bounded only. Known finding: repeated Router.compile_program renumbers slots.',
         'design_ref': 'DESIGN.md 5/C11, 10.3'},
 'C12': {'level': 'other',
         'engine': 'pyvc',
         'technique': 'contract on the real createConstantBlocks (pyvc VCs: every emitted load site denotes the value of the op it replaces, indices address the emitted block, no exception; z3/cvc5) '
                      'with a Lean-checked side lemma for the byte-block prefix + bounded stand-ins: independent TEAL literal decoder on every constant-load site of generated programs, many-constant '
                      'programs, differential execution on the spec AVM',
         'text': 'Proved for every component list: createConstantBlocks emits the int block then the byte block, then exactly one component per input component; a constant load becomes '
                 'pushint/pushbytes of the value extract*Value returns, or intc/bytec whose index is inside the emitted block (<= 256 entries) and whose entry equals that value (in its 0x-hex / '
                 'template-name text for bytes); everything else is passed through unchanged; no KeyError / ValueError / IndexError on any path. Bounded: the literal decoding itself (every '
                 'byte-literal syntax, enums, templates) against an independent decoder, and run-time equality of the two programs on generated and many-constant programs. Bounded additions: all 13 '
                 'named integer constants, literals whose texts coincide across kinds, template constants next to literals.',
         'note': 'the extract*Value functions are trusted callee summaries in the proof (their decoding is the bounded part); sorted() and the two comprehensions are summarised under a syntactic '
                 "guard; the frequency rule ('top four or >= 128') is not part of the property and is not specified.",
         'design_ref': 'DESIGN.md 5/C12, 10.3'},
 'C15': {'level': 'other',
         'engine': 'pyvc',
         'technique': 'contracts on the real _base64vlq_encode / _base64vlq_decode (pyvc VCs over unbounded integers, z3/cvc5) against the Revision-3 VLQ definition and a region contract on the '
                      'delta bookkeeping of R3SourceMap.to_json (every emitted segment decodes, under the specified decoder state machine, to its entry) + bounded stand-ins: source-map compilation '
                      'of generated programs (TEAL identity, one entry per line, R3 JSON round trip via an independent decoder, annotated TEAL), one attribution scenario',
         'text': 'Proved for every tuple of integers (any sign, any magnitude, any count): the sextets _base64vlq_encode hands to the base64 alphabet are the canonical Base64-VLQ of the values, and '
                 '_base64vlq_decode returns exactly the values from any canonical text, so decode(encode(vs)) == vs; the two alphabet tables are inverse (64 cases); for every map, each segment '
                 "to_json hands to the encoder decodes to its entry's generated column, source index, source line, source column and name index. Bounded: for generated programs the TEAL with a "
                 'source map equals the TEAL without; the map has one entry per line in order pointing at existing file lines; the Revision-3 JSON decodes (real decoder and an independent one) to '
                 'the same associations; annotated TEAL minus comments equals the plain TEAL; constants written on known lines of a generated module are attributed to those lines. Bounded additions: '
                 'Router.compile with / without source maps, repeated literals with assembled constants, named constants that are the first thing their statement pushes.',
         'note': 'from_json, the string plumbing of the JSON, frame selection (CPython frame introspection) and annotation are bounded stand-ins only; identity of TEAL with/without the map is '
                 'asserted by the compiler itself and re-checked here on generated programs.',
         'design_ref': 'DESIGN.md 5/C15, 10.3'},
 'C17': {'level': 'other',
         'engine': 'pyvc',
         'technique': 'closure contract on the real TealBlock.validateSlots (pyvc VCs over arbitrary block graphs / slot sets, recursive call against the same contract, z3/cvc5) + bounded stand-in: '
                      'exhaustive small-scope enumeration of statement shapes through compileTeal against an independent path analysis',
         'text': 'Proved for every block graph: a call of validateSlots returns errors naming every load that is bad in its own state, puts every successor state into the visited set, and every '
                 'state it adds to the visited set is itself explored (its bad loads reported, its successors visited); with the induction on path length (meta-lemma M17) the root call therefore '
                 'reports every load reachable along a syntactic path without a prior store. Bounded: every statement shape of nesting depth <= 2 over store / load / If / If-Else / Seq / While / '
                 'Cond / Break / Continue / Return is compiled and must be rejected, with an error naming the offending load, exactly when an independent analysis finds such a path. The contract '
                 "includes a frame clause (the caller's slot set is not modified); bounded additions: arms that store and leave the routine, a variable whose index is taken, optimiser-interplay "
                 'shapes.',
         'note': "termination of the recursion and the caller's 'raise if non-empty' step are not under contract (the latter is exercised by the bounded stand-in); M17 is a three-line induction "
                 'stated in DESIGN.md, not mechanised.',
         'design_ref': 'DESIGN.md 5/C17, 10.3'},
 'C13': {'level': 'other',
         'engine': 'enumeration',
         'technique': 'exhaustive enumeration of escapeStr over every Unicode code point against an independent TEAL string-literal parser; contract on Int.__init__ (pyvc/z3); bounded stand-in for '
                      'concatenations and the other literal syntaxes on the spec AVM',
         'text': 'For each code point the literal produced by escapeStr parses back (independent TEAL grammar) to exactly its UTF-8 bytes, is printable ASCII and stays one token even when followed '
                 'by a comment. Int.__init__ is proved to accept exactly the integers in [0, 2^64) and to store them. Strings over an adversarial alphabet, raw bytes, base16/32/64 forms, malformed '
                 'literals, addresses and method signatures are compiled and executed on the spec AVM (bounded). Also: non-ASCII method signatures hashed verbatim; Int accepts exactly python ints '
                 '(contract).',
         'note': 'trusted: TEAL literal grammar of spec/avm.py, python base64/hashlib, algosdk address codec; codec homomorphism assumed (bounded-validated).',
         'design_ref': 'DESIGN.md 5/C13'},
 'C18': {'level': 'other',
         'engine': 'fragcheck',
         'technique': 'fragment contracts for Comment / Nonce / Pragma / Assert(comment) (fragcheck, z3) + bounded stand-ins: generated programs compiled with and without adversarial annotations, '
                      'direct annotation probes v2..10, annotation placement around a store/load pair the slot optimiser removes',
         'text': "Each annotation construct is proved (on opaque children, all run-time states) to have exactly its child's meaning (Nonce: plus the documented push-and-pop); a comment text with a "
                 'line break must not become code. At text level, generated programs annotated at random statement positions and with adversarial subroutine names, one-construct probes (5 constructs '
                 'x adversarial texts x versions 2..10) and an annotation at every position relative to a removable store/load pair (7 positions x 3 forms x 5 settings) must give the same '
                 'instruction stream as the un-annotated program once comment lines are dropped and labels renamed canonically (bounded).',
         'note': 'trusted: spec terms, TEAL line grammar of spec/avm.py. Known finding (a comment between store s / load s hides the pair from the optimiser) is recognised only when that hidden pair '
                 'explains the whole difference.',
         'design_ref': 'DESIGN.md 5/C18'},
 'C08': {'level': 'other',
         'engine': 'exprsym',
         'technique': 'run-time guards built by the real MethodConfig.approval_cond / CallConfig code for all 4 + 4^5 configurations (exhaustive), each proved by z3 over symbolic uint64 OnCompletion '
                      '/ ApplicationID against the registration semantics; bounded stand-in for whole routers on the spec AVM (generated and directed registrations)',
         'text': 'For every CallConfig and every one of the 1024 MethodConfigs the guard expression returned by the real code is proved non-zero exactly on the allowed (OnCompletion, create / '
                 'non-create) pairs for all inputs. Dispatch of whole routers - generated, plus directed registrations (uniform ALL/CALL/CREATE, the default MethodConfig, each single OnCompletion x '
                 "CallConfig, uniform bare actions, handlers registered under another name than the function's via overriding_name / Router.method(name=)) - is checked on the spec AVM for all calls "
                 "incl. unknown, short and the function's own unregistered selector, the clear-state program and the contract description (bounded).",
         'note': 'trusted: spec/exprsym.py operator meanings, registration semantics as written in the check, sha512/256. approval_construction / to_cond_node / program_construction have no own '
                 'contract (bounded only).',
         'design_ref': 'DESIGN.md 5/C08'},
 'C09': {'level': 'other',
         'engine': 'enumeration',
         'technique': 'enumeration over arities: the real argument-decoding glue of routed methods is executed for every arity in a range on opaque ABI values and its instruction list compared '
                      'structurally with the ARC-4 calling convention (E, exhaustive within the range) + bounded stand-ins: generated method signatures routed and called with ARC-4 encoded arguments '
                      'on the spec AVM, registration histories against the returned contract description',
         'text': 'For 0..24 (quick) / 0..40 (thorough) plain arguments x 0..4 transaction arguments x with / without a result x scratch / frame-pointer flavour, for all argument values: plain '
                 'argument i is decoded from ApplicationArgs[i+1]; with more than 15, arguments 15.. come from one tuple in ApplicationArgs[15], de-tupled in order; transaction argument j of t is '
                 'the group transaction at GroupIndex - (t - j), its type enforced unless generic. Bounded: generated signatures (0..20 parameters, all kinds) executed with real encoded arguments '
                 '(binding, reference indices, result logged once as 0x151f7c75 ++ encoding before approve); registration histories (plain / overriding name / decorator / described / refused) '
                 'against the contract JSON and the selectors the program dispatches on. E: the decode glue of the real __decode_constructions_and_args for every arity; bounded: registration '
                 'histories, references inside the packed tail, repeated transaction types.',
         'note': 'no pyvc contract: the glue builds lists by comprehensions over ABI value objects; the arity enumeration is exhaustive only within its stated bound.',
         'design_ref': 'DESIGN.md 5/C09, 10.4'},
 'C14': {'level': 'other',
         'engine': 'pyvc',
         'technique': 'contract on the real InnerTxnBuilder.MethodCall (pyvc VCs over arbitrary signatures / argument lists incl. its `match` dispatch; z3/cvc5) + rejection probes (enumeration) + '
                      'bounded stand-in: generated signatures compiled and executed on the spec AVM, inner group decoded as an ARC-4 callee would',
         'text': 'Proved for every signature and argument list: MethodCall returns Seq(transaction arguments in order each followed by itxn_next; type_enum = appl; [application_id]; [accounts]; '
                 '[applications]; [assets]; application_args; extra fields), the reference arguments are appended to their foreign array in order and passed as the one-byte index ARC-4 prescribes '
                 '(accounts and applications position + 1, assets position), plain arguments follow the selector of the given signature in order (an Expr as is, an ABI value as its encoding); only '
                 "TealInputError / TealTypeError (or algosdk's encoding error beyond 255 references) are raised. Bounded: generated signatures incl. repeated reference kinds and caller-supplied "
                 'foreign arrays executed on the spec AVM; type rejections probed. Known finding: no tuple packing beyond 15 arguments. Bounded additions: reference values (abi.Account / Asset / '
                 'Application) forwarded to the inner call, caller-supplied foreign arrays, signature spellings; E: a raw uint64 expression is refused for every plain parameter type.',
         'note': 'the constructors (SetField, Seq, Bytes, MethodSignature, uint8 encode) and the type-spec queries are callee summaries; run-time behaviour is bounded only.',
         'design_ref': 'DESIGN.md 5/C14, 10.3'},
 'C19': {'level': 'other',
         'engine': 'enumeration',
         'technique': 'exhaustive enumeration over a bounded universe of ABI type terms against an independent layout erasure (and the reference codec on values): type_spec_is_assignable_to on all '
                      'ordered pairs, the set() of every value class on all ordered pairs, all routes to a TypeSpec; call-site rejection sampled',
         'text': 'For every ordered pair (a, b) of a universe of ~200 (quick) type terms - leaves, arrays, tuples, named tuples, nested, reference and transaction types - '
                 'type_spec_is_assignable_to(a, b) implies that a and b have the same ARC-4 layout (or b is the generic transaction type), and sampled values of a encode to the same bytes under b; '
                 'b.new_instance().set(a value) is rejected unless the layouts agree; the TypeSpec obtained from the type string, a method signature, the algosdk type object, the annotation and '
                 'new_instance() is the same type. Not a structural-induction proof: exhaustive only within the universe.',
         'note': 'bounded universe; trusted: algosdk type parser / codec and the erasure; Tuple.set takes elements and is not a whole-value assignment.',
         'design_ref': 'DESIGN.md 5/C19'},
 'C06': {'level': 'other',
         'engine': 'pyvc',
         'technique': "contracts on the ARC-4 layout arithmetic, on _encode_tuple's first loop (pyvc loop invariants against an independent element-by-element position function, z3) and on the "
                      'scalar codec helpers uint_set / uint_encode / Bool.set / Bool.encode and a semantic loop contract on _encode_bool_sequence (pyvc, every width x symbolic value; counterexamples '
                      'replayed on the real functions / spec AVM) + bounded stand-in against the reference codec algosdk.abi (shapes, layout classes, copy matrix, length-prefix boundaries)',
         'text': '_bool_sequence_length, _consecutive_thing_num, _bool_aware_static_byte_length and the head-position bookkeeping of _encode_tuple are proved for every type sequence against the '
                 'ARC-4 position function (bool packing included). Type strings, dynamic-ness, static lengths and the bytes produced by set()/encode() are compared with algosdk.abi for generated and '
                 'layout-class shapes with boundary-biased values at versions 5..10, in the main routine and inside subroutines; X.set(another ABI value) for all ordered pairs of 14 types; every '
                 'route by which a dynamic value gets its uint16 length prefix at lengths around 255/256 ... 4000 (bounded). Proved for every supported width and every value: uint_set accepts a '
                 'Python int iff it lies in [0, 2^N) (using the proved contract of Int) and then stores exactly that constant; for an expression value of width < 64 the store is followed by '
                 'Assert(load < Int(2^N)), for 64 bits by nothing; uint_encode is the last N/8 bytes of itob(value) (setbyte into one zero byte for N = 8); Uint.set / Uint.encode call the helpers '
                 "with the value's own width and variable (linking contracts); Bool.set stores Int(1/0) for a Python bool and Not(Not(e)) for an expression; Bool.encode is setbit(0x00, 0, value); "
                 '_encode_bool_sequence denotes, for every number n of bools, ceil(n/8) bytes whose bit j is value j (later bits 0), every setbit index inside the string. The same cases remain in '
                 'the bounded stand-in end to end.',
         'note': "trusted: algosdk.abi, the position-function spec, TypeSpec interface contracts for element types. The Expr layer of _encode_tuple's second loop is bounded only; the scalar codec "
                 "contracts summarise the Expr constructors (Int, Seq, Assert, Itob, Suffix, SetByte, <) as constructor terms whose AVM meaning is the fragment catalogue's (C01). "
                 '_encode_bool_sequence assumes len(values) <= sys.maxsize and takes Bytes / SetBit / Int by their AVM meaning (spec functions bitsOf / byteLenOf).',
         'design_ref': 'DESIGN.md 5/C06'},
 'C07': {'level': 'other',
         'engine': 'pyvc',
         'technique': 'contract on the real _index_tuple against the ARC-4 position function (pyvc VCs over arbitrary type sequences and indices, z3/cvc5; callee contracts of the layout helpers '
                      'shared with C06) and on the scalar decoders uint_decode and Bool.decode (every width x every combination of optional start / end / length) + bounded stand-in: decode / element '
                      'access on generated shapes, values and positions against algosdk.abi on the spec AVM',
         'text': 'Proved for every sequence of element types and every index: _index_tuple raises ValueError exactly for an out-of-range index and TypeError exactly for a mismatching output type, '
                 "and otherwise returns decode_bit at the element's ARC-4 bit position (bool), a decode between the uint16 head at the element's head offset and the head of the first following "
                 'dynamic element (dynamic; open-ended iff none follows), or a decode of the window [offset, offset + static length) (static; the abbreviated forms only where they denote that '
                 "window). Uint.decode hands its own width, variable and the caller's indices to uint_decode (linking contract); Bool.decode is proved to store getbit(encoded, 8 * start) (start = 0 "
                 'when absent); uint_decode is proved to store the big-endian read of exactly N/8 bytes (getbyte / extract_uint16/32/64) at the given start index, at 0 when none is given, and btoi '
                 'of the whole string only for 64 bits without any index. Bounded: for generated type shapes and values every tuple / array position (constant and computed index), get(), length() '
                 'and the decode-encode round trip are compared with the reference encoding of the component; out-of-range indices must fail. Three classes of non-failing out-of-range array accesses '
                 'are known findings. Bounded additions: named-tuple fields read by name while several named-tuple types that reuse field names at other positions are alive.',
         'note': 'array element access (ArrayElement, computed indices), the byte-string scalar decoders and the Expr constructors are bounded only; the contract treats '
                 'decode()/decode_bit()/ExtractUint16/Int as pure record constructors.',
         'design_ref': 'DESIGN.md 5/C07, 10.3'},
 'C04': {'level': 'other',
         'engine': 'pyvc',
         'technique': 'contracts on verifyOpsForVersion / verifyOpsForMode / verifyProgramVersion (pyvc loop invariants, z3) + exhaustive table comparison of Op / TxnField / GlobalField with an '
                      'independent langspec + bounded structural validation of emitted TEAL',
         'text': "The version and mode gates are proved for every component list: compilation passes them iff every op exists at the version and in the mode. Every row of pyteal's opcode, "
                 'transaction-field and global-field tables equals the independently written AVM table (name, first version, modes, type, array-ness). Pragma, label uniqueness, defined targets, '
                 'placeholders, terminators and immediate ranges are validated on the emitted text of generated programs and hand-written probes (bounded). Bounded additions: immediate-boundary '
                 'probes for 21 constructs, routine-ending shapes, text legality with 255..300 repeated constants.',
         'note': 'trusted: spec/langspec.py (hand-written from the AVM spec), spec/tealcheck.py. flattenBlocks / resolveSubroutines label contracts not yet discharged deductively.',
         'design_ref': 'DESIGN.md 5/C04'},
 'C03': {'level': 'other',
         'engine': 'pyvc',
         'technique': 'contracts (pyvc, z3/cvc5) on the option-default functions, on _has_load_dependencies, on _apply_slot_to_stack (every block / routine / skip set: what is handed to the removal '
                      'function) on _remove_extraneous_slot_access (what is removed from every block) and on collect_unoptimized_slots (what is exempt); version-parametric fragment contracts (C01); '
                      "bounded stand-ins: every option pair x versions on generated programs against the description's meaning, slot-kind x placement x observer scenarios, ABI subroutines and mutual "
                      '/ self recursion of every routine-kind pair under every setting',
         'text': 'Proved: OptimizeOptions.optimize_scratch_slots / use_frame_pointers follow the documented defaults (v9 / v8) and honour / reject explicit requests; _has_load_dependencies is True '
                 'iff another load of the slot exists; every slot _apply_slot_to_stack hands to _remove_extraneous_slot_access is not skipped, has `store s` immediately followed by `load s` in the '
                 "current block and no other load in the routine; _remove_extraneous_slot_access replaces each block's ops by the filter of its own ops under a predicate that drops exactly the store "
                 '/ load ops of the slots to be removed. collect_unoptimized_slots returns a set containing every slot an `int` op mentions, every reserved slot and every global slot, for any number '
                 'of routines / blocks / ops. The clause the property needs on top - the slot is stored nowhere else - is refuted: the recorded finding O3.4, recognised only when it is the sole '
                 'failing clause and attributed exactly in the bounded part (the mismatch disappears when the multiply-stored slots are withheld). Whole-program independence of (scratch_slots, '
                 'frame_pointers, version) is a bounded stand-in.',
         'note': 'apply_global_optimizations (fix-point iteration) is not under contract; whole-program part bounded (labelled). Known finding O3.4 is reported as KNOWN-FINDING.',
         'design_ref': 'DESIGN.md 5/C03'},
 'C05': {'level': 'other',
         'engine': 'fragcheck',
         'technique': 'fragment contracts (stack delta / type_of / has_return clauses, z3) + exhaustive tables (type lattice, operator signatures vs langspec, every public constructor x '
                      '{uint64,bytes}^k type vectors) + bounded abstract interpretation of emitted TEAL (spec/tealcheck, self-checked at import)',
         'text': "Each construct's fragment is proved to push exactly type_of() values and never to touch the stack below its entry, for all run-time states (fragcheck); require_type / types_match "
                 "are checked on all 16 type pairs; every operator factory's operand/result types agree with the langspec signature of its op; every public expression constructor is tried on every "
                 'vector of stack types up to arity 3 and whatever compiles must keep stack and type discipline (exhaustive). Per-program discipline (equal heights on all paths, retsub deltas, frame '
                 'cells, no definite type error) is decided by abstract interpretation of the emitted TEAL for generated programs, typed storage sinks fed wrong-typed values, routine bodies of the '
                 'wrong type and ABI subroutines (bounded).',
         'note': 'trusted: langspec signatures, tealcheck abstract interpreter (canary: one rejected program per clause), spec terms. Raw ScratchSlot.store() excluded as in the property. Known '
                 'finding O3.4 (optimiser leaves a value on the stack) is reported as KNOWN-FINDING on a fixed witness.',
         'design_ref': 'DESIGN.md 5/C05'},
 'C20': {'level': 'other',
         'engine': 'bounded',
         'technique': 'exception-freedom contract on flattenBlocks (pyvc/z3) + bounded stand-ins: exhaustive small-scope enumeration of degenerate control-flow shapes and block graphs, generated '
                      'programs, size probes',
         'text': 'All statement shapes of nesting depth <= 2 over pop / empty Seq / If / While / For / Cond / Break / Continue, as first statement and after a statement, at several versions with the '
                 'optimiser on and off, must compile to TEAL (and behave as described) or raise a PyTeal error; plus generated programs and long / deeply nested probes. Exploration, not proof. '
                 'Bounded additions: shared Expr objects, template constants with assembled constants, full slot occupancy, recursive routines of arity 0..3 at versions 4..10 (the recursion spill '
                 'pass, executed), 63 builder-misuse probes (compilation of whatever the constructors accept gives TEAL or a PyTeal error).',
         'note': 'only flattenBlocks is under contract; NormalizeBlocks / addIncoming / validateTree / sortBlocks are explored exhaustively on small graphs (bounded). Three defects found here were '
                 'repaired (fix: commits); recursion depth on long programs is a known finding.',
         'design_ref': 'DESIGN.md 5/C20'},
 'C01': {'level': 'proof',
         'engine': 'fragcheck',
         'technique': 'fragment contracts: the real __teal__ of every anchored construct run on opaque children, resulting block graph vs documented meaning by z3 for all run-time states (loops by '
                      'cut-point simulation); bounded native stand-in for the block passes',
         'text': 'Per construct (operators, Seq, If/ElseIf, Cond, While, For with Break/Continue exits, Assert, Return/Approve/Reject, scratch access, MultiValue, Comment/Nonce/Pragma, '
                 'SubroutineCall) the fragment built by the real method is proved equal to the documented meaning over uninterpreted child semantics: same effects in the same order, each operand '
                 'once, only the selected branch / iteration. The control domain the method can observe (child types, has_return, pending exits, version, mode) is enumerated. flattenBlocks and '
                 'sortBlocks are under their own pyvc contracts (every block list / graph); NormalizeBlocks is covered by the bounded stand-in only. Also decided by execution (E): the 20 Python '
                 'operators overloaded on Expr build the documented expression; bounded: loops whose arm / body is nothing but a Comment, a fixed witness of the recorded optimiser finding.',
         'note': 'trusted: spec terms (documented meaning), langspec arities, meaning of control ops; meta-lemma L-frag; parametricity of constructs in their children. Whole-pipeline check is a '
                 'bounded stand-in (generated programs on the spec AVM). flattenBlocks, sortBlocks and the linking constructs are under pyvc contracts (10.3). Known finding O3.4 (slot optimiser, '
                 'outside these contracts) is reported as KNOWN-FINDING on a fixed witness.',
         'design_ref': 'DESIGN.md 3, 5/C01'},
 'C02': {'level': 'proof',
         'technique': 'contract-based deductive verification: pyvc VCs from the real AST of spillLocalSlotsDuringRecursion with ghost execution of every appended op on an array-stack AVM state '
                      '(symbolic numArgs, slot count, version), z3; bounded native stand-in end to end',
         'text': 'The per-call-site contract of the spill/restore sequences is proved for every argument count, every number of local slots, v4 (dig) and v5+ (cover/uncover) and every return shape '
                 'of the callee: in front of callsub the stack is base++spilled++args, afterwards it is base++result and every local slot holds its pre-call value. The rest of the calling convention '
                 '(SubroutineCall, SubroutineEval.evaluate, frame ops) is currently covered only by the bounded stand-in (generated recursive programs executed on the spec AVM against direct '
                 'evaluation). Bounded additions: recursion scenarios for every caller / callee kind pair (plain value / plain none / ABI output / ABI void), self recursion, three kinds of local '
                 '(incl. one that is also passed by reference), versions 6..10 x 9 option settings.',
         'note': 'trusted: spec/symavm.py, callee summary (pops n, pushes r, may clobber scratch), sorted() contract, slot ids distinct and <256 (C10), meta-lemma L-call; pyvc encoding; z3. Bounded '
                 'part never counted as proved. Recursion scenarios (every caller/callee kind pair, self recursion) are bounded. Known finding O3.4 (slot optimiser: a frame-pointer routine returns a '
                 'leftover value) is reported as KNOWN-FINDING on a fixed witness.',
         'design_ref': 'DESIGN.md 5/C02'},
 'C16': {'level': 'proof',
         'technique': 'contract-based deductive verification: pyvc VCs from the real AST of multiplyFactors (loop invariant, symbolic factor count) and WideRatio.__teal__ (against the callee '
                      'contract), z3; bounded native stand-in end to end',
         'text': 'multiplyFactors is verified for every number of factors by a loop invariant over the spec sequences (running product, overflow, world threading, first abnormal factor); '
                 'WideRatio.__teal__ is verified against that contract with the combine block executed on the symbolic AVM over mathematical integers: fails iff a running product overflows 128 bits, '
                 'the divisor is zero or the quotient exceeds 64 bits, else pushes exactly floor(N/D).',
         'note': "trusted: spec/symavm.py op semantics, the Expr.__teal__ interface contract for opaque factor expressions, meta-lemma L-frag, pyvc's encoding of the Python subset, z3. The "
                 'end-to-end compile+run check is a bounded stand-in (labelled).',
         'design_ref': 'DESIGN.md 5/C16'}}
