ENGINES = [
    {"name": "fragcheck", "path": "/verif/fragcheck", "serves_properties": ["C01", "C05"],
     "kind_free_text": "fragment contracts of Expr.__teal__: real method executed on opaque child proxies, symbolic execution of the returned block graph against the documented meaning (z3, uninterpreted child semantics, cut-point simulation for loops)"},
    {"name": "pyvc", "path": "/verif/pyvc", "serves_properties": ["C02", "C03", "C04", "C06", "C07", "C16"],
     "kind_free_text": "symbolic executor of a Python subset over the real source (ast re-read on every run) with sidecar contracts, loop invariants, callee contracts; VCs discharged by z3 (cvc5 for unknowns)"},
]
NOTES = "Obligation kinds P/E/F are counted as proved; B (bounded stand-ins) are labelled and never counted. See DESIGN.md."
NOT_APPLICABLE = {}
CHECKS = {
    "C06": {
        "level": "other", "engine": "pyvc",
        "technique": "contracts on the ARC-4 layout arithmetic (pyvc loop invariants against an independent element-by-element position function, z3) + bounded stand-in against the reference codec algosdk.abi",
        "text": "_bool_sequence_length, _consecutive_thing_num and _bool_aware_static_byte_length are proved for every type sequence: the static length equals the ARC-4 position function (bool packing included). Type strings, dynamic-ness, static lengths and the bytes produced by set()/encode() are compared with algosdk.abi for generated shapes and boundary-biased values at versions 5..10, in the main routine and inside subroutines (bounded). Out-of-range integers: rejected as Python ints, failing as expressions (bounded).",
        "note": "trusted: algosdk.abi, the position-function spec, TypeSpec interface contracts for element types (is_dynamic, byte_length_static as uninterpreted functions). The Expr layer of _encode_tuple is not yet under contract.",
        "design_ref": "DESIGN.md 5/C06",
    },
    "C07": {
        "level": "other", "engine": "pyvc",
        "technique": "layout contracts shared with C06 (pyvc) + bounded stand-in: decode / element access on generated shapes, values and positions against algosdk.abi on the spec AVM",
        "text": "For generated type shapes and values every tuple / array position (constant and computed index), get(), length() and the decode-encode round trip are compared with the reference encoding of the component; out-of-range indices must fail. Three classes of non-failing out-of-range accesses are known findings. _index_tuple's offset arithmetic is not yet discharged deductively.",
        "note": "mostly bounded (labelled); proof part limited to the shared layout helpers.",
        "design_ref": "DESIGN.md 5/C07",
    },
    "C04": {
        "level": "other", "engine": "pyvc",
        "technique": "contracts on verifyOpsForVersion / verifyOpsForMode / verifyProgramVersion (pyvc loop invariants, z3) + exhaustive table comparison of Op / TxnField / GlobalField with an independent langspec + bounded structural validation of emitted TEAL",
        "text": "The version and mode gates are proved for every component list: compilation passes them iff every op exists at the version and in the mode. Every row of pyteal's opcode, transaction-field and global-field tables equals the independently written AVM table (name, first version, modes, type, array-ness). Pragma, label uniqueness, defined targets, placeholders, terminators and immediate ranges are validated on the emitted text of generated programs and hand-written probes (bounded).",
        "note": "trusted: spec/langspec.py (hand-written from the AVM spec), spec/tealcheck.py. flattenBlocks / resolveSubroutines label contracts not yet discharged deductively.",
        "design_ref": "DESIGN.md 5/C04",
    },
    "C03": {
        "level": "other", "engine": "pyvc",
        "technique": "contracts on the option-default functions (pyvc/z3); version-parametric fragment contracts (C01); bounded stand-in: every option pair x versions on generated programs against the description's meaning",
        "text": "OptimizeOptions.optimize_scratch_slots / use_frame_pointers are proved to follow the documented defaults (v9 / v8) and to honour / reject explicit requests. Whole-program independence of (scratch_slots, frame_pointers, version) - outcome, empty stack at exit, final user-numbered slots - is a bounded stand-in over generated programs; the slot optimiser itself is not yet under contract.",
        "note": "proof part covers only the option-default functions; optimiser + whole program are bounded (labelled). Known finding O3.4 (optimiser leaves values on the stack) is reported as KNOWN-FINDING.",
        "design_ref": "DESIGN.md 5/C03",
    },
    "C05": {
        "level": "other", "engine": "fragcheck",
        "technique": "fragment contracts (stack delta / type_of / has_return clauses, z3) + exhaustive tables (type lattice, operator signatures vs langspec) + bounded abstract interpretation of emitted TEAL",
        "text": "Each construct's fragment is proved to push exactly type_of() values and never to touch the stack below its entry, for all run-time states (fragcheck); require_type / types_match are checked on all 16 type pairs; every operator factory's operand/result types agree with the langspec signature of its op. Per-program discipline (equal heights on all paths, retsub deltas, no definite type error) is decided by abstract interpretation of the emitted TEAL for generated programs (bounded).",
        "note": "trusted: langspec signatures, tealcheck abstract interpreter, spec terms. Raw ScratchSlot.store() excluded as in the property.",
        "design_ref": "DESIGN.md 5/C05",
    },
    "C20": {
        "level": "other", "engine": "bounded",
        "technique": "bounded stand-in only: exhaustive small-scope enumeration of degenerate control-flow shapes, generated programs and size probes compiled by the real compileTeal (no deductive obligation yet)",
        "text": "All statement shapes of nesting depth <= 2 over pop / empty Seq / If / While / For / Cond / Break / Continue, as first statement and after a statement, at several versions with the optimiser on and off, must compile to TEAL (and behave as described) or raise a PyTeal error; plus generated programs and long / deeply nested probes. Exploration, not proof.",
        "note": "no obligations counted as proved. Three defects found here were repaired (fix: commits); recursion depth on long programs is a known finding.",
        "design_ref": "DESIGN.md 5/C20",
    },
    "C01": {
        "level": "proof", "engine": "fragcheck",
        "technique": "fragment contracts: the real __teal__ of every anchored construct run on opaque children, resulting block graph vs documented meaning by z3 for all run-time states (loops by cut-point simulation); bounded native stand-in for the block passes",
        "text": "Per construct (operators, Seq, If/ElseIf, Cond, While, For with Break/Continue exits, Assert, Return/Approve/Reject, scratch access, MultiValue, Comment/Nonce/Pragma, SubroutineCall) the fragment built by the real method is proved equal to the documented meaning over uninterpreted child semantics: same effects in the same order, each operand once, only the selected branch / iteration. The control domain the method can observe (child types, has_return, pending exits, version, mode) is enumerated. NormalizeBlocks / sortBlocks / flattenBlocks are covered by the bounded stand-in only (for now).",
        "note": "trusted: spec terms (documented meaning), langspec arities, meaning of control ops; meta-lemma L-frag; parametricity of constructs in their children. Whole-pipeline check is a bounded stand-in (generated programs on the spec AVM).",
        "design_ref": "DESIGN.md 3, 5/C01",
    },
    "C02": {
        "level": "proof",
        "technique": "contract-based deductive verification: pyvc VCs from the real AST of spillLocalSlotsDuringRecursion with ghost execution of every appended op on an array-stack AVM state (symbolic numArgs, slot count, version), z3; bounded native stand-in end to end",
        "text": "The per-call-site contract of the spill/restore sequences is proved for every argument count, every number of local slots, v4 (dig) and v5+ (cover/uncover) and every return shape of the callee: in front of callsub the stack is base++spilled++args, afterwards it is base++result and every local slot holds its pre-call value. The rest of the calling convention (SubroutineCall, SubroutineEval.evaluate, frame ops) is currently covered only by the bounded stand-in (generated recursive programs executed on the spec AVM against direct evaluation).",
        "note": "trusted: spec/symavm.py, callee summary (pops n, pushes r, may clobber scratch), sorted() contract, slot ids distinct and <256 (C10), meta-lemma L-call; pyvc encoding; z3. Bounded part never counted as proved.",
        "design_ref": "DESIGN.md 5/C02",
    },
    "C16": {
        "level": "proof",
        "technique": "contract-based deductive verification: pyvc VCs from the real AST of multiplyFactors (loop invariant, symbolic factor count) and WideRatio.__teal__ (against the callee contract), z3; bounded native stand-in end to end",
        "text": "multiplyFactors is verified for every number of factors by a loop invariant over the spec sequences (running product, overflow, world threading, first abnormal factor); WideRatio.__teal__ is verified against that contract with the combine block executed on the symbolic AVM over mathematical integers: fails iff a running product overflows 128 bits, the divisor is zero or the quotient exceeds 64 bits, else pushes exactly floor(N/D).",
        "note": "trusted: spec/symavm.py op semantics, the Expr.__teal__ interface contract for opaque factor expressions, meta-lemma L-frag, pyvc's encoding of the Python subset, z3. The end-to-end compile+run check is a bounded stand-in (labelled).",
        "design_ref": "DESIGN.md 5/C16",
    },
}
