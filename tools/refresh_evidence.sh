#!/bin/bash
# Re-run every registered quick check against /repo itself and leave the evidence files they write in /verif/evidence.
# Serialised with tools/seed_confirm.sh (which patches /repo temporarily) through the same lock file.
exec 9>/var/tmp/confirm.lock
flock 9
cd /verif
if [ -n "$(git -C /repo status --porcelain --untracked-files=no)" ]; then echo "/repo has uncommitted changes: refusing"; exit 2; fi
rc_all=0
for i in $(seq -w 1 20); do
  ./check C$i --tier quick > /var/tmp/refresh_C$i.log 2>&1; rc=$?
  echo "C$i rc=$rc $(tail -1 /var/tmp/refresh_C$i.log | cut -c1-150)"
  [ $rc -ne 0 ] && rc_all=1
done
exit $rc_all
