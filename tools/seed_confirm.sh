#!/bin/bash
# usage: seed_confirm.sh <seed-id> <worktree> <property> [checks to run...]
# Confirms a seeded change (demo fails with / passes without, suite unchanged), stores it under /verif/seeded/<id>/,
# runs the given checks against it (applied to /repo, reverted afterwards) and records the outcome in meta.json.
set -u
ID=$1; WT=$2; PROP=$3; shift 3; CHECKS="$@"
OUT=/verif/seeded/$ID
mkdir -p $OUT
cd $WT || exit 2
git diff -- pyteal feature_gates > $OUT/patch.diff
[ -s $OUT/patch.diff ] || cp mutation.diff $OUT/patch.diff
cp demo.py $OUT/demo.py 2>/dev/null
cp NOTES.md $OUT/NOTES.md 2>/dev/null
# demo with the change
git checkout -q -- pyteal feature_gates 2>/dev/null; git apply $OUT/patch.diff
/venv/bin/python demo.py > $OUT/demo_with.log 2>&1; WITH=$?
git checkout -q -- pyteal feature_gates 2>/dev/null
/venv/bin/python demo.py > $OUT/demo_without.log 2>&1; WITHOUT=$?
git apply $OUT/patch.diff
# suite with the change
timeout 1200 /venv/bin/python -m pytest -q -p no:cacheprovider --timeout=300 -n 12 2>&1 | grep -E "^(FAILED|ERROR)" | sed 's/ - .*//' | sort > $OUT/suite_fail.txt
CAND=$(comm -23 $OUT/suite_fail.txt /var/tmp/base_fail.txt | grep -v "sourcemap_test.py::test_no_regression\|test_sourcemap_fails_because_not_enabled" | sed 's/^FAILED //;s/^ERROR //')
NEWFAIL=""
for t in $CAND; do
  # re-run alone: the machine may be loaded, some tests are timing / order sensitive
  if ! timeout 900 /venv/bin/python -m pytest -q -p no:cacheprovider "$t" > /dev/null 2>&1; then NEWFAIL="$NEWFAIL $t"; fi
done
git checkout -q -- pyteal feature_gates
# checks against /repo
RESULTS=""
cd /verif
git -C /repo apply $OUT/patch.diff || { echo "patch does not apply to /repo"; exit 3; }
for c in $CHECKS; do
  VERIF_EVIDENCE_DIR=/var/tmp/confirm_ev ./check $c > $OUT/check_$c.log 2>&1; rc=$?
  RESULTS="$RESULTS $c:$rc"
done
git -C /repo checkout -- .
/verif/.venv/bin/python - "$ID" "$PROP" "$WITH" "$WITHOUT" "$NEWFAIL" "$RESULTS" <<'PY'
import json, sys, os
id_, prop, w, wo, newfail, results = sys.argv[1:7]
out = f"/verif/seeded/{id_}"
notes = open(os.path.join(out, "NOTES.md")).read() if os.path.exists(os.path.join(out, "NOTES.md")) else ""
meta = {"id": id_, "property": prop, "demo_exit_with_change": int(w), "demo_exit_without_change": int(wo),
        "new_suite_failures": newfail.split(), "confirmed": int(w) != 0 and int(wo) == 0 and not newfail.split(),
        "checks_run": {r.split(":")[0]: int(r.split(":")[1]) for r in results.split()},
        "what_it_needs": notes[:1500],
        "ran": "demo.py with and without the change in the author's worktree; full pytest -n 16 with the change vs baseline failures; listed checks with the patch applied to /repo (reverted afterwards)"}
json.dump(meta, open(os.path.join(out, "meta.json"), "w"), indent=1)
print(json.dumps({k: meta[k] for k in ("id", "property", "confirmed", "demo_exit_with_change", "demo_exit_without_change", "new_suite_failures", "checks_run")}))
PY
