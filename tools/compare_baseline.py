#!/usr/bin/env python3
"""usage: compare_baseline.py junit.xml  -- are all stable_pass tests of BASELINE.json passing in this run?"""
import json, sys, xml.etree.ElementTree as ET
stable = set(json.load(open('/root/.vp/BASELINE.json'))['stable_pass'])
passed = set()
for tc in ET.parse(sys.argv[1]).iter('testcase'):
    if not any(ch.tag in ('failure', 'error', 'skipped') for ch in tc):
        passed.add(f"{tc.get('classname')}::{tc.get('name')}")
missing = sorted(s for s in stable if s not in passed)
print(f"{len(stable)} stable, {len(passed)} passed, {len(missing)} stable tests not passing")
for m in missing[:20]:
    print("  ", m)
sys.exit(1 if missing else 0)
