#!/usr/bin/env python3
"""Automated mutation sampling (development aid, not part of any registered check).

For a property: pick random single-point mutations in the property's anchor files, keep those that the repository's own tests next to
the mutated module still pass, run the property's quick check against the mutated scratch tree, and record caught / missed.
Missed mutants are candidates for (a) equivalent mutants, (b) blind spots of the check - they are reviewed by hand.

usage: automut.py <scratch-worktree> <property> <n-mutants> <seed> [file ...]
Writes /var/tmp/automut/<property>.jsonl
"""
import ast
import json
import os
import random
import subprocess
import sys
import time

VERIF = os.path.dirname(os.path.dirname(os.path.abspath(__file__)))

SWAP_CMP = {ast.Lt: "<=", ast.LtE: "<", ast.Gt: ">=", ast.GtE: ">", ast.Eq: "!=", ast.NotEq: "==", ast.Is: "is not", ast.IsNot: "is", ast.In: "not in", ast.NotIn: "in"}
CMP_TXT = {ast.Lt: "<", ast.LtE: "<=", ast.Gt: ">", ast.GtE: ">=", ast.Eq: "==", ast.NotEq: "!=", ast.Is: "is", ast.IsNot: "is not", ast.In: "in", ast.NotIn: "not in"}


def sites(src):
    """(kind, lineno, col, end_lineno, end_col, replacement-text) list of single-point edits"""
    tree = ast.parse(src)
    lines = src.split("\n")
    out = []

    def seg(n):
        return ast.get_source_segment(src, n)
    for n in ast.walk(tree):
        if isinstance(n, ast.Compare) and len(n.ops) == 1 and type(n.ops[0]) in SWAP_CMP:
            l, r = seg(n.left), seg(n.comparators[0])
            if l and r and n.lineno == n.end_lineno:
                out.append(("cmp", n, f"{l} {SWAP_CMP[type(n.ops[0])]} {r}"))
        elif isinstance(n, ast.Constant) and isinstance(n.value, int) and not isinstance(n.value, bool) and 0 <= n.value <= 300:
            out.append(("const+1", n, str(n.value + 1)))
            if n.value > 0:
                out.append(("const-1", n, str(n.value - 1)))
        elif isinstance(n, ast.BinOp) and isinstance(n.op, (ast.Add, ast.Sub)) and n.lineno == n.end_lineno:
            l, r = seg(n.left), seg(n.right)
            if l and r and not (isinstance(n.left, ast.Constant) and isinstance(n.left.value, str)):
                out.append(("addsub", n, f"{l} {'-' if isinstance(n.op, ast.Add) else '+'} {r}"))
        elif isinstance(n, ast.BoolOp) and len(n.values) == 2 and n.lineno == n.end_lineno:
            l, r = seg(n.values[0]), seg(n.values[1])
            if l and r:
                out.append(("andor", n, f"{l} {'or' if isinstance(n.op, ast.And) else 'and'} {r}"))
        elif isinstance(n, ast.UnaryOp) and isinstance(n.op, ast.Not):
            o = seg(n.operand)
            if o:
                out.append(("not", n, f"({o})"))
        elif isinstance(n, ast.Break):
            out.append(("break", n, "continue"))
        elif isinstance(n, ast.Continue):
            out.append(("continue", n, "break"))
        elif isinstance(n, ast.Call) and len(n.args) >= 2 and not n.keywords and n.lineno == n.end_lineno and all(isinstance(a, ast.Name) for a in n.args[:2]) \
                and n.args[0].id != n.args[1].id:
            f = seg(n.func)
            rest = [seg(a) for a in n.args]
            if f and all(rest):
                rest[0], rest[1] = rest[1], rest[0]
                out.append(("argswap", n, f"{f}({', '.join(rest)})"))
        elif isinstance(n, ast.If) and len(n.body) == 1 and isinstance(n.body[0], ast.Raise) and not n.orelse:
            t = seg(n.test)
            if t and n.test.lineno == n.test.end_lineno:
                out.append(("guard-off", n.test, "False"))
        elif isinstance(n, (ast.Expr, ast.AugAssign)) and n.lineno == n.end_lineno and not (isinstance(n, ast.Expr) and isinstance(n.value, ast.Constant)):
            out.append(("stmt-del", n, "pass"))
        elif isinstance(n, ast.Subscript) and isinstance(n.slice, ast.Slice) and n.lineno == n.end_lineno and (n.slice.lower or n.slice.upper):
            v = seg(n.value)
            lo = seg(n.slice.lower) if n.slice.lower else ""
            hi = seg(n.slice.upper) if n.slice.upper else ""
            if v is not None and n.slice.step is None:
                if lo:
                    out.append(("slice-lo", n, f"{v}[{lo} + 1:{hi}]"))
                if hi:
                    out.append(("slice-hi", n, f"{v}[{lo}:{hi} - 1]"))
    return out


def apply(src, node, text):
    lines = src.split("\n")
    if node.lineno != node.end_lineno:
        return None
    i = node.lineno - 1
    line = lines[i]
    # col offsets are utf8 byte offsets
    b = line.encode("utf-8")
    nb = b[:node.col_offset] + text.encode("utf-8") + b[node.end_col_offset:]
    lines[i] = nb.decode("utf-8")
    return "\n".join(lines)


ANCHORED = {}
for _l in open(os.path.join(VERIF, "properties.jsonl")):
    _p = json.loads(_l)
    for _f in _p["anchors"]["files"]:
        ANCHORED.setdefault(_f, []).append(_p["id"])


def main():
    wt, prop, n, seed = sys.argv[1], sys.argv[2], int(sys.argv[3]), int(sys.argv[4])
    files = sys.argv[5:]
    if not files:
        for l in open(os.path.join(VERIF, "properties.jsonl")):
            p = json.loads(l)
            if p["id"] == prop:
                files = [f for f in p["anchors"]["files"] if f.endswith(".py") and f.startswith("pyteal/")]
    r = random.Random(seed)
    os.makedirs("/var/tmp/automut", exist_ok=True)
    outp = f"/var/tmp/automut/{prop}{os.environ.get('AUTOMUT_SUFFIX', '')}.jsonl"
    cands = []
    for f in files:
        p = os.path.join(wt, f)
        if not os.path.exists(p):
            continue
        src = open(p).read()
        for kind, node, text in sites(src):
            cands.append((f, kind, node, text))
    r.shuffle(cands)
    done = 0
    for f, kind, node, text in cands:
        if done >= n:
            break
        p = os.path.join(wt, f)
        src = open(p).read()
        new = apply(src, node, text)
        if new is None or new == src:
            continue
        try:
            ast.parse(new)
        except SyntaxError:
            continue
        open(p, "w").write(new)
        rec = {"file": f, "line": node.lineno, "kind": kind, "old": src.split("\n")[node.lineno - 1].strip()[:160], "new": new.split("\n")[node.lineno - 1].strip()[:160]}
        try:
            tests = [t for t in (f[:-3] + "_test.py", os.path.dirname(f) + "/__init__.py") if t.endswith("_test.py") and os.path.exists(os.path.join(wt, t))]
            if not tests:
                tests = ["pyteal/compiler/compiler_test.py"]
            t0 = time.time()
            tp = subprocess.run(["/venv/bin/python", "-m", "pytest", "-q", "-x", "-p", "no:cacheprovider", "--timeout=120", "-n", "4"] + tests, cwd=wt, capture_output=True, text=True, timeout=900)
            rec["tests_pass"] = tp.returncode == 0
            rec["test_secs"] = round(time.time() - t0, 1)
            if tp.returncode != 0:
                rec["verdict"] = "killed-by-suite"
            else:
                t0 = time.time()
                props = [prop] + [q for q in ANCHORED.get(f, []) if q != prop] if os.environ.get("AUTOMUT_ALL_ANCHORED") else [prop]
                rcs = {}
                for q in props:
                    cp = subprocess.run([os.path.join(VERIF, "check"), q, "--tier", "quick"], cwd=VERIF, capture_output=True, text=True, timeout=1800,
                                        env=dict(os.environ, VERIF_REPO=wt, VERIF_EVIDENCE_DIR="/var/tmp/automut/evidence"))
                    rcs[q] = cp.returncode
                    if cp.returncode == 1:
                        rec["line1"] = next((l[:240] for l in cp.stdout.splitlines() if l.startswith(("VIOLATION", "UNDECIDED", "  what:"))), "")
                        break
                rec["check_rcs"] = rcs
                rec["check_rc"] = 1 if 1 in rcs.values() else max(rcs.values())
                rec["check_secs"] = round(time.time() - t0, 1)
                rec["verdict"] = {0: "MISSED", 1: "caught", 2: "undecided", 3: "checker-crash"}.get(rec["check_rc"], f"rc{rec['check_rc']}")
                done += 1
        except subprocess.TimeoutExpired:
            rec["verdict"] = "timeout"
        finally:
            open(p, "w").write(src)
        open(outp, "a").write(json.dumps(rec) + "\n")


if __name__ == "__main__":
    main()
