#!/usr/bin/env python3
"""Regenerate MANIFEST.json from tools/registry.py (single source of truth for claimed checks)."""
import json, os, sys
sys.path.insert(0, os.path.dirname(os.path.dirname(os.path.abspath(__file__))))
from tools.registry import CHECKS, NOT_APPLICABLE, ENGINES, NOTES

props = [json.loads(l) for l in open(os.path.join(os.path.dirname(__file__), "..", "properties.jsonl"))]
ids = [p["id"] for p in props]
checks = []
for pid in ids:
    if pid in CHECKS:
        c = CHECKS[pid]
        checks.append({
            "property_id": pid,
            "quick_cmd": f"./check {pid} --tier quick",
            "thorough_cmd": f"./check {pid} --tier thorough",
            "evidence_file": f"/verif/evidence/{pid}.json",
            "replay_cmd_template": f"./check {pid} --replay {{path}}",
            "engine": c.get("engine", "pyvc"),
            "level_claimed": {"category": c["level"], "text": c["text"], "design_ref": c.get("design_ref", "DESIGN.md section 5")},
            "level_note": c["note"],
            "technique": c["technique"],
        })
na = [{"property_id": pid, "reason": NOT_APPLICABLE.get(pid, "check not built yet (work in progress)")}
      for pid in ids if pid not in CHECKS]
m = {"version": 1, "setup_cmd": "./setup.sh",
     "hooks": {"guard": "ALGORAND_PYTEAL_VERIF",
               "enable": "no hooks: contracts are sidecar files under /verif/contracts; the real sources are re-parsed (ast) and re-imported from /repo (or $VERIF_REPO) on every run",
               "baseline_off_cmd": "cd /repo && /venv/bin/python -m pytest -ra -q -p no:cacheprovider --timeout=900 --continue-on-collection-errors",
               "source_commits": [], "add_only": True},
     "engines": ENGINES, "checks": checks, "notes": NOTES, "not_applicable": na}
json.dump(m, open(os.path.join(os.path.dirname(__file__), "..", "MANIFEST.json"), "w"), indent=1)
print("checks:", [c["property_id"] for c in checks], "n/a:", len(na))
