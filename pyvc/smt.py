"""SMT back ends: z3 (python API, in-process) first, cvc5 (CLI on an SMT-LIB dump) for z3's unknowns."""
from __future__ import annotations

import os
import subprocess
import tempfile
import time

import z3

Z3_TIMEOUT_MS = int(os.environ.get("PYVC_Z3_TIMEOUT_MS", "20000"))
CVC5_TIMEOUT_MS = int(os.environ.get("PYVC_CVC5_TIMEOUT_MS", "30000"))



def guarded_check(solver, timeout_ms, *assumptions):
    """solver.check() with a second line of defence behind z3's own timeout: a timer thread interrupts the context a few seconds
    after the budget (z3's timer threads do not always survive a fork, and a query that ignores its budget would hang the check).
    An interrupted query answers `unknown`, which every caller already treats as undecided."""
    import threading
    t = threading.Timer(timeout_ms / 1000 + 5, solver.ctx.interrupt)
    t.daemon = True
    t.start()
    try:
        return solver.check(*assumptions)
    finally:
        t.cancel()


def check_sat(assertions, timeout_ms=None, want_model=True):
    """Return (status, model_or_reason, backend, ms); status in sat|unsat|unknown."""
    t0 = time.time()
    s = z3.Solver()
    s.set("timeout", timeout_ms or Z3_TIMEOUT_MS)
    for a in assertions:
        s.add(a)
    r = guarded_check(s, timeout_ms or Z3_TIMEOUT_MS)
    ms = (time.time() - t0) * 1000
    if r == z3.unsat:
        return "unsat", None, "z3-" + z3.get_version_string(), ms
    if r == z3.sat:
        m = s.model() if want_model else None
        return "sat", m, "z3-" + z3.get_version_string(), ms
    # unknown: try cvc5 on the SMT-LIB text
    reason = s.reason_unknown()
    try:
        st, out = _cvc5(s.to_smt2())
        ms = (time.time() - t0) * 1000
        if st in ("sat", "unsat"):
            return st, (out if st == "sat" else None), "cvc5-cli", ms
        return "unknown", f"z3: {reason}; cvc5: {out[:200]}", "z3+cvc5", ms
    except Exception as e:  # pragma: no cover
        return "unknown", f"z3: {reason}; cvc5 failed: {e}", "z3", ms


def _cvc5(smt2: str):
    with tempfile.NamedTemporaryFile("w", suffix=".smt2", delete=False, dir=os.environ.get("PYVC_TMP", None)) as f:
        f.write("(set-logic ALL)\n" + smt2)
        path = f.name
    try:
        p = subprocess.run(["/usr/bin/cvc5", "--lang=smt2", f"--tlimit={CVC5_TIMEOUT_MS}", "--strings-exp", path],
                           capture_output=True, text=True, timeout=CVC5_TIMEOUT_MS / 1000 + 10)
        out = (p.stdout + p.stderr).strip()
        first = out.splitlines()[0].strip() if out else ""
        if first in ("sat", "unsat"):
            return first, out
        return "unknown", out
    finally:
        os.unlink(path)


def prove(hyps, goal, timeout_ms=None):
    """Is hyps => goal valid?  Returns (status, model, backend, ms) with status discharged|refuted|unknown."""
    st, m, be, ms = check_sat(list(hyps) + [z3.Not(goal)], timeout_ms)
    return {"unsat": "discharged", "sat": "refuted", "unknown": "unknown"}[st], m, be, ms


def model_to_dict(m, limit=60):
    if m is None:
        return None
    if isinstance(m, str):
        return m[:2000]
    out = {}
    try:
        for d in m.decls()[:limit]:
            out[d.name()] = str(m[d])[:200]
    except Exception as e:  # pragma: no cover
        out["_error"] = str(e)
    return out
