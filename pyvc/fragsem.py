"""Fragment semantics for pyvc contracts: opaque child fragments, chain execution on the symbolic AVM.

World = everything of the AVM state except the operand stack of the current fragment (scratch, logs, app
state, inner txns, txn context).  A child expression `e` is *opaque*: its meaning is given by uninterpreted
functions of (e, world):
    kindE(e, w) = 0  -> evaluates normally, new world nwE(e, w), pushes valE(e, w) (if typed)
    kindE(e, w) != 0 -> abnormal outcome abnE(e, w) (exit / err / retsub / break / continue), opaque
This is the interface contract of Expr.__teal__ (DESIGN.md section 3) as used at call sites.
"""
from __future__ import annotations

import z3

from .values import *  # noqa
from .engine import Unsupported, RaiseSignal
from spec import symavm

World = z3.DeclareSort("World")
kindE = z3.Function("kindE", z3.IntSort(), World, z3.IntSort())
nwE = z3.Function("nwE", z3.IntSort(), World, World)
valE = z3.Function("valE", z3.IntSort(), World, z3.IntSort())
abnE = z3.Function("abnE", z3.IntSort(), World, z3.IntSort())  # >= 0
FAIL = z3.IntVal(-1)


class FragState:
    """world + symbolic AVM state (list stack)."""

    def __init__(self, world, avm=None):
        self.world = world
        self.avm = avm or symavm.SymState(symavm.ListStack())


class ChildDen:
    """Semantics of an opaque child fragment: den of expression term `e` pushing `pushes` values."""

    def __init__(self, e_term, pushes=1, end=None):
        self.e, self.pushes, self.end = e_term, pushes, end

    def apply(self, I, st: FragState):
        w = st.world
        if I.ctx.branch(kindE(self.e, w) == 0):
            st.world = nwE(self.e, w)
            if self.pushes:
                v = valE(self.e, w)
                I.ctx.assume(z3.And(v >= 0, v < symavm.U64))
                st.avm.stack.push(v)
            return None
        I.ctx.assume(abnE(self.e, w) >= 0)
        return z3.If(st.avm.fail, FAIL, abnE(self.e, w))


def make_opaque_fragment(I, den, TealSimpleBlock):
    """(start, end) block objects of an opaque fragment."""
    from .verifier import stamp
    end = stamp(SObj(TealSimpleBlock, {"ops": [], "nextBlock": None, "incoming": [], "_sframes_container": None,
                                       "visited": False}))
    start = stamp(SObj(TealSimpleBlock, {"ops": [], "nextBlock": None, "incoming": [], "_sframes_container": None,
                                         "visited": False}))
    start.meta["opaque"] = den
    den.end = end
    end.meta["opaque_end_of"] = start
    return start, end


def run_chain(I, start, st: FragState, max_blocks=200):
    """Run simple-block chain from `start`. Returns ("normal", last_block) or ("abnormal", outcome_term)."""
    cur = start
    n = 0
    while True:
        n += 1
        if n > max_blocks:
            raise Unsupported("run_chain: chain too long or cyclic")
        if not isinstance(cur, SObj):
            raise Unsupported(f"run_chain: block {cur!r} is not a concrete heap object")
        den = cur.meta.get("opaque")
        if den is not None:
            out = den.apply(I, st)
            if out is not None:
                return "abnormal", out
            cur = den.end
        else:
            if "trueBlock" in cur.fields:
                raise Unsupported("run_chain: conditional block")
            for op in cur.fields["ops"]:
                opv = op.fields["op"]
                try:
                    symavm.step(st.avm, str(opv), list(op.fields["args"]))
                except symavm.Fail as e:
                    return "underflow", str(e)
                if st.avm.halted:
                    return "halted", st.avm.halted
        nxt = cur.fields.get("nextBlock")
        if nxt is None:
            return "normal", cur
        cur = nxt


def default_callees():
    """Stubs for source-map machinery: these objects are never read by the semantics."""
    import pyteal.stack_frame as sf
    from .verifier import stamp

    def natal(I, args, kwargs):
        return stamp(SObj(sf.NatalStackFrame))

    return {sf.NatalStackFrame: natal}
